//! oxfacts: a rustc_private driver that dumps HIR/MIR facts of every local
//! crate as JSONL. It is injected with RUSTC_WORKSPACE_WRAPPER under
//! `cargo +nightly check`; rules over the facts live in /verif/rules.
//!
//! The driver executes nothing of the analysed program: it reads rustc's
//! type-checked HIR and drop-elaborated MIR and writes them out.
#![feature(rustc_private)]
#![allow(clippy::all)]

extern crate rustc_abi;
extern crate rustc_ast;
extern crate rustc_data_structures;
extern crate rustc_driver;
extern crate rustc_hir;
extern crate rustc_infer;
extern crate rustc_interface;
extern crate rustc_middle;
extern crate rustc_span;
extern crate rustc_trait_selection;

mod hirdump;
mod json;
mod mirdump;
mod tyclass;

use std::io::Write;

use rustc_driver::{Callbacks, Compilation};
use rustc_hir::def::DefKind;
use rustc_hir::def_id::{DefId, LocalDefId};
use rustc_middle::ty::{self, TyCtxt};
use rustc_span::Span;

use json::J;

pub struct Ctx<'tcx> {
    pub tcx: TyCtxt<'tcx>,
    pub out: Vec<String>,
}

/// crate-qualified def path, e.g. `oxidd_core::util::{impl#3}::drop`
pub fn dp(tcx: TyCtxt<'_>, did: DefId) -> String {
    let krate = tcx.crate_name(did.krate);
    format!("{}{}", krate, tcx.def_path(did).to_string_no_crate_verbose())
}

/// human-readable, fully qualified name
pub fn pretty(tcx: TyCtxt<'_>, did: DefId) -> String {
    ty::print::with_no_trimmed_paths!(ty::print::with_forced_impl_filename_line!(
        tcx.def_path_str(did)
    ))
}

thread_local! {
    static CRATE_NAME: std::cell::RefCell<String> = std::cell::RefCell::new(String::new());
}

/// make paths of the local crate crate-qualified like those of other crates
pub fn qualify(s: String) -> String {
    if !s.contains("crate::") {
        return s;
    }
    CRATE_NAME.with(|c| s.replace("crate::", &format!("{}::", c.borrow())))
}

pub fn pretty_plain(tcx: TyCtxt<'_>, did: DefId) -> String {
    qualify(ty::print::with_crate_prefix!(ty::print::with_no_trimmed_paths!(tcx.def_path_str(did))))
}

pub fn tystr<'tcx>(t: ty::Ty<'tcx>) -> String {
    qualify(ty::print::with_crate_prefix!(ty::print::with_no_trimmed_paths!(format!("{}", t))))
}

pub fn display_q<T: std::fmt::Display>(t: T) -> String {
    qualify(ty::print::with_crate_prefix!(ty::print::with_no_trimmed_paths!(format!("{}", t))))
}

pub fn loc(tcx: TyCtxt<'_>, span: Span) -> (String, usize) {
    let sm = tcx.sess.source_map();
    let span = if span.from_expansion() { span.source_callsite() } else { span };
    let lo = sm.lookup_char_pos(span.lo());
    let name = format!("{}", lo.file.name.prefer_local_unconditionally());
    (name, lo.line)
}

pub fn generic_args<'tcx>(tcx: TyCtxt<'tcx>, args: ty::GenericArgsRef<'tcx>) -> J {
    let mut v = Vec::new();
    for a in args.iter() {
        match a.kind() {
            ty::GenericArgKind::Lifetime(_) => {}
            ty::GenericArgKind::Type(t) => v.push(J::s(tystr(t))),
            ty::GenericArgKind::Const(c) => {
                let mut o = vec![("c", J::s(display_q(c)))];
                if let ty::ConstKind::Value(val) = c.kind() {
                    if let Some(si) = val.try_to_leaf() {
                        o.push(("int", J::s(format!("{}", si.to_bits_unchecked()))));
                    }
                }
                let _ = tcx;
                v.push(J::O(o));
            }
        }
    }
    J::A(v)
}

fn fn_record<'tcx>(cx: &mut Ctx<'tcx>, ldid: LocalDefId) {
    let tcx = cx.tcx;
    let did = ldid.to_def_id();
    let kind = tcx.def_kind(did);
    let span = tcx.def_span(did);
    let (file, line) = loc(tcx, span);
    let mut o: Vec<(&'static str, J)> = vec![
        ("k", J::s("fn")),
        ("id", J::s(dp(tcx, did))),
        ("name", J::s(pretty_plain(tcx, did))),
        ("file", J::s(file)),
        ("line", J::N(line as i128)),
        ("kind", J::s(format!("{:?}", kind))),
        ("exp", J::B(span.from_expansion())),
    ];
    if matches!(kind, DefKind::Fn | DefKind::AssocFn) {
        let sig = tcx.fn_sig(did).instantiate_identity().skip_norm_wip();
        let sig = sig.skip_binder();
        o.push(("unsafe", J::B(sig.safety().is_unsafe())));
        o.push(("abi", J::s(format!("{:?}", sig.abi()))));
        o.push((
            "inputs",
            J::A(sig.inputs().iter().map(|t| J::s(tystr(*t))).collect()),
        ));
        o.push(("output", J::s(tystr(sig.output()))));
        o.push(("vis", J::s(format!("{:?}", tcx.visibility(did)))));
        let attrs = tcx.codegen_fn_attrs(did);
        o.push((
            "no_mangle",
            J::B(attrs.flags.contains(rustc_middle::middle::codegen_fn_attrs::CodegenFnAttrFlags::NO_MANGLE)),
        ));
        if let Some(sym) = attrs.symbol_name {
            o.push(("export_name", J::s(sym.to_string())));
        }
    }
    // parent (impl / trait)
    let parent = tcx.parent(did);
    match tcx.def_kind(parent) {
        DefKind::Impl { of_trait } => {
            let self_ty = tcx.type_of(parent).instantiate_identity().skip_norm_wip();
            let mut p = vec![("id", J::s(dp(tcx, parent))), ("self", J::s(tystr(self_ty)))];
            if of_trait {
                let tr = tcx.impl_trait_ref(parent).instantiate_identity().skip_norm_wip();
                p.push(("trait", J::s(pretty_plain(tcx, tr.def_id))));
                p.push(("trait_args", generic_args(tcx, tr.args)));
                if let Some(ti) = tcx.opt_associated_item(did).and_then(|a| a.trait_item_def_id()) {
                    p.push(("trait_item", J::s(pretty_plain(tcx, ti))));
                }
            }
            o.push(("impl", J::O(p)));
        }
        DefKind::Trait => {
            o.push(("in_trait", J::s(pretty_plain(tcx, parent))));
        }
        _ => {}
    }
    // generics & predicates
    let generics = tcx.generics_of(did);
    let mut gp = Vec::new();
    let mut g = Some(generics);
    while let Some(gg) = g {
        for p in &gg.own_params {
            let k = match p.kind {
                ty::GenericParamDefKind::Lifetime => continue,
                ty::GenericParamDefKind::Type { .. } => "type",
                ty::GenericParamDefKind::Const { .. } => "const",
            };
            gp.push(J::O(vec![("n", J::s(p.name.to_string())), ("k", J::s(k))]));
        }
        g = gg.parent.map(|p| tcx.generics_of(p));
    }
    o.push(("generics", J::A(gp)));
    if matches!(kind, DefKind::Fn | DefKind::AssocFn) {
        let preds = tcx.predicates_of(did).instantiate_identity(tcx);
        let mut pv = Vec::new();
        for (p, _) in preds {
            let p = p.skip_norm_wip();
            pv.push(J::s(display_q(p)));
        }
        o.push(("preds", J::A(pv)));
    }
    cx.out.push(J::O(o).to_string());
}

fn adt_records<'tcx>(cx: &mut Ctx<'tcx>) {
    let tcx = cx.tcx;
    for id in tcx.hir_free_items() {
        let did = id.owner_id.to_def_id();
        let kind = tcx.def_kind(did);
        match kind {
            DefKind::Struct | DefKind::Enum | DefKind::Union => {
                let adt = tcx.adt_def(did);
                let mut variants = Vec::new();
                for (vi, v) in adt.variants().iter_enumerated() {
                    let discr = if adt.is_enum() {
                        format!("{}", adt.discriminant_for_variant(tcx, vi).val)
                    } else {
                        "0".to_string()
                    };
                    let fields: Vec<J> = v
                        .fields
                        .iter()
                        .map(|f| {
                            J::O(vec![
                                ("n", J::s(f.name.to_string())),
                                (
                                    "ty",
                                    J::s(tystr(tcx.type_of(f.did).instantiate_identity().skip_norm_wip())),
                                ),
                            ])
                        })
                        .collect();
                    variants.push(J::O(vec![
                        ("n", J::s(v.name.to_string())),
                        ("discr", J::s(discr)),
                        ("fields", J::A(fields)),
                    ]));
                }
                let (file, line) = loc(tcx, tcx.def_span(did));
                cx.out.push(
                    J::O(vec![
                        ("k", J::s("adt")),
                        ("id", J::s(dp(tcx, did))),
                        ("name", J::s(pretty_plain(tcx, did))),
                        ("kind", J::s(format!("{:?}", kind))),
                        ("file", J::s(file)),
                        ("line", J::N(line as i128)),
                        ("has_drop", J::B(adt.destructor(tcx).is_some())),
                        ("repr", J::s(format!("{:?}", adt.repr().int))),
                        ("variants", J::A(variants)),
                    ])
                    .to_string(),
                );
            }
            DefKind::Impl { of_trait } => {
                let self_ty = tcx.type_of(did).instantiate_identity().skip_norm_wip();
                let span = tcx.def_span(did);
                let (file, line) = loc(tcx, span);
                let mut o = vec![
                    ("k", J::s("impl")),
                    ("id", J::s(dp(tcx, did))),
                    ("self", J::s(tystr(self_ty))),
                    ("file", J::s(file)),
                    ("line", J::N(line as i128)),
                    ("exp", J::B(span.from_expansion())),
                ];
                if let ty::Adt(ad, _) = self_ty.kind() {
                    o.push(("self_adt", J::s(pretty_plain(tcx, ad.did()))));
                }
                if of_trait {
                    let tr = tcx.impl_trait_ref(did).instantiate_identity().skip_norm_wip();
                    o.push(("trait", J::s(pretty_plain(tcx, tr.def_id))));
                    o.push(("trait_args", generic_args(tcx, tr.args)));
                    let header = tcx.impl_trait_header(did);
                    o.push(("unsafe", J::B(header.safety.is_unsafe())));
                    o.push((
                        "negative",
                        J::B(matches!(header.polarity, ty::ImplPolarity::Negative)),
                    ));
                }
                let preds = tcx.predicates_of(did).instantiate_identity(tcx);
                let mut pv = Vec::new();
                for (p, _) in preds {
                    let p = p.skip_norm_wip();
                    pv.push(J::s(display_q(p)));
                }
                o.push(("preds", J::A(pv)));
                let items: Vec<J> = tcx
                    .associated_items(did)
                    .in_definition_order()
                    .map(|a| {
                        let mut io = vec![
                            ("id", J::s(dp(tcx, a.def_id))),
                            ("n", J::s(a.opt_name().map(|s| s.to_string()).unwrap_or_default())),
                            ("kind", J::s(format!("{:?}", a.tag()))),
                        ];
                        if let Some(ti) = a.trait_item_def_id() {
                            io.push(("trait_item", J::s(pretty_plain(tcx, ti))));
                        }
                        J::O(io)
                    })
                    .collect();
                o.push(("items", J::A(items)));
                cx.out.push(J::O(o).to_string());
            }
            DefKind::Trait => {
                let items: Vec<J> = tcx
                    .associated_items(did)
                    .in_definition_order()
                    .map(|a| {
                        J::O(vec![
                            ("id", J::s(dp(tcx, a.def_id))),
                            ("n", J::s(a.opt_name().map(|s| s.to_string()).unwrap_or_default())),
                            ("kind", J::s(format!("{:?}", a.tag()))),
                            ("has_default", J::B(a.defaultness(tcx).has_value())),
                        ])
                    })
                    .collect();
                cx.out.push(
                    J::O(vec![
                        ("k", J::s("trait")),
                        ("id", J::s(dp(tcx, did))),
                        ("name", J::s(pretty_plain(tcx, did))),
                        ("items", J::A(items)),
                    ])
                    .to_string(),
                );
            }
            _ => {}
        }
    }
}

fn dump(tcx: TyCtxt<'_>) {
    let Ok(outdir) = std::env::var("OXFACTS_OUT") else { return };
    let crate_name = tcx.crate_name(rustc_hir::def_id::LOCAL_CRATE).to_string();
    CRATE_NAME.with(|c| *c.borrow_mut() = crate_name.clone());
    let mut cx = Ctx { tcx, out: Vec::new() };
    let t0 = std::time::Instant::now();
    let no_hir = std::env::var("OXFACTS_NO_HIR").is_ok();

    adt_records(&mut cx);
    hirdump::dump_sigs(&mut cx);
    if std::env::var("OXFACTS_NO_HIR").is_err() {
        hirdump::dump_consts(&mut cx);
    }
    let mut tyc = tyclass::TyClass::new(tcx);
    let mut nbodies = 0usize;
    for ldid in tcx.hir_body_owners() {
        let kind = tcx.def_kind(ldid);
        if !matches!(kind, DefKind::Fn | DefKind::AssocFn | DefKind::Closure) {
            continue;
        }
        // skip synthetic / coroutine closures without MIR availability problems
        if kind == DefKind::Closure && tcx.is_coroutine(ldid.to_def_id()) {
            continue;
        }
        nbodies += 1;
        fn_record(&mut cx, ldid);
        mirdump::dump_body(&mut cx, &mut tyc, ldid);
        if !no_hir && kind != DefKind::Closure {
            hirdump::dump_fn(&mut cx, ldid);
        }
    }
    let sid = tcx.stable_crate_id(rustc_hir::def_id::LOCAL_CRATE);
    let crate_types = format!("{:?}", tcx.crate_types());
    let meta = J::O(vec![
        ("k", J::s("crate")),
        ("name", J::s(crate_name.clone())),
        ("bodies", J::N(nbodies as i128)),
        ("types", J::s(crate_types)),
        ("cfg_test", J::B(tcx.sess.is_test_crate())),
        ("ms", J::N(t0.elapsed().as_millis() as i128)),
    ]);
    let mut text = String::new();
    text.push_str(&meta.to_string());
    text.push('\n');
    for l in &cx.out {
        text.push_str(l);
        text.push('\n');
    }
    let path = format!("{}/{}-{:x}.jsonl", outdir, crate_name, sid.as_u64());
    // one write per process so that parallel rustc instances cannot interleave
    let mut f = std::fs::File::create(&path).expect("cannot create fact file");
    f.write_all(text.as_bytes()).expect("cannot write fact file");
}

struct Cb;
impl Callbacks for Cb {
    fn after_analysis<'tcx>(
        &mut self,
        _compiler: &rustc_interface::interface::Compiler,
        tcx: TyCtxt<'tcx>,
    ) -> Compilation {
        dump(tcx);
        Compilation::Continue
    }
}

fn main() {
    let mut args: Vec<String> = std::env::args().collect();
    // RUSTC_WORKSPACE_WRAPPER protocol: argv[1] is the path of the real rustc
    if args.len() > 1 && (args[1].ends_with("rustc") || args[1].contains("/rustc")) {
        args.remove(1);
    }
    rustc_driver::run_compiler(&args, &mut Cb);
}
