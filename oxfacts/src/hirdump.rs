//! JSON expression trees from HIR + typeck results (paths and method calls
//! resolved). Used by the table rules (finite case tables written as match
//! arms), the wrapper-agreement rules and the literal/key-table rules.
use rustc_ast::ast::LitKind;
use rustc_hir as hir;
use rustc_hir::def::{CtorOf, DefKind, Res};
use rustc_hir::def_id::LocalDefId;
use rustc_hir::{Expr, ExprKind, Pat, PatExprKind, PatKind, QPath, StmtKind};
use rustc_middle::ty::{self, TyCtxt, TypeckResults};

use crate::json::J;
use crate::{dp, generic_args, loc, pretty_plain, tystr, Ctx};

struct H<'a, 'tcx> {
    tcx: TyCtxt<'tcx>,
    tr: &'a TypeckResults<'tcx>,
}

fn lit_json(l: &hir::Lit, negated: bool) -> J {
    let (t, v) = match &l.node {
        LitKind::Str(s, _) => ("str", s.to_string()),
        LitKind::ByteStr(b, _) => ("bstr", String::from_utf8_lossy(b.as_byte_str()).to_string()),
        LitKind::CStr(b, _) => ("cstr", String::from_utf8_lossy(b.as_byte_str()).to_string()),
        LitKind::Byte(b) => ("byte", format!("{}", b)),
        LitKind::Char(c) => ("char", format!("{}", *c as u32)),
        LitKind::Int(n, _) => ("int", format!("{}{}", if negated { "-" } else { "" }, n.get())),
        LitKind::Float(s, _) => ("float", format!("{}{}", if negated { "-" } else { "" }, s)),
        LitKind::Bool(b) => ("bool", format!("{}", b)),
        LitKind::Err(_) => ("err", String::new()),
    };
    J::O(vec![("k", J::s("lit")), ("t", J::s(t)), ("v", J::s(v))])
}

impl<'a, 'tcx> H<'a, 'tcx> {
    fn res(&self, res: Res, hir_id: hir::HirId) -> Vec<(&'static str, J)> {
        let tcx = self.tcx;
        let mut o = Vec::new();
        match res {
            Res::Local(id) => {
                o.push(("res", J::s("local")));
                o.push(("n", J::s(tcx.hir_name(id).to_string())));
                o.push(("lid", J::N(id.local_id.as_usize() as i128)));
            }
            Res::Def(kind, did) => {
                match kind {
                    DefKind::Ctor(of, _) => {
                        o.push(("res", J::s("ctor")));
                        let parent = tcx.parent(did);
                        o.push(("n", J::s(pretty_plain(tcx, parent))));
                        o.push(("did", J::s(dp(tcx, parent))));
                        o.push(("of", J::s(match of { CtorOf::Struct => "struct", CtorOf::Variant => "variant" })));
                    }
                    _ => {
                        o.push(("res", J::s("def")));
                        o.push(("dk", J::s(format!("{:?}", kind))));
                        o.push(("n", J::s(pretty_plain(tcx, did))));
                        o.push(("did", J::s(dp(tcx, did))));
                        if matches!(kind, DefKind::AssocFn | DefKind::AssocConst { .. }) {
                            if let Some(t) = tcx.trait_of_assoc(did) {
                                o.push(("trait", J::s(pretty_plain(tcx, t))));
                            }
                            o.push(("item", J::s(tcx.item_name(did).to_string())));
                        }
                    }
                }
                if let Some(args) = self.tr.node_args_opt(hir_id) {
                    if !args.is_empty() {
                        o.push(("ga", generic_args(tcx, args)));
                    }
                }
            }
            Res::SelfCtor(_) => o.push(("res", J::s("selfctor"))),
            Res::SelfTyAlias { .. } | Res::SelfTyParam { .. } => o.push(("res", J::s("selfty"))),
            Res::PrimTy(p) => {
                o.push(("res", J::s("prim")));
                o.push(("n", J::s(p.name_str())));
            }
            _ => o.push(("res", J::s("other"))),
        }
        o
    }

    fn qpath(&self, qp: &QPath<'tcx>, hir_id: hir::HirId) -> J {
        let res = self.tr.qpath_res(qp, hir_id);
        let mut o = vec![("k", J::s("path"))];
        o.extend(self.res(res, hir_id));
        if let QPath::TypeRelative(_, seg) = qp {
            o.push(("seg", J::s(seg.ident.to_string())));
        }
        J::O(o)
    }

    fn pat(&self, p: &Pat<'tcx>) -> J {
        match &p.kind {
            PatKind::Wild | PatKind::Missing | PatKind::Never => J::O(vec![("k", J::s("wild"))]),
            PatKind::Binding(mode, id, ident, sub) => {
                let mut o = vec![
                    ("k", J::s("bind")),
                    ("n", J::s(ident.to_string())),
                    ("lid", J::N(id.local_id.as_usize() as i128)),
                    ("by_ref", J::B(matches!(mode.0, hir::ByRef::Yes(..)))),
                ];
                if let Some(s) = sub {
                    o.push(("sub", self.pat(s)));
                }
                J::O(o)
            }
            PatKind::Struct(qp, fields, _) => J::O(vec![
                ("k", J::s("struct")),
                ("p", self.qpath(qp, p.hir_id)),
                (
                    "f",
                    J::A(fields.iter().map(|f| J::A(vec![J::s(f.ident.to_string()), self.pat(f.pat)])).collect()),
                ),
            ]),
            PatKind::TupleStruct(qp, pats, dd) => J::O(vec![
                ("k", J::s("ts")),
                ("p", self.qpath(qp, p.hir_id)),
                ("a", J::A(pats.iter().map(|x| self.pat(x)).collect())),
                ("dd", dd.as_opt_usize().map(|n| J::N(n as i128)).unwrap_or(J::Null)),
            ]),
            PatKind::Or(pats) => J::O(vec![("k", J::s("or")), ("a", J::A(pats.iter().map(|x| self.pat(x)).collect()))]),
            PatKind::Tuple(pats, dd) => J::O(vec![
                ("k", J::s("tup")),
                ("a", J::A(pats.iter().map(|x| self.pat(x)).collect())),
                ("dd", dd.as_opt_usize().map(|n| J::N(n as i128)).unwrap_or(J::Null)),
            ]),
            PatKind::Box(x) | PatKind::Deref(x) => self.pat(x),
            PatKind::Ref(x, _, _) => J::O(vec![("k", J::s("ref")), ("p", self.pat(x))]),
            PatKind::Expr(e) => self.pat_expr(e),
            PatKind::Guard(x, g) => J::O(vec![("k", J::s("guard")), ("p", self.pat(x)), ("g", self.expr(g))]),
            PatKind::Range(lo, hi, end) => J::O(vec![
                ("k", J::s("range")),
                ("lo", lo.map(|e| self.pat_expr(e)).unwrap_or(J::Null)),
                ("hi", hi.map(|e| self.pat_expr(e)).unwrap_or(J::Null)),
                ("incl", J::B(matches!(end, hir::RangeEnd::Included))),
            ]),
            PatKind::Slice(a, m, b) => J::O(vec![
                ("k", J::s("slice")),
                ("a", J::A(a.iter().map(|x| self.pat(x)).collect())),
                ("m", m.map(|x| self.pat(x)).unwrap_or(J::Null)),
                ("b", J::A(b.iter().map(|x| self.pat(x)).collect())),
            ]),
            PatKind::Err(_) => J::O(vec![("k", J::s("err"))]),
        }
    }

    fn pat_expr(&self, e: &hir::PatExpr<'tcx>) -> J {
        match &e.kind {
            PatExprKind::Lit { lit, negated } => lit_json(lit, *negated),
            PatExprKind::Path(qp) => self.qpath(qp, e.hir_id),
        }
    }

    fn block(&self, b: &hir::Block<'tcx>) -> J {
        let mut stmts = Vec::new();
        for s in b.stmts {
            match &s.kind {
                StmtKind::Let(l) => {
                    let mut o = vec![("k", J::s("slet")), ("p", self.pat(l.pat))];
                    if let Some(t) = l.ty {
                        o.push(("hty", J::s(hty(self.tcx, t))));
                    }
                    if let Some(i) = l.init {
                        o.push(("e", self.expr(i)));
                    }
                    if let Some(els) = l.els {
                        o.push(("else", self.block(els)));
                    }
                    stmts.push(J::O(o));
                }
                StmtKind::Item(_) => {}
                StmtKind::Expr(e) => stmts.push(J::O(vec![("k", J::s("expr")), ("e", self.expr(e))])),
                StmtKind::Semi(e) => stmts.push(J::O(vec![("k", J::s("semi")), ("e", self.expr(e))])),
            }
        }
        let mut o = vec![("k", J::s("block")), ("s", J::A(stmts))];
        if let Some(e) = b.expr {
            o.push(("e", self.expr(e)));
        }
        if !matches!(b.rules, hir::BlockCheckMode::DefaultBlock) {
            o.push(("unsafe", J::B(true)));
        }
        J::O(o)
    }

    fn expr(&self, e: &Expr<'tcx>) -> J {
        let tcx = self.tcx;
        let mut o: Vec<(&'static str, J)> = match &e.kind {
            ExprKind::ConstBlock(cb) => {
                // inline const: its body has its own typeck results
                let body = tcx.hir_body(cb.body);
                let tr2 = tcx.typeck_body(cb.body);
                let h2 = H { tcx, tr: tr2 };
                vec![("k", J::s("constblock")), ("e", h2.expr(body.value))]
            }
            ExprKind::Array(xs) => vec![("k", J::s("array")), ("a", J::A(xs.iter().map(|x| self.expr(x)).collect()))],
            ExprKind::Call(f, args) => {
                let mut o = vec![
                    ("k", J::s("call")),
                    ("f", self.expr(f)),
                    ("a", J::A(args.iter().map(|x| self.expr(x)).collect())),
                ];
                // overloaded call via Fn* traits or direct
                if let Some(did) = self.tr.type_dependent_def_id(e.hir_id) {
                    o.push(("m", J::s(pretty_plain(tcx, did))));
                }
                o
            }
            ExprKind::MethodCall(seg, recv, args, _) => {
                let mut o = vec![
                    ("k", J::s("mcall")),
                    ("name", J::s(seg.ident.to_string())),
                    ("r", self.expr(recv)),
                    ("a", J::A(args.iter().map(|x| self.expr(x)).collect())),
                ];
                if let Some(did) = self.tr.type_dependent_def_id(e.hir_id) {
                    o.push(("m", J::s(pretty_plain(tcx, did))));
                    o.push(("did", J::s(dp(tcx, did))));
                    if let Some(t) = tcx.trait_of_assoc(did) {
                        o.push(("trait", J::s(pretty_plain(tcx, t))));
                    }
                    if let Some(args) = self.tr.node_args_opt(e.hir_id) {
                        if !args.is_empty() {
                            o.push(("ga", generic_args(tcx, args)));
                        }
                    }
                }
                o.push(("rty", J::s(tystr(self.tr.expr_ty_adjusted(recv)))));
                o
            }
            ExprKind::Use(x, _) => vec![("k", J::s("use")), ("e", self.expr(x))],
            ExprKind::Tup(xs) => vec![("k", J::s("tup")), ("a", J::A(xs.iter().map(|x| self.expr(x)).collect()))],
            ExprKind::Binary(op, l, r) => {
                let mut o = vec![
                    ("k", J::s("bin")),
                    ("o", J::s(op.node.as_str())),
                    ("l", self.expr(l)),
                    ("r", self.expr(r)),
                ];
                if let Some(did) = self.tr.type_dependent_def_id(e.hir_id) {
                    o.push(("m", J::s(pretty_plain(tcx, did))));
                }
                o
            }
            ExprKind::Unary(op, x) => vec![
                ("k", J::s("un")),
                ("o", J::s(match op { hir::UnOp::Deref => "*", hir::UnOp::Not => "!", hir::UnOp::Neg => "-" })),
                ("e", self.expr(x)),
            ],
            ExprKind::Lit(l) => return lit_json(l, false),
            ExprKind::Cast(x, _) => vec![
                ("k", J::s("cast")),
                ("e", self.expr(x)),
                ("ty", J::s(tystr(self.tr.expr_ty(e)))),
            ],
            ExprKind::Type(x, _) => return self.expr(x),
            ExprKind::DropTemps(x) => return self.expr(x),
            ExprKind::Let(l) => vec![("k", J::s("let")), ("p", self.pat(l.pat)), ("e", self.expr(l.init))],
            ExprKind::If(c, t, els) => {
                let mut o = vec![("k", J::s("if")), ("c", self.expr(c)), ("t", self.expr(t))];
                if let Some(x) = els {
                    o.push(("e", self.expr(x)));
                }
                o
            }
            ExprKind::Loop(b, _, src, _) => vec![
                ("k", J::s("loop")),
                ("src", J::s(format!("{:?}", src))),
                ("b", self.block(b)),
            ],
            ExprKind::Match(scrut, arms, src) => {
                let arms_j: Vec<J> = arms
                    .iter()
                    .map(|a| {
                        let mut ao = vec![("p", self.pat(a.pat))];
                        if let Some(g) = a.guard {
                            ao.push(("g", self.expr(g)));
                        }
                        ao.push(("b", self.expr(a.body)));
                        let (_, ln) = loc(tcx, a.span);
                        ao.push(("ln", J::N(ln as i128)));
                        J::O(ao)
                    })
                    .collect();
                vec![
                    ("k", J::s("match")),
                    ("src", J::s(format!("{:?}", src).split('(').next().unwrap_or("").to_string())),
                    ("e", self.expr(scrut)),
                    ("arms", J::A(arms_j)),
                ]
            }
            ExprKind::Closure(c) => {
                let body = tcx.hir_body(c.body);
                // closures have their own typeck results only if they are not
                // nested in the same owner; nested closures share the tables
                vec![
                    ("k", J::s("closure")),
                    ("did", J::s(dp(tcx, c.def_id.to_def_id()))),
                    ("params", J::A(body.params.iter().map(|p| self.pat(p.pat)).collect())),
                    ("body", self.expr(body.value)),
                ]
            }
            ExprKind::Block(b, label) => {
                let J::O(mut o) = self.block_with_ln(b, e) else { unreachable!() };
                if label.is_some() {
                    // target of `break 'label value`
                    o.push(("lbl", J::N(b.hir_id.local_id.as_usize() as i128)));
                }
                return J::O(o);
            }
            ExprKind::Assign(l, r, _) => vec![("k", J::s("assign")), ("l", self.expr(l)), ("r", self.expr(r))],
            ExprKind::AssignOp(op, l, r) => vec![
                ("k", J::s("assignop")),
                ("o", J::s(op.node.as_str())),
                ("l", self.expr(l)),
                ("r", self.expr(r)),
            ],
            ExprKind::Field(x, id) => vec![
                ("k", J::s("field")),
                ("e", self.expr(x)),
                ("n", J::s(id.to_string())),
                ("bty", J::s(tystr(self.tr.expr_ty_adjusted(x)))),
            ],
            ExprKind::Index(x, i, _) => vec![("k", J::s("index")), ("e", self.expr(x)), ("i", self.expr(i))],
            ExprKind::Path(qp) => {
                let J::O(o) = self.qpath(qp, e.hir_id) else { unreachable!() };
                o
            }
            ExprKind::AddrOf(_, m, x) => vec![
                ("k", J::s("ref")),
                ("m", J::B(matches!(m, hir::Mutability::Mut))),
                ("e", self.expr(x)),
            ],
            ExprKind::Break(dest, x) => {
                let mut o = vec![("k", J::s("break"))];
                if let Ok(t) = dest.target_id {
                    o.push(("to", J::N(t.local_id.as_usize() as i128)));
                }
                if let Some(x) = x {
                    o.push(("e", self.expr(x)));
                }
                o
            }
            ExprKind::Continue(dest) => {
                let mut o = vec![("k", J::s("continue"))];
                if let Ok(t) = dest.target_id {
                    o.push(("to", J::N(t.local_id.as_usize() as i128)));
                }
                o
            }
            ExprKind::Ret(x) => {
                let mut o = vec![("k", J::s("ret"))];
                if let Some(x) = x {
                    o.push(("e", self.expr(x)));
                }
                o
            }
            ExprKind::Become(x) => vec![("k", J::s("become")), ("e", self.expr(x))],
            ExprKind::Struct(qp, fields, tail) => {
                let mut o = vec![
                    ("k", J::s("struct")),
                    ("p", self.qpath(qp, e.hir_id)),
                    (
                        "f",
                        J::A(fields.iter().map(|f| J::A(vec![J::s(f.ident.to_string()), self.expr(f.expr)])).collect()),
                    ),
                ];
                if let hir::StructTailExpr::Base(b) = tail {
                    o.push(("base", self.expr(b)));
                }
                o
            }
            ExprKind::Repeat(x, _) => vec![("k", J::s("repeat")), ("e", self.expr(x))],
            ExprKind::Yield(x, _) => vec![("k", J::s("yield")), ("e", self.expr(x))],
            ExprKind::InlineAsm(_) => vec![("k", J::s("asm"))],
            ExprKind::OffsetOf(..) => vec![("k", J::s("offsetof"))],
            ExprKind::UnsafeBinderCast(_, x, _) => return self.expr(x),
            ExprKind::Err(_) => vec![("k", J::s("err"))],
        };
        let (_, ln) = loc(tcx, e.span);
        o.push(("ln", J::N(ln as i128)));
        if e.span.from_expansion() {
            o.push(("exp", J::B(true)));
        }
        J::O(o)
    }

    fn block_with_ln(&self, b: &hir::Block<'tcx>, e: &Expr<'tcx>) -> J {
        let J::O(mut o) = self.block(b) else { unreachable!() };
        let (_, ln) = loc(self.tcx, e.span);
        o.push(("ln", J::N(ln as i128)));
        J::O(o)
    }
}

/// declared (unexpanded) type as written: type aliases such as `VarNo`/`LevelNo` stay visible
pub fn hty<'tcx>(tcx: TyCtxt<'tcx>, t: &hir::Ty<'tcx>) -> String {
    use hir::TyKind;
    match &t.kind {
        TyKind::Slice(x) => format!("[{}]", hty(tcx, x)),
        TyKind::Array(x, _) => format!("[{}; _]", hty(tcx, x)),
        TyKind::Ptr(m) => format!("*{}", hty(tcx, m.ty)),
        TyKind::Ref(_, m) => format!("&{}", hty(tcx, m.ty)),
        TyKind::Tup(xs) => format!("({})", xs.iter().map(|x| hty(tcx, x)).collect::<Vec<_>>().join(", ")),
        TyKind::Path(qp) => match qp {
            QPath::Resolved(_, path) => {
                let base = match path.res {
                    Res::Def(_, did) => pretty_plain(tcx, did),
                    Res::PrimTy(p) => p.name_str().to_string(),
                    Res::SelfTyAlias { .. } | Res::SelfTyParam { .. } => "Self".to_string(),
                    _ => "_".to_string(),
                };
                let mut args = Vec::new();
                if let Some(seg) = path.segments.last() {
                    if let Some(ga) = seg.args {
                        for a in ga.args {
                            if let hir::GenericArg::Type(ty) = a {
                                args.push(hty(tcx, ty.as_unambig_ty()));
                            }
                        }
                    }
                }
                if args.is_empty() { base } else { format!("{}<{}>", base, args.join(", ")) }
            }
            QPath::TypeRelative(ty, seg) => format!("<{}>::{}", hty(tcx, ty), seg.ident),
        },
        TyKind::Never => "!".to_string(),
        TyKind::OpaqueDef(op) => {
            // `impl Trait<Item = T>`: keep the associated-type bindings visible
            let mut parts = Vec::new();
            for b in op.bounds {
                if let hir::GenericBound::Trait(ptr) = b {
                    let path = ptr.trait_ref.path;
                    let base = match path.res {
                        Res::Def(_, did) => pretty_plain(tcx, did),
                        _ => "_".to_string(),
                    };
                    let mut args = Vec::new();
                    if let Some(seg) = path.segments.last() {
                        if let Some(ga) = seg.args {
                            for a in ga.args {
                                if let hir::GenericArg::Type(ty) = a {
                                    args.push(hty(tcx, ty.as_unambig_ty()));
                                }
                            }
                            for c in ga.constraints {
                                if let Some(ty) = c.ty() {
                                    args.push(format!("{} = {}", c.ident, hty(tcx, ty)));
                                }
                            }
                        }
                    }
                    parts.push(if args.is_empty() { base } else { format!("{}<{}>", base, args.join(", ")) });
                }
            }
            format!("impl {}", parts.join(" + "))
        }
        _ => "_".to_string(),
    }
}

/// declared signatures of all fn-like items (also trait methods without a body)
pub fn dump_sigs<'tcx>(cx: &mut Ctx<'tcx>) {
    let tcx = cx.tcx;
    for ldid in tcx.hir_crate_items(()).definitions() {
        if !matches!(tcx.def_kind(ldid), DefKind::Fn | DefKind::AssocFn) {
            continue;
        }
        let node = tcx.hir_node_by_def_id(ldid);
        let Some(decl) = node.fn_decl() else { continue };
        let ptys: Vec<J> = decl.inputs.iter().map(|t| J::s(hty(tcx, t))).collect();
        let rty = match decl.output {
            hir::FnRetTy::Return(t) => hty(tcx, t),
            hir::FnRetTy::DefaultReturn(_) => "()".to_string(),
        };
        cx.out.push(
            J::O(vec![
                ("k", J::s("sig")),
                ("id", J::s(dp(tcx, ldid.to_def_id()))),
                ("name", J::s(pretty_plain(tcx, ldid.to_def_id()))),
                ("ptys", J::A(ptys)),
                ("rty", J::s(rty)),
            ])
            .to_string(),
        );
    }
}

/// associated / free constants with their initialiser expression
pub fn dump_consts<'tcx>(cx: &mut Ctx<'tcx>) {
    let tcx = cx.tcx;
    for ldid in tcx.hir_crate_items(()).definitions() {
        if !matches!(tcx.def_kind(ldid), DefKind::AssocConst { .. } | DefKind::Const { .. }) {
            continue;
        }
        let Some(body) = tcx.hir_maybe_body_owned_by(ldid) else { continue };
        let tr = tcx.typeck(ldid);
        let h = H { tcx, tr };
        let did = ldid.to_def_id();
        let mut o = vec![
            ("k", J::s("const")),
            ("id", J::s(dp(tcx, did))),
            ("name", J::s(pretty_plain(tcx, did))),
            ("body", h.expr(body.value)),
        ];
        let parent = tcx.parent(did);
        if let DefKind::Impl { of_trait } = tcx.def_kind(parent) {
            let self_ty = tcx.type_of(parent).instantiate_identity().skip_norm_wip();
            o.push(("impl_self", J::s(tystr(self_ty))));
            if of_trait {
                let trr = tcx.impl_trait_ref(parent).instantiate_identity().skip_norm_wip();
                o.push(("impl_trait", J::s(pretty_plain(tcx, trr.def_id))));
            }
        }
        cx.out.push(J::O(o).to_string());
    }
}

pub fn dump_fn<'tcx>(cx: &mut Ctx<'tcx>, ldid: LocalDefId) {
    let tcx = cx.tcx;
    let Some(body) = tcx.hir_maybe_body_owned_by(ldid) else { return };
    let tr = tcx.typeck(ldid);
    let h = H { tcx, tr };
    let params: Vec<J> = body.params.iter().map(|p| h.pat(p.pat)).collect();
    let ret_ty = {
        let sig = tcx.fn_sig(ldid.to_def_id()).instantiate_identity().skip_norm_wip();
        tystr(sig.skip_binder().output())
    };
    let _ = ty::List::<ty::GenericArg<'tcx>>::empty();
    cx.out.push(
        J::O(vec![
            ("k", J::s("hir")),
            ("id", J::s(dp(tcx, ldid.to_def_id()))),
            ("params", J::A(params)),
            ("ret", J::s(ret_ty)),
            ("body", h.expr(body.value)),
        ])
        .to_string(),
    );
}
