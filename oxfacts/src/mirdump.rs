//! Structured dump of (drop-elaborated, otherwise unoptimised) MIR bodies.
use rustc_hir::def_id::LocalDefId;
use rustc_middle::mir::{
    self, AggregateKind, BasicBlock, Body, Operand, Place, PlaceElem, Rvalue, StatementKind,
    TerminatorKind, UnwindAction,
};
use rustc_middle::ty::{self, Ty, TyCtxt};

use crate::json::J;
use crate::tyclass::{BodyClass, TyClass};
use crate::{dp, generic_args, loc, pretty_plain, tystr, Ctx};

fn place<'tcx>(tcx: TyCtxt<'tcx>, body: &Body<'tcx>, p: Place<'tcx>) -> J {
    let mut proj = Vec::new();
    let mut pty = mir::PlaceTy::from_ty(body.local_decls[p.local].ty);
    for elem in p.projection.iter() {
        let s = match elem {
            PlaceElem::Deref => "*".to_string(),
            PlaceElem::Field(idx, _) => match pty.ty.kind() {
                ty::Adt(def, _) => {
                    let v = pty.variant_index.unwrap_or(rustc_abi::FIRST_VARIANT);
                    let variant = def.variant(v);
                    let fname = variant.fields[idx].name;
                    if def.is_enum() {
                        format!(".{}@{}::{}", fname, dp(tcx, def.did()), variant.name)
                    } else {
                        format!(".{}@{}", fname, dp(tcx, def.did()))
                    }
                }
                _ => format!(".{}", idx.as_usize()),
            },
            PlaceElem::Index(l) => format!("[_{}]", l.as_usize()),
            PlaceElem::ConstantIndex { offset, from_end, .. } => {
                if from_end {
                    format!("[-{}]", offset)
                } else {
                    format!("[{}]", offset)
                }
            }
            PlaceElem::Subslice { from, to, from_end } => format!("[{}..{}{}]", from, if from_end { "-" } else { "" }, to),
            PlaceElem::Downcast(name, vi) => match name {
                Some(n) => format!("as {}", n),
                None => format!("as #{}", vi.as_usize()),
            },
            PlaceElem::OpaqueCast(_) => "opaque".to_string(),
            PlaceElem::UnwrapUnsafeBinder(_) => "unbind".to_string(),
        };
        proj.push(J::s(s));
        pty = pty.projection_ty(tcx, elem);
    }
    if proj.is_empty() {
        J::N(p.local.as_usize() as i128)
    } else {
        J::O(vec![("l", J::N(p.local.as_usize() as i128)), ("p", J::A(proj))])
    }
}

fn fn_def_json<'tcx>(
    tcx: TyCtxt<'tcx>,
    typing_env: ty::TypingEnv<'tcx>,
    did: rustc_hir::def_id::DefId,
    args: ty::GenericArgsRef<'tcx>,
) -> Vec<(&'static str, J)> {
    let mut o = vec![
        ("def", J::s(pretty_plain(tcx, did))),
        ("did", J::s(dp(tcx, did))),
        ("ga", generic_args(tcx, args)),
    ];
    // try to resolve trait methods to the implementation
    if tcx.trait_of_assoc(did).is_some() {
        let r = std::panic::catch_unwind(std::panic::AssertUnwindSafe(|| {
            ty::Instance::try_resolve(tcx, typing_env, did, args)
        }));
        if let Ok(Ok(Some(inst))) = r {
            let rd = inst.def_id();
            if rd != did {
                o.push(("res", J::s(pretty_plain(tcx, rd))));
                o.push(("rdid", J::s(dp(tcx, rd))));
                o.push(("rga", generic_args(tcx, inst.args)));
            }
        }
        if let Some(tr) = tcx.trait_of_assoc(did) {
            o.push(("trait", J::s(pretty_plain(tcx, tr))));
        }
        o.push(("method", J::s(tcx.item_name(did).to_string())));
    }
    o
}

fn operand<'tcx>(
    tcx: TyCtxt<'tcx>,
    typing_env: ty::TypingEnv<'tcx>,
    body: &Body<'tcx>,
    op: &Operand<'tcx>,
) -> J {
    match op {
        Operand::Copy(p) => J::O(vec![("cp", place(tcx, body, *p))]),
        Operand::Move(p) => J::O(vec![("mv", place(tcx, body, *p))]),
        Operand::Constant(c) => {
            let cty = c.const_.ty();
            let mut o: Vec<(&'static str, J)> = Vec::new();
            match cty.kind() {
                ty::FnDef(did, args) => {
                    o.push(("fn", J::O(fn_def_json(tcx, typing_env, *did, args))));
                }
                _ => {
                    let s = crate::display_q(c.const_);
                    o.push(("c", J::s(s)));
                    o.push(("ty", J::s(tystr(cty))));
                    let r = std::panic::catch_unwind(std::panic::AssertUnwindSafe(|| {
                        c.const_.try_eval_scalar_int(tcx, typing_env)
                    }));
                    if let Ok(Some(si)) = r {
                        o.push(("int", J::s(format!("{}", si.to_bits_unchecked()))));
                    }
                }
            }
            J::O(o)
        }
        Operand::RuntimeChecks(_) => J::O(vec![("c", J::s("runtime_checks"))]),
    }
}

fn rvalue<'tcx>(
    tcx: TyCtxt<'tcx>,
    typing_env: ty::TypingEnv<'tcx>,
    body: &Body<'tcx>,
    rv: &Rvalue<'tcx>,
) -> J {
    let op = |o: &Operand<'tcx>| operand(tcx, typing_env, body, o);
    match rv {
        Rvalue::Use(o, _) => J::O(vec![("k", J::s("use")), ("op", op(o))]),
        Rvalue::Repeat(o, _) => J::O(vec![("k", J::s("repeat")), ("op", op(o))]),
        Rvalue::Ref(_, bk, p) => J::O(vec![
            ("k", J::s("ref")),
            ("m", J::B(matches!(bk, mir::BorrowKind::Mut { .. }))),
            ("p", place(tcx, body, *p)),
        ]),
        Rvalue::RawPtr(k, p) => J::O(vec![
            ("k", J::s("rawptr")),
            ("m", J::B(matches!(k, mir::RawPtrKind::Mut))),
            ("p", place(tcx, body, *p)),
        ]),
        Rvalue::Cast(ck, o, t) => J::O(vec![
            ("k", J::s("cast")),
            ("ck", J::s(format!("{:?}", ck))),
            ("op", op(o)),
            ("ty", J::s(tystr(*t))),
        ]),
        Rvalue::BinaryOp(b, ops) => J::O(vec![
            ("k", J::s("bin")),
            ("o", J::s(format!("{:?}", b))),
            ("a", op(&ops.0)),
            ("b", op(&ops.1)),
        ]),
        Rvalue::UnaryOp(u, o) => J::O(vec![
            ("k", J::s("un")),
            ("o", J::s(format!("{:?}", u))),
            ("a", op(o)),
        ]),
        Rvalue::Discriminant(p) => J::O(vec![("k", J::s("discr")), ("p", place(tcx, body, *p))]),
        Rvalue::Aggregate(ak, ops) => {
            let mut o = vec![("k", J::s("aggr"))];
            match &**ak {
                AggregateKind::Array(_) => o.push(("ak", J::s("array"))),
                AggregateKind::Tuple => o.push(("ak", J::s("tuple"))),
                AggregateKind::Adt(did, vi, _, _, _) => {
                    o.push(("ak", J::s("adt")));
                    let def = tcx.adt_def(*did);
                    o.push(("adt", J::s(dp(tcx, *did))));
                    o.push(("variant", J::s(def.variant(*vi).name.to_string())));
                }
                AggregateKind::Closure(did, _) => {
                    o.push(("ak", J::s("closure")));
                    o.push(("closure", J::s(dp(tcx, *did))));
                }
                AggregateKind::RawPtr(..) => o.push(("ak", J::s("rawptr"))),
                _ => o.push(("ak", J::s("other"))),
            }
            o.push(("ops", J::A(ops.iter().map(|x| op(x)).collect())));
            J::O(o)
        }
        Rvalue::CopyForDeref(p) => J::O(vec![("k", J::s("use")), ("op", J::O(vec![("cp", place(tcx, body, *p))]))]),
        Rvalue::ThreadLocalRef(did) => J::O(vec![("k", J::s("tls")), ("def", J::s(dp(tcx, *did)))]),
        Rvalue::WrapUnsafeBinder(o, _) => J::O(vec![("k", J::s("use")), ("op", op(o))]),
    }
}

fn bbn(b: BasicBlock) -> J {
    J::N(b.as_usize() as i128)
}

fn unwind(u: &UnwindAction) -> J {
    match u {
        UnwindAction::Cleanup(b) => bbn(*b),
        _ => J::Null,
    }
}

pub fn dump_body<'tcx>(cx: &mut Ctx<'tcx>, tyc: &mut TyClass<'tcx>, ldid: LocalDefId) {
    let tcx = cx.tcx;
    let did = ldid.to_def_id();
    if !tcx.is_mir_available(did) {
        return;
    }
    let body: &Body<'tcx> = tcx.optimized_mir(did);
    let typing_env = ty::TypingEnv::post_analysis(tcx, did);
    let mut bc: BodyClass<'_, 'tcx> = tyc.for_body(ldid);

    // locals
    let mut names: Vec<Option<String>> = vec![None; body.local_decls.len()];
    for vdi in &body.var_debug_info {
        if let mir::VarDebugInfoContents::Place(p) = vdi.value {
            if p.projection.is_empty() {
                names[p.local.as_usize()] = Some(vdi.name.to_string());
            }
        }
    }
    let mut locals = Vec::new();
    for (l, decl) in body.local_decls.iter_enumerated() {
        let mut o = vec![("ty", J::s(tystr(decl.ty)))];
        if let Some(n) = &names[l.as_usize()] {
            o.push(("n", J::s(n.clone())));
        }
        let cls = bc.classify(decl.ty);
        if !cls.is_empty() {
            o.push(("cls", cls.to_json()));
        }
        locals.push(J::O(o));
    }

    let mut blocks = Vec::new();
    for (_bb, data) in body.basic_blocks.iter_enumerated() {
        let mut stmts = Vec::new();
        for st in &data.statements {
            match &st.kind {
                StatementKind::Assign(b) => {
                    let (p, rv) = &**b;
                    stmts.push(J::O(vec![
                        ("lhs", place(tcx, body, *p)),
                        ("rv", rvalue(tcx, typing_env, body, rv)),
                    ]));
                }
                StatementKind::SetDiscriminant { place: p, variant_index } => {
                    stmts.push(J::O(vec![
                        ("setdiscr", place(tcx, body, **p)),
                        ("variant", J::N(variant_index.as_usize() as i128)),
                    ]));
                }
                StatementKind::Intrinsic(i) => {
                    stmts.push(J::O(vec![("intrinsic", J::s(format!("{:?}", i)))]));
                }
                _ => {}
            }
        }
        let term = data.terminator();
        let (_, line) = loc(tcx, term.source_info.span);
        let exp = term.source_info.span.from_expansion();
        let t = match &term.kind {
            TerminatorKind::Goto { target } => J::O(vec![("k", J::s("goto")), ("t", bbn(*target))]),
            TerminatorKind::SwitchInt { discr, targets } => {
                let mut ts = Vec::new();
                for (v, b) in targets.iter() {
                    ts.push(J::A(vec![J::s(format!("{}", v)), bbn(b)]));
                }
                J::O(vec![
                    ("k", J::s("switch")),
                    ("d", operand(tcx, typing_env, body, discr)),
                    ("t", J::A(ts)),
                    ("o", bbn(targets.otherwise())),
                ])
            }
            TerminatorKind::UnwindResume => J::O(vec![("k", J::s("resume"))]),
            TerminatorKind::UnwindTerminate(_) => J::O(vec![("k", J::s("terminate"))]),
            TerminatorKind::Return => J::O(vec![("k", J::s("return"))]),
            TerminatorKind::Unreachable => J::O(vec![("k", J::s("unreachable"))]),
            TerminatorKind::Drop { place: p, target, unwind: u, .. } => {
                let pty: Ty<'tcx> = p.ty(body, tcx).ty;
                let cls = bc.classify(pty);
                J::O(vec![
                    ("k", J::s("drop")),
                    ("p", place(tcx, body, *p)),
                    ("ty", J::s(tystr(pty))),
                    ("cls", cls.to_json()),
                    ("t", bbn(*target)),
                    ("u", unwind(u)),
                    ("ln", J::N(line as i128)),
                    ("exp", J::B(exp)),
                ])
            }
            TerminatorKind::Call { func, args, destination, target, unwind: u, fn_span, .. } => {
                let f = match func {
                    Operand::Constant(c) => match c.const_.ty().kind() {
                        ty::FnDef(fd, ga) => J::O(fn_def_json(tcx, typing_env, *fd, ga)),
                        _ => operand(tcx, typing_env, body, func),
                    },
                    _ => operand(tcx, typing_env, body, func),
                };
                let (_, fline) = loc(tcx, *fn_span);
                J::O(vec![
                    ("k", J::s("call")),
                    ("f", f),
                    ("a", J::A(args.iter().map(|a| operand(tcx, typing_env, body, &a.node)).collect())),
                    ("d", place(tcx, body, *destination)),
                    ("t", target.map(bbn).unwrap_or(J::Null)),
                    ("u", unwind(u)),
                    ("ln", J::N(fline as i128)),
                    ("exp", J::B(fn_span.from_expansion())),
                ])
            }
            TerminatorKind::TailCall { .. } => J::O(vec![("k", J::s("tailcall"))]),
            TerminatorKind::Assert { cond, expected, target, unwind: u, msg } => J::O(vec![
                ("k", J::s("assert")),
                ("c", operand(tcx, typing_env, body, cond)),
                ("expected", J::B(*expected)),
                ("msg", J::s(format!("{:?}", msg).chars().take(60).collect::<String>())),
                ("t", bbn(*target)),
                ("u", unwind(u)),
            ]),
            TerminatorKind::Yield { .. } => J::O(vec![("k", J::s("yield"))]),
            TerminatorKind::CoroutineDrop => J::O(vec![("k", J::s("coroutine_drop"))]),
            TerminatorKind::FalseEdge { real_target, .. } => {
                J::O(vec![("k", J::s("goto")), ("t", bbn(*real_target))])
            }
            TerminatorKind::FalseUnwind { real_target, .. } => {
                J::O(vec![("k", J::s("goto")), ("t", bbn(*real_target))])
            }
            TerminatorKind::InlineAsm { targets, .. } => J::O(vec![
                ("k", J::s("asm")),
                ("ts", J::A(targets.iter().map(|b| bbn(*b)).collect())),
            ]),
        };
        blocks.push(J::O(vec![
            ("c", J::B(data.is_cleanup)),
            ("s", J::A(stmts)),
            ("t", t),
        ]));
    }

    cx.out.push(
        J::O(vec![
            ("k", J::s("mir")),
            ("id", J::s(dp(tcx, did))),
            ("argc", J::N(body.arg_count as i128)),
            ("locals", J::A(locals)),
            ("blocks", J::A(blocks)),
        ])
        .to_string(),
    );
}
