//! Structural classification of types for the edge-linearity rule (E-LIN):
//! does dropping a value of this type drop a raw `oxidd_core::Edge` (or an
//! inner node, whose children are raw edges) without going through a manager?
use std::collections::HashMap;

use rustc_hir::def_id::{DefId, LocalDefId, LOCAL_CRATE};
use rustc_infer::infer::{InferCtxt, TyCtxtInferExt};
use rustc_middle::ty::{self, Ty, TyCtxt, TypeVisitableExt};
use rustc_span::DUMMY_SP;
use rustc_trait_selection::infer::InferCtxtExt;

use crate::json::J;
use crate::{dp, tystr};

#[derive(Default, Clone)]
pub struct Cls {
    /// transparent paths to a raw edge / node (dropping the value drops it)
    pub raw: Vec<String>,
    /// local ADTs with a `Drop` impl that (deeply) contain edges
    pub guards: Vec<String>,
}

impl Cls {
    pub fn is_empty(&self) -> bool {
        self.raw.is_empty() && self.guards.is_empty()
    }
    pub fn to_json(&self) -> J {
        if self.is_empty() {
            return J::Null;
        }
        J::O(vec![
            ("raw", J::A(self.raw.iter().map(|s| J::s(s.clone())).collect())),
            ("guards", J::A(self.guards.iter().map(|s| J::s(s.clone())).collect())),
        ])
    }
}

pub struct TyClass<'tcx> {
    tcx: TyCtxt<'tcx>,
    edge_trait: Option<DefId>,
    node_trait: Option<DefId>,
}

pub struct BodyClass<'a, 'tcx> {
    tc: &'a TyClass<'tcx>,
    infcx: InferCtxt<'tcx>,
    param_env: ty::ParamEnv<'tcx>,
    typing_env: ty::TypingEnv<'tcx>,
    cache: HashMap<Ty<'tcx>, Cls>,
}

/// ADTs of these crates are walked field by field (and stop at their `Drop`
/// impls); everything else (std, smallvec, linear_hashtbl, ...) is treated as
/// a container of its type arguments.
fn is_workspace_crate(name: &str) -> bool {
    name.starts_with("oxidd")
}

impl<'tcx> TyClass<'tcx> {
    pub fn new(tcx: TyCtxt<'tcx>) -> Self {
        let mut edge_trait = None;
        let mut node_trait = None;
        let mut crates: Vec<_> = tcx.crates(()).iter().copied().collect();
        crates.push(LOCAL_CRATE);
        for c in crates {
            if tcx.crate_name(c).as_str() != "oxidd_core" {
                continue;
            }
            for &t in tcx.traits(c) {
                match dp(tcx, t).as_str() {
                    "oxidd_core::Edge" => edge_trait = Some(t),
                    "oxidd_core::InnerNode" => node_trait = Some(t),
                    _ => {}
                }
            }
        }
        TyClass { tcx, edge_trait, node_trait }
    }

    pub fn for_body<'a>(&'a self, def: LocalDefId) -> BodyClass<'a, 'tcx> {
        let typing_env = ty::TypingEnv::post_analysis(self.tcx, def);
        let (infcx, param_env) = self.tcx.infer_ctxt().build_with_typing_env(typing_env);
        BodyClass { tc: self, infcx, param_env, typing_env, cache: HashMap::new() }
    }
}

impl<'a, 'tcx> BodyClass<'a, 'tcx> {
    pub fn classify(&mut self, ty: Ty<'tcx>) -> Cls {
        if let Some(c) = self.cache.get(&ty) {
            return c.clone();
        }
        let mut cls = Cls::default();
        let mut seen = Vec::new();
        self.walk(ty, false, 0, &mut String::new(), &mut cls, &mut seen);
        cls.raw.sort();
        cls.raw.dedup();
        cls.guards.sort();
        cls.guards.dedup();
        self.cache.insert(ty, cls.clone());
        cls
    }

    fn implements_edge(&self, ty: Ty<'tcx>) -> bool {
        let Some(tr) = self.tc.edge_trait else { return false };
        if ty.has_escaping_bound_vars() {
            return false;
        }
        self.infcx
            .type_implements_trait(tr, [ty], self.param_env)
            .must_apply_modulo_regions()
    }

    fn implements_node(&self, ty: Ty<'tcx>) -> bool {
        let Some(tr) = self.tc.node_trait else { return false };
        if ty.has_escaping_bound_vars() {
            return false;
        }
        let var = self.infcx.next_ty_var(DUMMY_SP);
        self.infcx
            .type_implements_trait(tr, [ty, var], self.param_env)
            .may_apply()
    }

    /// `deep`: also look through `ManuallyDrop` (used to decide whether a local
    /// ADT with a destructor is edge-carrying at all)
    fn walk(
        &self,
        ty: Ty<'tcx>,
        deep: bool,
        depth: usize,
        path: &mut String,
        out: &mut Cls,
        seen: &mut Vec<Ty<'tcx>>,
    ) {
        if depth > 12 || seen.contains(&ty) {
            return;
        }
        let tcx = self.tc.tcx;
        let ty = tcx.try_normalize_erasing_regions(self.typing_env, ty::Unnormalized::new_wip(ty)).unwrap_or(ty);
        let plen = path.len();
        match ty.kind() {
            ty::Adt(def, args) => {
                if def.is_phantom_data() {
                    return;
                }
                if def.is_manually_drop() && !deep {
                    return;
                }
                let name = dp(tcx, def.did());
                if name == "core::mem::maybe_uninit::MaybeUninit" || name == "core::ptr::non_null::NonNull" {
                    if !deep || name.ends_with("NonNull") {
                        return;
                    }
                }
                if self.implements_edge(ty) {
                    out.raw.push(format!("{}{}", path, tystr(ty)));
                    return;
                }
                seen.push(ty);
                let krate = tcx.crate_name(def.did().krate);
                if is_workspace_crate(krate.as_str()) {
                    if !deep && def.destructor(tcx).is_some() {
                        // stop; is it edge-carrying at all?
                        let mut sub = Cls::default();
                        let mut sseen = Vec::new();
                        let mut sp = String::new();
                        for v in def.variants() {
                            for f in &v.fields {
                                let fty = f.ty(tcx, args);
                                self.walk(fty, true, depth + 1, &mut sp, &mut sub, &mut sseen);
                            }
                        }
                        if !sub.raw.is_empty() {
                            out.guards.push(name);
                        }
                    } else {
                        if self.implements_node(ty) && !deep {
                            out.raw.push(format!("{}node {}", path, tystr(ty)));
                            seen.pop();
                            return;
                        }
                        path.push_str(&format!("{} > ", name));
                        for v in def.variants() {
                            for f in &v.fields {
                                let fty = f.ty(tcx, args);
                                self.walk(fty, deep, depth + 1, path, out, seen);
                            }
                        }
                        path.truncate(plen);
                    }
                } else {
                    // foreign container: conservatively look at the type arguments
                    path.push_str(&format!("{} > ", name));
                    for a in args.iter() {
                        if let ty::GenericArgKind::Type(t) = a.kind() {
                            self.walk(t, deep, depth + 1, path, out, seen);
                        }
                    }
                    path.truncate(plen);
                }
                seen.pop();
            }
            ty::Tuple(tys) => {
                for t in tys.iter() {
                    self.walk(t, deep, depth + 1, path, out, seen);
                }
            }
            ty::Array(t, _) | ty::Slice(t) => self.walk(*t, deep, depth + 1, path, out, seen),
            ty::Closure(_, args) => {
                path.push_str("closure > ");
                for t in args.as_closure().upvar_tys() {
                    self.walk(t, deep, depth + 1, path, out, seen);
                }
                path.truncate(plen);
            }
            ty::Param(_) | ty::Alias(..) | ty::Placeholder(_) => {
                if self.implements_edge(ty) {
                    out.raw.push(format!("{}{}", path, tystr(ty)));
                } else if self.implements_node(ty) {
                    out.raw.push(format!("{}node {}", path, tystr(ty)));
                }
            }
            _ => {}
        }
    }
}
