//! Minimal JSON value + writer (no external crates available offline)
pub enum J {
    Null,
    B(bool),
    N(i128),
    S(String),
    A(Vec<J>),
    O(Vec<(&'static str, J)>),
}

impl J {
    pub fn s(s: impl Into<String>) -> J {
        J::S(s.into())
    }
    pub fn opt(o: Option<J>) -> J {
        o.unwrap_or(J::Null)
    }
    pub fn write(&self, out: &mut String) {
        match self {
            J::Null => out.push_str("null"),
            J::B(b) => out.push_str(if *b { "true" } else { "false" }),
            J::N(n) => out.push_str(&n.to_string()),
            J::S(s) => esc(s, out),
            J::A(v) => {
                out.push('[');
                for (i, x) in v.iter().enumerate() {
                    if i > 0 {
                        out.push(',');
                    }
                    x.write(out);
                }
                out.push(']');
            }
            J::O(v) => {
                out.push('{');
                for (i, (k, x)) in v.iter().enumerate() {
                    if i > 0 {
                        out.push(',');
                    }
                    esc(k, out);
                    out.push(':');
                    x.write(out);
                }
                out.push('}');
            }
        }
    }
    pub fn to_string(&self) -> String {
        let mut s = String::new();
        self.write(&mut s);
        s
    }
}

fn esc(s: &str, out: &mut String) {
    out.push('"');
    for c in s.chars() {
        match c {
            '"' => out.push_str("\\\""),
            '\\' => out.push_str("\\\\"),
            '\n' => out.push_str("\\n"),
            '\r' => out.push_str("\\r"),
            '\t' => out.push_str("\\t"),
            c if (c as u32) < 0x20 => out.push_str(&format!("\\u{:04x}", c as u32)),
            c => out.push(c),
        }
    }
    out.push('"');
}
