#!/bin/bash
# usage: run_facts.sh <outdir> <cargo check args...>
# Runs `cargo +nightly check` on /repo with the oxfacts driver injected; facts go to <outdir>.
set -u
OUT="$1"; shift
REPO="${OXIDD_REPO:-/repo}"
DRV=/verif/oxfacts/target/release/oxfacts
[ -x "$DRV" ] || { echo "oxfacts driver not built (run MANIFEST setup_cmd)" >&2; exit 2; }
T=$(mktemp -d /tmp/oxfacts-target.XXXXXX)
trap 'rm -rf "$T"' EXIT
mkdir -p "$OUT"
cd "$REPO" || exit 2
OXFACTS_OUT="$OUT" \
LD_LIBRARY_PATH="$(rustc +nightly --print sysroot)/lib" \
RUSTFLAGS="-Zmir-opt-level=0 -Awarnings -Cdebug-assertions=off" \
RUSTC_WORKSPACE_WRAPPER="$DRV" \
CARGO_TARGET_DIR="$T" CARGO_NET_OFFLINE=true \
cargo +nightly check --offline "$@" 2> "$OUT/cargo.log"
rc=$?
if [ $rc -ne 0 ]; then tail -40 "$OUT/cargo.log" >&2; fi
exit $rc
