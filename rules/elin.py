"""E-LIN: edge linearity on every non-unwind path (DESIGN 3.1).

Rule: in drop-elaborated MIR no `Drop` terminator in a non-cleanup block may
drop a place whose type transparently carries a raw `oxidd_core::Edge` (or an
inner node).  Owned edges must be *moved* into a consumer (Manager::drop_edge,
a guard, a node constructor, the return slot); a compiler-inserted drop means
the edge fell out of scope on that path, i.e. a reference-count leak.
"""
import re

from lib import cfg

ITER_NEXT = ("std::iter::Iterator::next", "core::iter::Iterator::next",
             "core::iter::traits::iterator::Iterator::next")

# iterator types for which `next() == None` means "no element is left", so
# dropping the iterator afterwards drops nothing
EXHAUSTIBLE = (
    r"^std::vec::IntoIter<", r"^std::array::IntoIter<", r"^smallvec::IntoIter<",
    r"^std::iter::Rev<", r"^std::iter::Enumerate<", r"^linear_hashtbl::raw::Drain<",
    r"^linear_hashtbl::raw::IntoIter<", r"^std::collections::hash_map::IntoIter<",
    r"^std::option::IntoIter<",
    # Flatten yields None only after the outer iterator and both inner cursors are exhausted
    r"^std::iter::Flatten<(std::vec|std::array|smallvec)::IntoIter<",
)

# Vetted destructors: ADTs that (deeply) contain edges and have a `Drop` impl.
# mode "must": the consumer call post-dominates the entry of `drop`;
# mode "loop": the consumer call occurs in `drop` (inside a loop over the content);
# mode "none": reason only.
GUARDS = {
    "oxidd_core::util::on_drop::EdgeDropGuard":
        ("must", r"Manager::drop_edge$", "drops its edge through the manager"),
    "oxidd_core::util::on_drop::EdgeVecDropGuard":
        ("loop", r"Manager::drop_edge$", "drops every edge of the vector through the manager"),
    "oxidd_core::util::on_drop::InnerNodeDropGuard":
        ("must", r"DropWith::drop_with$|::drop_with$", "drops the node's children through the manager"),
    "oxidd_core::util::edge_hash_map::EdgeHashMap":
        ("loop", r"Manager::drop_edge$", "drops every key through the manager"),
    "oxidd_manager_index::manager::Function":
        ("must", r"Store<.*>::drop_edge$|::drop_edge$", "handle drop = Store::drop_edge"),
    "oxidd_manager_pointer::manager::Function":
        ("must", r"::drop_edge$", "handle drop = drop_edge"),
    "oxidd_manager_index::manager::ManagerRef":
        ("none", None, "Arc<Store>; only signals the GC thread, the Store destructor owns the nodes"),
    "oxidd_manager_pointer::manager::ManagerRef":
        ("none", None, "reference-counted store pointer; the store destructor owns the nodes"),
    "oxidd_manager_index::manager::Store":
        ("must", r"::drop_with$", "tears down the whole store; counts are irrelevant from here on"),
    "oxidd_manager_pointer::manager::Store":
        ("loop", r"::drop_with$|drop", "tears down the whole store"),
    "oxidd_manager_pointer::manager::Manager":
        ("loop", r"::drop_with$", "tears down manager data and all nodes"),
    "oxidd_manager_index::manager::LevelViewSet":
        ("must", r"RawTable<.*>::reset_no_drop$|::reset_no_drop$",
         "forgets the table edges; nodes are freed by Store/TakenLevelView destructors"),
    "oxidd_manager_pointer::manager::LevelViewSet":
        ("must", r"::reset_no_drop$", "forgets the table edges; nodes are freed by Manager/TakenLevelView destructors"),
    "oxidd_manager_index::manager::TakenLevelView":
        ("loop", r"::drop_unique_table_edge$", "drains the set, dropping each unique-table edge"),
    "oxidd_manager_pointer::manager::TakenLevelView":
        ("loop", r"::drop_from_unique_table$|::drop_unique_table_edge$", "drains the set, dropping each unique-table edge"),
    "oxidd_test_utils::edge::DummyManager": ("none", None, "test utility"),
}

# drop sites accepted by exact key with a reason (not by position)
ALLOW = {
    # `manager.zbdd_cache_mut().tautologies = tautologies;` overwrites the vector
    # that `pre_reorder_mut`/`new` left empty (mem::take / Vec::new); E-EVENT
    # checks that pre_reorder_mut precedes post_reorder_mut in every bracket.
    "E-LIN:oxidd_rules_zbdd::<oxidd_rules_zbdd::ZBDDCache<<M as oxidd_core::Manager>::Edge> as oxidd_core::ManagerEventSubscriber>::post_reorder_mut:field-overwrite:std::vec::Vec<<M as oxidd_core::Manager>::Edge>":
        "overwrite of the tautology vector emptied by mem::take in pre_reorder_mut / Vec::new in new()",
}


def _strip_lt(s):
    return re.sub(r"'[a-z_0-9]+,? ?", "", s)


def find_drop_fn(F, adt):
    for r in F.fns.values():
        imp = r.get("impl")
        if imp and imp.get("trait") == "std::ops::Drop" and r["id"].endswith("::drop"):
            if imp["self"].split("<")[0] == adt:
                return r
    return None


def exhausted_iterator(B, blk, local):
    """is the drop of `local` in block `blk` dominated by the None edge of an
    Iterator::next on `&mut local`?"""
    if local is None:
        return False
    # locals that are `&mut local`
    refs = set()
    changed = True
    while changed:
        changed = False
        for b in B.blocks:
            for s in b["s"]:
                if "lhs" not in s or not isinstance(s["lhs"], int) or s["lhs"] in refs:
                    continue
                rv = s["rv"]
                if rv["k"] == "ref" and rv["m"]:
                    p = rv["p"]
                    if p == local or (isinstance(p, dict) and p["p"] == ["*"] and p["l"] in refs):
                        refs.add(s["lhs"])
                        changed = True
                elif rv["k"] == "use":
                    q = cfg.op_place(rv["op"])
                    if isinstance(q, int) and q in refs:
                        refs.add(s["lhs"])
                        changed = True
    for i, t in B.calls():
        if cfg.callee_decl(t) not in ITER_NEXT and t["f"].get("def") not in ITER_NEXT:
            continue
        if not t["a"]:
            continue
        p = cfg.op_place(t["a"][0])
        if not (isinstance(p, int) and p in refs):
            continue
        dest = t["d"]
        tgt = t["t"]
        if tgt is None or not isinstance(dest, int):
            continue
        tb = B.blocks[tgt]
        # `_d = discriminant(dest); switchInt(_d) -> [0: none_blk, ...]`
        dl = None
        for s in tb["s"]:
            if "lhs" in s and s["rv"]["k"] == "discr" and s["rv"]["p"] == dest:
                dl = s["lhs"]
        tt = tb["t"]
        if dl is None or tt["k"] != "switch" or cfg.op_place(tt["d"]) != dl:
            continue
        none_blk = None
        for v, b in tt["t"]:
            if int(v) == 0:
                none_blk = b
        if none_blk is None:
            continue
        if B.dominates(none_blk, blk):
            return True
    return False


def run(ctx, F, crates=None, rule="E-LIN", skip_guard_table=False):
    """Run E-LIN over all bodies of `F` (optionally restricted to crate prefixes)."""
    nbodies = 0
    nraw = 0
    guards_seen = {}
    for fid, m in F.mir.items():
        if crates and not any(fid.startswith(c + "::") for c in crates):
            continue
        nbodies += 1
        carries = False
        for l in m["locals"]:
            c = l.get("cls")
            if c:
                carries = True
                for g in c["guards"]:
                    guards_seen.setdefault(g, 0)
                    guards_seen[g] += 1
        if not carries:
            ctx.ob(rule + ".body", F.nice(fid), True, nontrivial=False)
            continue
        B = cfg.Body(m)
        nice = F.nice(fid)
        ok_body = True
        for i in sorted(B.reach):
            b = m["blocks"][i]
            t = b["t"]
            if t["k"] != "drop" or b["c"]:
                continue
            cls = t.get("cls")
            if not cls or not cls["raw"]:
                continue
            nraw += 1
            p = t["p"]
            local = p if isinstance(p, int) else None
            ty = t["ty"]
            name = B.local_name(local) if local is not None else None
            if local is None:
                shape = "field-overwrite"
            else:
                shape = name or "_tmp"
            key = "%s:%s:%s:%s" % (rule, nice, shape, ty)
            where = "%s (fn at %s, drop at line %s, bb%d)" % (nice, F.where(fid), t.get("ln"), i)
            if local is not None and any(re.search(rx, ty) for rx in EXHAUSTIBLE) and exhausted_iterator(B, i, local):
                ctx.ob(rule + ".drop", key, True,
                       "exhausted iterator: drop dominated by the None edge of Iterator::next on it; " + where)
                continue
            akey = "E-LIN:" + key.split(":", 1)[1]
            if akey in ALLOW:
                ctx.ob(rule + ".drop", key, True, "allow-listed: " + ALLOW[akey] + "; " + where)
                continue
            ok_body = False
            ctx.ob(rule + ".drop", key, False,
                   "a value of type `%s` (carries a raw edge via %s) is dropped by the compiler on a non-unwind path "
                   "in %s: the edge is not released through the manager (reference-count leak)"
                   % (ty, cls["raw"][0], where))
        ctx.ob(rule + ".body", nice, True, nontrivial=True,
               sample="all non-cleanup Drop terminators of %d reachable blocks inspected%s"
               % (len(B.reach), "" if ok_body else " (violations reported separately)"))
    # vetted destructor table
    if not skip_guard_table:
        for g, n in sorted(guards_seen.items()):
            key = "%s.guard:%s" % (rule, g)
            if g not in GUARDS:
                ctx.ob(rule + ".guard", key, False,
                       "edge-carrying type `%s` has a Drop impl that is not in the vetted destructor table "
                       "(new/unreviewed destructor; %d uses)" % (g, n))
                continue
            mode, rx, reason = GUARDS[g]
            if mode == "none":
                ctx.ob(rule + ".guard", key, True, reason)
                continue
            r = find_drop_fn(F, g)
            if r is None or r["id"] not in F.mir:
                ctx.ob(rule + ".guard", key, False, "Drop::drop of vetted guard `%s` not found in the facts" % g)
                continue
            B = cfg.Body(F.mir[r["id"]])
            hits = []
            for i, t in B.calls():
                cn = cfg.callee_name(t) or ""
                cd = cfg.callee_decl(t) or ""
                if re.search(rx, cn) or re.search(rx, cd):
                    if not B.blocks[i]["c"]:
                        hits.append(i)
            ok = bool(hits)
            if ok and mode == "must":
                ok = any(B.postdominates(h, 0) for h in hits)
            ctx.ob(rule + ".guard", key, ok,
                   ("destructor of `%s` %s (%s); %s" % (g, "calls the consumer on every path" if mode == "must"
                                                        else "calls the consumer", reason, F.where(r["id"])))
                   if ok else
                   "destructor of vetted guard `%s` at %s no longer calls its consumer /%s/ %s"
                   % (g, F.where(r["id"]), rx, "on every non-unwind path" if mode == "must" else ""))
    return {"bodies": nbodies, "raw_drops": nraw, "guards": len(guards_seen)}


# ---- E-LIN.forget: manual disposal of raw edges inside the managers ------------------------------------------------------
FORGET_FNS = {
    # function suffix (closure numbers stripped) -> why a reference-count release accompanies every forgotten edge
    "as oxidd_core::Manager>::try_remove_node": "consumes its edge: the reference is released whether or not the node can be removed",
    "LevelViewSet<'id, N, ET, TM, R, MD, TERMINALS>>::gc::{closure}": "the dead node's slot is freed",
    "LevelViewSet<'id, N, ET, TM, R, MD, TERMINALS>>::insert": "the duplicate edge's reference is released",
    "Store<'id, N, ET, TM, R, MD, TERMINALS>>::drop_edge": "the reference is released",
    "Store<'id, N, ET, TM, R, MD, TERMINALS>>::drop_unique_table_edge": "the reference is released and the slot freed",
    "Edge<'id, N, ET, TAG_BITS>>::drop_inner": "the reference is released",
}
RELEASE = re.compile(r"::(release|free_slot|force_drop|drop_edge|from_raw|drop_with)$")


def check_forget(ctx, F, rule="E-LIN.forget"):
    """Inside the managers owned edges are disposed of by hand: the `Edge` value is `mem::forget`-ed (its `Drop` would
    abort) and the node's reference count is decremented separately.  `mem::forget` hides the edge from the
    drop-based rule above, so the pairing is checked directly: in each reviewed function every path from the entry to a
    return that forgets an edge also passes a release (`release`, `free_slot`, `force_drop`, ...) -- an early return
    between the two leaks one reference for good."""
    n = 0
    seen = set()
    for fid, m in sorted(F.mir.items()):
        if fid.split("::")[0] not in ("oxidd_manager_index", "oxidd_manager_pointer"):
            continue
        nice = re.sub(r"\{closure#\d+\}", "{closure}", F.nice(fid))
        key = next((k for k in FORGET_FNS if nice.endswith(k)), None)
        if key is None:
            continue
        B = cfg.Body(m)
        sites = []
        rel = []
        for i, t in B.calls():
            cn = cfg.callee_name(t) or ""
            if cn.endswith("mem::forget"):
                a = t["a"][0]
                l = a.get("mv", a.get("cp"))
                ty = m["locals"][l].get("ty", "") if isinstance(l, int) else ""
                if "::Edge<" in ty:
                    sites.append(i)
            elif RELEASE.search(cn):
                rel.append(i)
        if not sites:
            continue
        seen.add((fid.split("::")[0], key))
        n += 1
        exits = B.exits()
        bad = []
        for s in sites:
            if s in rel:
                continue
            before = any(B.dominates(r, s) for r in rel) or not _reach_avoiding(B, 0, s, rel)
            after = not any(e in B.reachable_from(s, avoid=tuple(rel)) for e in exits)
            if not (before or after):
                bad.append(s)
        ctx.ob(rule, "%s:%s" % (rule, nice), bool(rel) and not bad,
               "%s (%s): %s" % (nice, F.where(fid),
                                "every path that forgets an edge also releases its reference (%s)" % FORGET_FNS[key] if rel and not bad else
                                "an owned edge is forgotten (mem::forget) on a path to the return that never releases the node's "
                                "reference (bb%s): the reference count stays one too high and the node can never be collected" % bad))
    ctx.floor(rule, "manager functions that dispose of edges by hand", n, 6)
    return n


def _reach_avoiding(B, start, goal, avoid):
    return goal in B.reachable_from(start, avoid=tuple(a for a in avoid if a != goal))


# ---- E-LIN.mint: where owned edges come into existence inside the managers -------------------------------------------
MINT_COUNTED = {
    # (type marker, function) -> every path to the creation of the edge value passes a reference-count increment (or
    # the initialisation of a fresh count that already includes the new edge)
    ("SlotSlice<", "clone_edge_unchecked"): "retain before the copy",
    ("oxidd_manager_index::manager::Store<", "clone_edge"): "retain (inner node or terminal) before the copy",
    ("DynamicTerminalManager<", "get_edge"): "found terminal: retain; new terminal: count initialised to 2 (table + the edge)",
    ("DynamicTerminalIterator<", "next"): "retain before yielding the owned edge",
    ("oxidd_manager_pointer::manager::Manager<", "clone_edge"): "retain before the copy",
    ("oxidd_manager_pointer::manager::Edge<", "clone_inner_unchecked"): "retain before the copy",
}
MINT_REVIEWED = {
    # (type marker, function) -> why an edge value is built here without touching a count
    ("oxidd_manager_index::manager::Function<", "from_raw"): "takes over the reference handed out by into_raw",
    ("oxidd_manager_index::manager::Edge<", "from_terminal_id"): "the raw constructor (unsafe; callers are the sites above)",
    ("manager::Function<", "from_edge"): "moves the caller's edge into the handle",
    ("manager::Function<", "into_edge"): "moves the handle's edge out (the handle is forgotten)",
    ("manager::Edge<", "borrowed"): "Borrowed<> never drops its copy",
    ("manager::Edge<", "with_tag"): "Borrowed<> never drops its copy",
    ("oxidd_manager_index::manager::Store<", "add_node"): "a fresh node is created with count 2: the table's edge and the returned one",
    ("StaticTerminalManager<", "get_edge"): "static terminals are not reference counted",
    ("StaticTerminalIterator<", "next"): "static terminals are not reference counted",
    ("oxidd_manager_pointer::manager::", "add_node"): "a fresh node is created with count 2: the table's edge and the returned one",
    ("oxidd_manager_pointer::manager::Function<", "store"): "reads the store pointer through a never-dropped copy",
    ("oxidd_manager_pointer::manager::Function<", "clone"): "builds a never-dropped copy, then clones it through Manager::clone_edge",
    ("oxidd_manager_pointer::manager::Function<", "drop"): "moves the handle's edge out to release it",
    ("oxidd_manager_pointer::manager::Function<", "with_manager_exclusive"): "never-dropped copy for the closure",
    ("oxidd_manager_pointer::manager::Function<", "with_manager_shared"): "never-dropped copy for the closure",
    ("oxidd_manager_pointer::manager::Edge<", "from_ptr"): "the raw constructor (unsafe)",
}


def _mint_key(table, nice):
    for k in table:
        if k[0] in nice and nice.endswith("::" + k[1]):
            return k
    return None


_COUNT = re.compile(r"::retain$|::clone_edge$|::clone_edge_unchecked$|::clone_inner_unchecked$")


def check_mint(ctx, F, rule="E-LIN.mint"):
    """An owned `Edge` of the managers is a counted reference; creating the value out of a raw id / pointer is the one
    operation the drop-based rule cannot see.  Every place in the two manager crates that builds an `Edge` value (the
    tuple-struct literal or `Edge::from_terminal_id`) is inventoried: the copying sites must have a reference-count
    increment (or the initialisation of a fresh count) on every path from the function entry to the creation; the
    other sites are the reviewed raw constructors / ownership transfers; an unlisted site is reported."""
    n = 0
    seen_counted, seen_reviewed = set(), set()
    for fid, m in sorted(F.mir.items()):
        if fid.split("::")[0] not in ("oxidd_manager_index", "oxidd_manager_pointer"):
            continue
        B = cfg.Body(m)
        sites = []
        for i, t in B.calls():
            if m["blocks"][i]["c"]:
                continue
            cn = cfg.callee_name(t) or ""
            if cn.endswith("::from_terminal_id"):
                sites.append(i)
        inits = set()
        for i in sorted(B.reach):
            b = m["blocks"][i]
            if b["c"]:
                continue
            for s in b["s"]:
                rv = s.get("rv") or {}
                if rv.get("k") == "aggr" and re.search(r"manager::Edge\b", str(rv.get("adt", ""))):
                    sites.append(i)
                if rv.get("k") == "aggr" and re.search(r"::ArcItem\b", str(rv.get("adt", ""))):
                    inits.add(i)
        if not sites:
            continue
        nice = re.sub(r"\{closure#\d+\}", "{closure}", F.nice(fid))
        counts = {i for i, t in B.calls() if _COUNT.search(cfg.callee_name(t) or "")} | inits
        free = B.reachable_from(0, avoid=counts) if counts else set(B.reach)
        kc = _mint_key(MINT_COUNTED, nice)
        kr = _mint_key(MINT_REVIEWED, nice)
        n += 1
        if kc is not None:
            seen_counted.add(kc)
            bad = [i for i in sites if i in free and i not in counts]
            ctx.ob(rule, "%s:%s::%s" % ((rule,) + kc), not bad,
                   "%s (%s): %s" % (nice, F.where(fid),
                                    "every creation of an owned edge follows a count increment (%s)" % MINT_COUNTED[kc] if not bad else
                                    "an owned edge is created on a path without a reference-count increment (expected: %s): the "
                                    "count ends up one too low and the node or terminal is freed while still referenced"
                                    % MINT_COUNTED[kc]))
        elif kr is not None:
            seen_reviewed.add(kr)
            ctx.ob(rule, "%s:%s::%s" % ((rule,) + kr), True, "%s: reviewed: %s" % (nice, MINT_REVIEWED[kr]), nontrivial=False)
        else:
            ctx.ob(rule, "%s:new:%s" % (rule, nice), False,
                   "%s (%s): builds an owned edge value out of a raw id/pointer; this site is not in the reviewed inventory of "
                   "edge-creating functions (counted copies / raw constructors / ownership transfers)" % (nice, F.where(fid)))
    for k in MINT_COUNTED:
        ctx.ob(rule + ".table", "%s.table:%s::%s" % ((rule,) + k), k in seen_counted,
               "counted edge-creating site %s..::%s %s" % (k + ("found" if k in seen_counted else "no longer exists: update the table",)),
               nontrivial=False)
    return n


# ---- E-LIN.rcconst: the thresholds reference counts are compared with ----------------------------------------------------
RC_THRESHOLDS = [
    # (function marker, function name, comparison, constant, count source) -- why
    ("arcslab::ArcSlab<", "release", "Ne", 1, "fetch_sub", "the slot is freed iff the count before the decrement was 1"),
    ("arcslab::Slot<", "release", "Eq", 1, "release", "last reference iff the previous count was 1"),
    ("arcslab::Slot<", "release_move", "Ne", 1, "release", "last reference iff the previous count was 1"),
    ("oxidd_manager_index::manager::Manager<", "try_remove_node", "Ne", 2, "release",
     "removable iff only the unique table's reference remains after releasing the caller's (previous count 2)"),
    ("oxidd_manager_index::manager::Manager<", "try_remove_node", "Ne", 1, "load_rc", "re-read under the level lock: still only the table's reference"),
    ("oxidd_manager_index::manager::LevelViewSet<", "gc::{closure#0}", "Ne", 1, "load_rc", "a node is dead iff only the unique table references it"),
    ("oxidd_manager_index::manager::Store<", "drop_unique_table_edge", "Ne", 1, "release", "the slot is freed iff the table's was the last reference"),
    ("oxidd_manager_pointer::manager::Manager<", "try_remove_node", "Ne", 2, "release",
     "removable iff only the unique table's reference remains after releasing the caller's (previous count 2)"),
    ("oxidd_manager_pointer::manager::Manager<", "try_remove_node", "Ne", 1, "load_rc", "re-read under the level lock"),
    ("oxidd_manager_pointer::manager::LevelViewSet<", "gc::{closure#0}", "Ne", 1, "load_rc", "a node is dead iff only the unique table references it"),
    ("DynamicTerminalManager<", "gc::{closure#0}", "Ne", 1, "load", "a terminal is dead iff only its table references it"),
]
_RCSRC = re.compile(r"::(load_rc|release|retain|fetch_sub|fetch_add|ref_count|load)$")


def check_rc_thresholds(ctx, F, rule="E-LIN.rcconst"):
    """Whether a node / terminal / slot may be freed is decided by comparing its reference count with a small constant
    (1 = only the unique table holds it, 2 = the table and the reference being released).  Every comparison of a
    value that derives from a count read or decrement (`load_rc`, `release`, `fetch_sub`, an atomic `load` in the
    terminal store) with an integer constant in the manager crates and arcslab is inventoried and must be one of the
    reviewed (function, comparison, constant) triples; a changed threshold frees live nodes or never frees dead ones."""
    from efreelist import origins
    found = []
    for fid, m in sorted(F.mir.items()):
        if fid.split("::")[0] not in ("oxidd_manager_index", "oxidd_manager_pointer", "arcslab"):
            continue
        B = cfg.Body(m)
        nice = F.nice(fid)
        for i in sorted(B.reach):
            b = m["blocks"][i]
            if b["c"]:
                continue
            for s in b["s"]:
                rv = s.get("rv") or {}
                if rv.get("k") != "bin" or rv.get("o") not in ("Eq", "Ne", "Lt", "Le", "Gt", "Ge"):
                    continue
                for x, y in (("a", "b"), ("b", "a")):
                    c = cfg.const_int(rv.get(y))
                    if c is None:
                        continue
                    names = [(cfg.callee_name(o[1]) or "") for o in origins(B, m, [rv.get(x)]) if o[0] == "call"]
                    hit = [nm.rsplit("::", 1)[-1] for nm in names if _RCSRC.search(nm)]
                    if hit and (fid.split("::")[0] != "oxidd_manager_index" or "terminal_manager" not in fid or "load" in hit
                                or "fetch_sub" in hit):
                        op = rv["o"] if y == "b" else {"Lt": "Gt", "Gt": "Lt", "Le": "Ge", "Ge": "Le"}.get(rv["o"], rv["o"])
                        found.append((fid, nice, op, c, hit))
    n = 0
    used = set()
    for fid, nice, op, c, hit in found:
        key = None
        for k in RC_THRESHOLDS:
            if k[0] in nice and nice.endswith("::" + k[1]) and k[2] == op and k[3] == c and k[4] in hit:
                key = k
                break
        n += 1
        if key:
            used.add(key[:5])
        ctx.ob(rule, "%s:%s:%s %d" % (rule, re.sub(r"<.*>", "", nice.split(" as ")[0])[-60:] + "::" + nice.rsplit("::", 1)[-1], op, c),
               key is not None,
               "%s (%s): %s" % (nice, F.where(fid),
                                "count %s %d (%s)" % (op, c, key[5]) if key else
                                "a value derived from a reference count (%s) is compared `%s %d`, which is not one of the reviewed "
                                "thresholds (1 = only the unique table holds the node, 2 = the table and the reference being "
                                "released): live nodes are freed or dead ones kept" % ("/".join(sorted(set(hit))), op, c)))
    for k in RC_THRESHOLDS:
        ctx.ob(rule + ".table", "%s.table:%s%s:%s %d" % (rule, k[0], k[1], k[2], k[3]), k[:5] in used,
               "reviewed threshold %s..::%s `%s %d` %s" % (k[0], k[1], k[2], k[3], "found" if k[:5] in used else
                                                           "is no longer in the code (changed comparison or constant?)"))
    return n


def check_removal_guards(ctx, F, rule="E-LIN.rcguard"):
    """`Manager::try_remove_node` (both managers) may take a node out of its unique table only when (1) the count before
    the caller's release was exactly 2, (2) the manager is prepared for removals (`reorder_gc_prepared`), and (3) the
    count re-read under the level lock is exactly 1.  Path rule on MIR: the `LevelViewSet::remove` call is unreachable
    from the `differs` edge of each of the two count comparisons and from the `not prepared` edge of the flag test
    (a `||` turned into `&&` lets one failed test through)."""
    from efreelist import origins
    n = 0
    for fid, r in sorted(F.fns.items()):
        if not fid.endswith("::try_remove_node") or (r.get("impl") or {}).get("trait") != "oxidd_core::Manager" \
                or not fid.startswith(("oxidd_manager_index", "oxidd_manager_pointer")):
            continue
        m = F.mir.get(fid)
        if m is None:
            continue
        B = cfg.Body(m)
        blocks = m["blocks"]
        removes = [i for i, t in B.calls() if re.search(r"LevelViewSet::<.*>::remove$|LevelViewSet<.*>::remove$", cfg.callee_name(t) or "")]
        if not ctx.anchor(rule, "%s: removal from the level's table" % F.nice(fid)[:60], len(removes) == 1):
            continue
        R = removes[0]
        problems = []
        found = {"rc2": 0, "rc1": 0, "flag": 0}
        # locals holding (a copy / negation of) the prepared flag
        flag_locals, neg_locals = set(), set()
        for i in sorted(B.reach):
            for s in blocks[i]["s"]:
                rv = s.get("rv") or {}
                if isinstance(s.get("lhs"), int):
                    if rv.get("k") == "use" and "reorder_gc_prepared" in str(rv.get("op")):
                        flag_locals.add(s["lhs"])
                    elif rv.get("k") == "un" and rv.get("o") == "Not" and cfg.op_place(rv.get("a", rv.get("op"))) in flag_locals:
                        neg_locals.add(s["lhs"])
        cmp_locals = {}
        for i in sorted(B.reach):
            for s in blocks[i]["s"]:
                rv = s.get("rv") or {}
                if rv.get("k") == "bin" and rv.get("o") in ("Eq", "Ne") and isinstance(s.get("lhs"), int):
                    c = cfg.const_int(rv.get("b"))
                    if c in (1, 2):
                        names = [(cfg.callee_name(o[1]) or "") for o in origins(B, m, [rv.get("a")]) if o[0] == "call"]
                        if any(_RCSRC.search(x) for x in names):
                            cmp_locals[s["lhs"]] = (rv["o"], c)
        for i in sorted(B.reach):
            t = blocks[i]["t"]
            if blocks[i]["c"] or t["k"] != "switch":
                continue
            d = cfg.op_place(t.get("d"))
            zero = [blk for v, blk in t["t"] if str(v) == "0"]
            other = [t.get("o")]
            bad_edges = None
            if d in cmp_locals:
                op, c = cmp_locals[d]
                found["rc%d" % c] += 1
                bad_edges = other if op == "Ne" else zero       # count differs from the threshold
                what = "the reference count differs from %d" % c
            elif d in flag_locals:
                found["flag"] += 1
                bad_edges = zero
                what = "the manager is not prepared for node removal"
            elif d in neg_locals:
                found["flag"] += 1
                bad_edges = other
                what = "the manager is not prepared for node removal"
            if bad_edges:
                reach = set()
                for bx in bad_edges:
                    if bx is not None:
                        reach |= B.reachable_from(bx, avoid=(i,))
                if R in reach:
                    problems.append(what)
        n += 1
        missing = [k for k, v in found.items() if v == 0]
        ok = not problems and not missing
        ctx.ob(rule, "%s:%s" % (rule, fid.split("::")[0]), ok,
               "%s (%s): %s" % (F.nice(fid), F.where(fid),
                                "the node is removed only with previous count 2, prepared manager and re-read count 1" if ok else
                                ("the removal from the unique table is reachable although %s" % " / ".join(problems)) if problems else
                                "guard(s) not found: %s" % missing))
    return n
