"""E-CARRY: no computed carry / borrow is discarded in the multi-digit arithmetic of `Natural`.

In `oxidd_core::util::num::bigint` every multi-digit addition / subtraction threads a `carry` (`borrow`) flag from one
digit to the next.  A carry that is computed (the second component of `carrying_add` / `overflowing_add` /
`borrowing_sub` / `overflowing_sub`, or any non-constant value) and then overwritten by the next digit's result
without having been read drops 2^64 from the sum: the result is silently too small.  From MIR, for every local
whose source name is `carry` or `borrow`: on no path is a non-constant definition followed by another definition
before a use.  A `carrying_add(_, <constant>)` counts as a use (the carry-in was replaced by its known value, as the
cancelling-digits loop of `Natural::add` does).  (A definition that is still unread when the function returns is fine: the last carry is either
checked by a debug assertion -- compiled out in the analysed profile -- or known to be zero.)

This is a necessary condition of exact sums; it does not decide the digit arithmetic itself.
"""
from lib import cfg

MOD = "oxidd_core::util::num::bigint"
NAMES = ("carry", "borrow")
CONST_CARRY_IN = __import__("re").compile(r"::(carrying_add|borrowing_sub)$")


def _uses_in(x, L):
    """does the JSON fragment x read local L?"""
    if isinstance(x, dict):
        for k in ("cp", "mv"):
            if k in x:
                v = x[k]
                if v == L or (isinstance(v, dict) and v.get("l") == L):
                    return True
        if x.get("k") in ("ref", "addr", "len", "discr") and isinstance(x.get("p"), dict) and x["p"].get("l") == L:
            return True
        return any(_uses_in(v, L) for k, v in x.items() if k not in ("lhs",))
    if isinstance(x, list):
        return any(_uses_in(v, L) for v in x)
    return False


def _is_const_rv(rv):
    return isinstance(rv, dict) and rv.get("k") == "use" and isinstance(rv.get("op"), dict) and "c" in rv["op"]


def events(block, L):
    """ordered list of ('use'|'def'|'cdef', index) inside one block (terminator last)"""
    ev = []
    for i, s in enumerate(block["s"]):
        rv = s.get("rv")
        if rv is not None and _uses_in(rv, L):
            ev.append(("use", i))
        lhs = s.get("lhs")
        if isinstance(lhs, dict) and lhs.get("l") == L and lhs.get("p"):
            ev.append(("use", i))       # partial write: keeps the rest
        if lhs == L or (isinstance(lhs, dict) and lhs.get("l") == L and not lhs.get("p")):
            ev.append(("cdef" if _is_const_rv(rv) else "def", i))
    t = block.get("t") or {}
    if _uses_in({k: v for k, v in t.items() if k not in ("d",)}, L):
        ev.append(("use", "t"))
    d = t.get("d")
    if t.get("k") == "call" and CONST_CARRY_IN.search((t.get("f") or {}).get("def") or "") and len(t.get("a") or []) == 3 \
            and isinstance(t["a"][2], dict) and "c" in t["a"][2]:
        # `x.carrying_add(y, true)`: the author replaced the carry-in by its known constant value (Natural::add
        # documents it with debug_assert!(carry)); counts as consuming the pending carry
        ev.append(("use", "t"))
    if t.get("k") == "call" and (d == L or (isinstance(d, dict) and d.get("l") == L and not d.get("p"))):
        ev.append(("def", "t"))
    return ev


def check_fn(ctx, F, rule, fid):
    m = F.mir[fid]
    B = cfg.Body(m)
    n = 0
    for L, loc in enumerate(m["locals"]):
        if loc.get("n") not in NAMES:
            continue
        evs = {i: events(B.blocks[i], L) for i in B.reach if not B.blocks[i]["c"]}
        defs = [(i, k) for i, e in evs.items() for k, (kind, _) in enumerate(e) if kind == "def"]
        lost = []
        for (bi, k) in defs:
            # forward from just after this definition
            rest = evs[bi][k + 1:]
            hit = next((kind for kind, _ in rest), None)
            if hit == "use":
                continue
            if hit in ("def", "cdef"):
                lost.append((bi, k))
                continue
            seen, todo, bad = set(), list(B.succ[bi]), False
            while todo and not bad:
                x = todo.pop()
                if x in seen or x not in evs:
                    continue
                seen.add(x)
                first = next((kind for kind, _ in evs[x]), None)
                if first == "use":
                    continue
                if first in ("def", "cdef"):
                    bad = True
                    break
                todo.extend(B.succ[x])
            if bad:
                lost.append((bi, k))
        n += len(defs)
        nice = F.nice(fid)
        ctx.ob(rule, "%s:%s:%s" % (rule, nice, loc["n"]), not lost,
               "%s (%s): %s" % (nice, F.where(fid),
                                "%d definition(s) of `%s`, each read before it is overwritten" % (len(defs), loc["n"]) if not lost else
                                "`%s` is computed and then overwritten without having been read on some path (%d of %d "
                                "definitions; first near line %s): the carry of the lower digits is dropped" %
                                (loc["n"], len(lost), len(defs), _line(B, lost[0]))))
    return n


def _line(B, site):
    b = B.blocks[site[0]]
    t = b.get("t") or {}
    return t.get("ln", "?")


def run(ctx, F, rule="E-CARRY"):
    n = 0
    fns = 0
    for fid in sorted(F.mir):
        if not fid.startswith(MOD + "::"):
            continue
        if any(loc.get("n") in NAMES for loc in F.mir[fid]["locals"]):
            fns += 1
            n += check_fn(ctx, F, rule, fid)
    ctx.anchor(rule, MOD + " functions with a carry/borrow chain", fns > 0)
    return fns, n


RAW_VIEW_USERS = {
    # function (nice-name suffix) -> why the unnormalised digit array (possibly with a most-significant zero digit) is fine here
    "Natural>::bit_width": "bit_width() skips leading zero digits itself",
    "<u128 as std::convert::TryFrom>::try_from": "reads the low digits by index and checks the rest for zero",
}


def check_raw_view(ctx, F, rule="E-NUM.rawview"):
    """`Natural::mantissa()` strips the most-significant zero digit that `Add` may leave behind (its length estimate is one
    bit generous); `mantissa_raw()` does not.  Every consumer that looks at the *most significant* digit (comparison,
    conversion to f64, formatting, hashing, equality) must therefore go through `mantissa()`.  Who-may-call: the raw
    view is read only by the reviewed functions."""
    import re as _re
    from lib import cfg as _cfg
    n = 0
    seen = set()
    for fid, m in sorted(F.mir.items()):
        if not fid.startswith("oxidd_core::util::num::"):
            continue
        B = _cfg.Body(m)
        raw = [i for i, t in B.calls() if _re.search(r"Natural>?::mantissa_raw$|::mantissa_raw$", _cfg.callee_name(t) or "")]
        if not raw:
            continue
        nice = F.nice(fid)
        key = next((k for k in RAW_VIEW_USERS if nice.endswith(k)), None)
        n += 1
        if key:
            seen.add(key)
        ctx.ob(rule, "%s:%s" % (rule, key or nice), key is not None,
               "%s (%s): %s" % (nice, F.where(fid),
                                "reviewed user of the unnormalised digit view: " + RAW_VIEW_USERS[key] if key else
                                "reads Natural::mantissa_raw(), the digit array that may carry a most-significant zero digit after "
                                "an addition; it is not one of the reviewed users -- a consumer of the top digit must use "
                                "mantissa()"))
    for k in RAW_VIEW_USERS:
        ctx.ob(rule + ".table", "%s.table:%s" % (rule, k), k in seen, "reviewed raw-view user %s %s" %
               (k, "found" if k in seen else "no longer calls mantissa_raw: update the table"), nontrivial=False)
    return n
