#!/usr/bin/env python3
"""./check <Cxx> [--tier quick|thorough]"""
import importlib
import os
import sys
import traceback

sys.path.insert(0, os.path.dirname(os.path.abspath(__file__)))
from lib import runner, facts  # noqa: E402


def main():
    args = sys.argv[1:]
    if not args:
        print("usage: check <Cxx> [--tier quick|thorough]")
        return 2
    pid = args[0]
    tier = os.environ.get("VERIF_TIER", "quick")
    if "--tier" in args:
        tier = args[args.index("--tier") + 1]
    if tier not in ("quick", "thorough"):
        tier = "quick"
    try:
        seed = int(os.environ.get("VERIF_SEED", "0"))
    except ValueError:
        seed = 0
    try:
        mod = importlib.import_module("props.%s" % pid.lower())
    except ImportError as e:
        print("no check for property %s (%s)" % (pid, e))
        return 2
    ctx = runner.Ctx(pid, tier, seed)
    try:
        mod.run(ctx)
        if tier == "thorough":
            import selftest
            selftest.run(ctx, pid)
    except facts.FactsError as e:
        return runner.broken(pid, tier, seed, str(e))
    except Exception:
        return runner.broken(pid, tier, seed, "internal error in the checker:\n" + traceback.format_exc())
    return runner.finish(ctx, getattr(mod, "LEVEL", ""))


if __name__ == "__main__":
    sys.exit(main())
