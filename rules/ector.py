"""E-TABLE.ctor: the constant and variable constructors.

`f_edge` / `t_edge` / `u_edge`, `constant_edge`, `var_edge` and `not_var_edge` of every function type of the rules
crates (sequential and multi-threaded) are interpreted from HIR and compared with the diagram they must build:

  constants  BDD False/True terminal; BCDD the one terminal, complemented for false; ZBDD Empty for false and the
             tautology of level 0 for true; TDD False/Unknown/True; MTBDD `constant(v)` the terminal of `v`;
  var        a node created *at* `var_to_level(var)` (view level = node level) whose children are, in order,
             (true, false) / (1, 0) / (true, unknown, false), for BCDDs (T, !T) behind an untagged edge;
  not_var    BDD: the node with the children exchanged; elsewhere the trait default `not(var)`, checked to call
             `not_edge_owned` on the result of `var_edge` for the same variable.

The ZBDD `var_edge` builds a chain of don't-care nodes in a loop; its first node (level; tautology(level + 1), Empty)
is checked, the loop is left to E-UNITS / E-TABLE.step.zbase-style rules.
"""
import ereduce
import tables
from lib.interp import Beyond, Edge, Enum, Interp, Opaque, Unrecognised, enumerate_runs
from tables import OK

ETAG = "oxidd_rules_bdd::complement_edge::EdgeTag::"
RULE = "E-TABLE.ctor"


class CtorDomain(ereduce.ReduceDomain):
    def __init__(self, F, kind, crate):
        super().__init__(F, kind)
        self.crate = crate
        self.inserted = []
        self.not_calls = []
        self.var_calls = []
        self.stop_at_loop = False

    def default_tag(self):
        return Enum(ETAG + "None") if self.kind is ereduce.BCDD_KIND else None

    def insert(self, view, node):
        e = super().insert(view, node)
        self.inserted.append(e)
        return e

    def terminal_edge(self, tv):
        return Edge(("T", tv), self.default_tag())

    def call(self, it, name, f, args_e, env, e):
        did = f.get("did", "")
        n = f.get("n", "")
        if n.endswith("BooleanFunction::not_edge_owned") or n.endswith("TVLFunction::not_edge_owned"):
            args = [it.ev(a, env) for a in args_e]
            self.not_calls.append(args)
            return Enum(OK, [Edge(("NOT", args[1]), None)])
        if f.get("trait") and f.get("item") and f.get("ga") and isinstance(f["ga"][0], str) and "::" in f["ga"][0]:
            # `Type::<..>::item(..)` on a trait item: resolve to the impl of that type in this crate
            self_ty = f["ga"][0].split("<")[0]
            for r in self.F.fns.values():
                imp = r.get("impl") or {}
                if imp.get("trait") == f["trait"] and imp.get("self", "").split("<")[0] == self_ty \
                        and r["id"].endswith("::" + f["item"]) and r["id"] in self.F.hir and r["id"] != env.get("$fn"):
                    return it.call_fn(r["id"], [it.ev(a, env) for a in args_e])
        if (n.endswith("Function::var_edge")) and did not in self.F.hir:
            args = [it.ev(a, env) for a in args_e]
            self.var_calls.append(args)
            return Enum(OK, [Edge(("VAR", args[1]), None)])
        if n.endswith("NumberBase::one") or n.endswith("NumberBase::zero"):
            return ("num", n.rsplit("::", 1)[-1])
        if did in self.F.hir and did.startswith(self.crate + "::"):
            return it.call_fn(did, [it.ev(a, env) for a in args_e])
        return super().call(it, name, f, args_e, env, e)

    def method(self, it, m, e, env):
        name = m.rsplit("::", 1)[-1]
        if m == "oxidd_core::Manager::var_to_level":
            it.recv(e, env)
            (v,) = it.args(e, env)
            return ("levelof", v)
        if name == "zbdd_cache":
            it.recv(e, env)
            return Opaque("zbdd_cache")
        if name == "tautology":
            r = it.recv(e, env)
            (lvl,) = it.args(e, env)
            return Edge(("TAUT", lvl), None)
        if m == "oxidd_core::Manager::get_terminal":
            it.recv(e, env)
            (tv,) = it.args(e, env)
            return Enum(OK, [self.terminal_edge(tv)])
        if name in ("levels", "num_levels"):
            raise Beyond("loop over the levels")
        return super().method(it, m, e, env)

    def binop(self, it, o, l, r):
        if o == "+" and isinstance(l, tuple) and l and l[0] == "levelof" and r == 1:
            return ("levelof+1", l[1])
        return super().binop(it, o, l, r)

    def equal(self, it, a, b):
        if isinstance(a, tuple) and isinstance(b, tuple) and a and b and isinstance(a[0], str) and a[0] in ("levelof", "num"):
            return a == b
        return super().equal(it, a, b)


class MkDomain(CtorDomain):
    """make_node: the singleton `var` is a structured node"""

    def __init__(self, F):
        super().__init__(F, tables.ZBDD, "oxidd_rules_zbdd")

    def node_of(self, edge):
        from tables import NODE_INNER
        if isinstance(edge, Edge) and edge.node[0] == "S":
            return Enum(NODE_INNER, [edge.node[1]])
        return super().node_of(edge)

    def method(self, it, m, e, env):
        name = m.rsplit("::", 1)[-1]
        if name == "expect_inner" or name == "unwrap_inner":
            r = it.recv(e, env)
            it.args(e, env)
            from tables import NODE_INNER
            if isinstance(r, Enum) and r.path == NODE_INNER:
                return r.args[0]
            from lib.interp import Panic
            raise Panic("expect_inner on a terminal")
        recv = None
        if name in ("level", "children", "child"):
            recv = it.recv(e, env)
            import epick
            if isinstance(recv, epick.SNode):
                if name == "level":
                    return recv.level
                if name == "children":
                    return ereduce.IterObj(recv.children)
                (i,) = it.args(e, env)
                return recv.children[i]
        return super().method(it, m, e, env)


def lab(v):
    if isinstance(v, Enum) and v.path == OK and v.args:
        return "Ok(%s)" % lab(v.args[0])
    if isinstance(v, Edge) and v.node[0] == "NEW":
        return "%snode(inserted at %r, level %r; %s)" % ("" if v.tag is None else "%r:" % (v.tag,), v.node[1], v.node[2],
                                                        ", ".join(lab(c) for c in v.node[3]))
    if isinstance(v, Edge) and v.node[0] == "TAUT":
        return "tautology(%r)" % (v.node[1],)
    return repr(v)


def T(path, tag=None):
    return Edge(("T", Enum(path)), tag)


def specs():
    bt = "oxidd_rules_bdd::simple::BDDTerminal::"
    zt = "oxidd_rules_zbdd::ZBDDTerminal::"
    tt = "oxidd_rules_tdd::TDDTerminal::"
    none, comp = Enum(ETAG + "None"), Enum(ETAG + "Complemented")
    bc = "oxidd_rules_bdd::complement_edge::BCDDTerminal"
    return [
        ("bdd", "oxidd_rules_bdd", "oxidd_rules_bdd::simple::apply_rec::", tables.BDD,
         {"f_edge": T(bt + "False"), "t_edge": T(bt + "True")},
         (T(bt + "True"), T(bt + "False")), None, True),
        ("bcdd", "oxidd_rules_bdd", "oxidd_rules_bdd::complement_edge::apply_rec::", ereduce.BCDD_KIND,
         {"f_edge": T(bc, comp), "t_edge": T(bc, none)},
         (T(bc, none), T(bc, comp)), none, False),
        ("zbdd", "oxidd_rules_zbdd", "oxidd_rules_zbdd::apply_rec::", tables.ZBDD,
         {"f_edge": T(zt + "Empty"), "t_edge": Edge(("TAUT", 0), None)},
         None, None, False),
        ("mtbdd", "oxidd_rules_mtbdd", "oxidd_rules_mtbdd::apply_rec::", tables.MTBDD,
         {}, (Edge(("T", ("num", "one"))), Edge(("T", ("num", "zero")))), None, False),
        ("tdd", "oxidd_rules_tdd", "oxidd_rules_tdd::apply_rec::", tables.TDD,
         {"f_edge": T(tt + "False"), "t_edge": T(tt + "True"), "u_edge": T(tt + "Unknown")},
         (T(tt + "True"), T(tt + "Unknown"), T(tt + "False")), None, False),
    ]


def fns_named(F, base, name):
    return sorted(f for f in F.hir if f.startswith(base) and f.endswith("::" + name) and "{impl#" in f)


def run(ctx, F, only=None, rule=RULE):
    n = 0
    for kname, crate, base, kind, consts, var_children, tag0, has_notvar in specs():
        if only and kname not in only:
            continue
        if kname == "tdd" and not any(f.startswith(base) for f in F.hir):
            continue
        fails = []
        found = 0

        def interp(fid, args, kind=kind, crate=crate):
            holder = {}

            def mk(oracle):
                holder["d"] = CtorDomain(F, kind, crate)
                return Interp(F, holder["d"], oracle)
            for trace, out in enumerate_runs(mk, lambda it: it.call_fn(fid, list(args))):
                yield out, holder["d"]
        # constants
        for cname, want in consts.items():
            for fid in fns_named(F, base, cname):
                found += 1
                for (status, val), d in interp(fid, [Opaque("manager")]):
                    n += 1
                    if status != "ok" or val != want:
                        fails.append("%s (%s): yields %s %s, expected %s" % (F.nice(fid), F.where(fid), status, lab(val), lab(want)))
        if kname == "mtbdd":
            for fid in fns_named(F, base, "constant_edge"):
                found += 1
                v = ("num", "v")
                for (status, val), d in interp(fid, [Opaque("manager"), v]):
                    n += 1
                    if status != "ok" or not (isinstance(val, Enum) and val.path == OK and val.args[0] == Edge(("T", v))):
                        fails.append("%s (%s): yields %s %r, expected the terminal of the given value" %
                                     (F.nice(fid), F.where(fid), status, val))
        # var_edge
        for fid in fns_named(F, base, "var_edge"):
            found += 1
            var = ("var",)
            for (status, val), d in interp(fid, [Opaque("manager"), var]):
                n += 1
                lvl = ("levelof", var)
                if kname == "zbdd":
                    # first node of the chain; the loop above it is beyond this rule
                    first = d.inserted[0] if d.inserted else None
                    want_ch = (Edge(("TAUT", ("levelof+1", var)), None), T("oxidd_rules_zbdd::ZBDDTerminal::Empty"))
                    if status not in ("ok", "beyond") or first is None or first.node[1] != lvl or first.node[2] != lvl \
                            or tuple(first.node[3]) != want_ch:
                        fails.append("%s (%s): %s; first node %r, expected node(var_to_level(var); tautology(level + 1), Empty)"
                                     % (F.nice(fid), F.where(fid), status if status not in ("ok", "beyond") else "wrong node", lab(first)))
                    continue
                v = val.args[0] if status == "ok" and isinstance(val, Enum) and val.path == OK else None
                ok = isinstance(v, Edge) and v.node[0] == "NEW" and v.node[1] == lvl and v.node[2] == lvl \
                    and tuple(v.node[3]) == var_children and (tag0 is None or v.tag == tag0)
                if not ok:
                    fails.append("%s (%s): yields %s %s, expected a node at var_to_level(var) with children %r"
                                 % (F.nice(fid), F.where(fid), status, lab(val), var_children))
        # not_var_edge
        if has_notvar:
            for fid in fns_named(F, base, "not_var_edge"):
                found += 1
                var = ("var",)
                for (status, val), d in interp(fid, [Opaque("manager"), var]):
                    n += 1
                    lvl = ("levelof", var)
                    v = val.args[0] if status == "ok" and isinstance(val, Enum) and val.path == OK else None
                    ok = isinstance(v, Edge) and v.node[0] == "NEW" and v.node[1] == lvl and v.node[2] == lvl \
                        and tuple(v.node[3]) == tuple(reversed(var_children))
                    if not ok:
                        fails.append("%s (%s): yields %s %s, expected a node at var_to_level(var) with children %r"
                                     % (F.nice(fid), F.where(fid), status, lab(val), tuple(reversed(var_children))))
        if kname == "zbdd":
            # make_node(manager, var, hi, lo) = reduce at the level of the singleton `var` with (hi, lo) in order
            import epick
            fid = "oxidd_rules_zbdd::make_node"
            if ctx.anchor(rule, fid, fid in F.hir):
                found += 1
                zt = "oxidd_rules_zbdd::ZBDDTerminal::"
                var = Edge(("S", epick.SNode("v", 4, (T(zt + "Base"), T(zt + "Empty")))))
                hi, lo = Edge(("N", "hi")), Edge(("N", "lo"))
                holder = {}

                def mk(oracle):
                    holder["d"] = MkDomain(F)
                    return Interp(F, holder["d"], oracle)
                for trace, (status, val) in enumerate_runs(mk, lambda it: it.call_fn(fid, [Opaque("manager"), var, hi, lo])):
                    n += 1
                    v = val.args[0] if status == "ok" and isinstance(val, Enum) and val.path == OK else None
                    okn = isinstance(v, Edge) and v.node[0] == "NEW" and v.node[1] == 4 and v.node[2] == 4 \
                        and tuple(v.node[3]) == (hi, lo)
                    if not okn:
                        fails.append("%s (%s): make_node(var@4, hi, lo) yields %s %s, expected node(level 4; hi, lo)"
                                     % (fid, F.where(fid), status, lab(val)))
        ctx.ob(rule, "%s:%s" % (rule, kname), not fails and found >= 2,
               "%s constructors: %s" % (kname, "%d wrong; first: %s" % (len(fails), " || ".join(fails[:3])) if fails else
                                        "%d constructor bodies build the constants / variable nodes they are named for" % found))
    # trait default not_var_edge = not(var)
    for trait in ("oxidd_core::function::BooleanFunction",):
        fid = trait + "::not_var_edge"
        if not ctx.anchor(rule, fid, fid in F.hir):
            continue
        holder = {}

        def mk(oracle):
            holder["d"] = CtorDomain(F, tables.BDD, "oxidd_core")
            return Interp(F, holder["d"], oracle)
        var = ("var",)
        fails = []
        for trace, (status, val) in enumerate_runs(mk, lambda it: it.call_fn(fid, [Opaque("manager"), var])):
            n += 1
            d = holder["d"]
            ok = status == "ok" and len(d.var_calls) == 1 and d.var_calls[0][1] == var and len(d.not_calls) == 1 \
                and isinstance(d.not_calls[0][1], Edge) and d.not_calls[0][1].node == ("VAR", var) \
                and isinstance(val, Enum) and val.path == OK and val.args[0].node[0] == "NOT"
            if not ok:
                fails.append("%s %r (var_edge calls %r, not calls %r)" % (status, val, d.var_calls, d.not_calls))
        ctx.ob(rule, rule + ":default:not_var_edge", not fails,
               "BooleanFunction::not_var_edge (%s): %s" % (F.where(fid), "is not(var_edge(var))" if not fails else
                                                           "is not the negation of var_edge(var): " + fails[0]))
    return n


def check_zbdd_var_chain(ctx, F, rule=RULE + ".zchain"):
    """ZBDD `var_edge`: above the node (level; tautology(level+1), Empty) every level 0..level-1 gets a don't-care node.
    The loop must walk `manager.levels().rev().skip(num_levels - level)` -- i.e. start right above `level` -- and one
    iteration, interpreted on the edge built so far and the view of level L, must produce node(L; edge, edge) in
    that view."""
    import eprep
    fids = [f for f in F.hir if f.startswith("oxidd_rules_zbdd::apply_rec::") and f.endswith("::var_edge") and "::mt::" not in f]
    if not ctx.anchor(rule, "ZBDD var_edge", len(fids) == 1):
        return 0
    fid = fids[0]
    body = F.hir[fid]["body"]
    loops = eprep.for_loops(body)
    fails = []
    n = 0
    if len(loops) != 1:
        ctx.ob(rule, rule, False, "%s (%s): expected one loop building the chain above the variable's level" % (F.nice(fid), F.where(fid)))
        return 1
    it_expr, pat, arm = eprep.loop_parts(loops[0])
    # resolve `levels` local to its initialiser
    inits = {s["p"]["n"]: s["e"] for s in body["s"] if s["k"] == "slet" and s["p"].get("k") == "bind" and "e" in s}

    def resolve(e):
        while isinstance(e, dict) and e.get("k") in ("use",):
            e = e["e"]
        if isinstance(e, dict) and e.get("k") == "path" and e.get("res") == "local" and e["n"] in inits:
            return resolve(inits[e["n"]])
        return e
    ok_shape = it_expr.get("k") == "mcall" and it_expr.get("name") == "skip"
    base = resolve(it_expr["r"]) if ok_shape else None
    ok_shape = ok_shape and isinstance(base, dict) and base.get("k") == "mcall" and base.get("name") == "rev" and \
        resolve(base["r"]).get("name") == "levels"
    if not ok_shape:
        fails.append("the chain loop does not walk `manager.levels().rev().skip(..)`")
    else:
        NL, LV = 7, 3

        class D(CtorDomain):
            def method(self, it, m, e, env):
                nm = m.rsplit("::", 1)[-1]
                if nm == "num_levels":
                    it.recv(e, env)
                    return NL
                if m == "oxidd_core::Manager::var_to_level":
                    it.recv(e, env)
                    it.args(e, env)
                    return LV
                if nm == "level_no":
                    r = it.recv(e, env)
                    if isinstance(r, tuple) and r[0] == "levelview":
                        return r[1]
                if m == "oxidd_core::LevelView::get_or_insert":
                    r = it.recv(e, env)
                    (node,) = it.args(e, env)
                    return Enum(OK, [self.insert(r, node)])
                return super().method(it, m, e, env)

        def mk(oracle):
            return Interp(F, D(F, tables.ZBDD, "oxidd_rules_zbdd"), oracle)
        for trace, (status, val) in enumerate_runs(mk, lambda it: it.ev(it_expr["a"][0], {"$consts": {}, "$fn": fid,
                                                                                           "manager": Opaque("manager"), "level": LV})):
            n += 1
            if status != "ok" or val != NL - LV:
                fails.append("with %d levels and the variable at level %d the loop skips %s %r levels from the bottom, expected %d "
                             "(start right above the variable's level)" % (NL, LV, status, val, NL - LV))
        edge0 = Edge(("N", "sofar"))

        def go(it):
            env = {"$consts": {}, "$fn": fid, "manager": Opaque("manager"), "level": LV, "$mut": {"edge": edge0}}
            if not it.match(pat, ("levelview", 2), env):
                raise Unrecognised("loop pattern")
            it.ev(arm, env)
            return env["$mut"]["edge"]
        for trace, (status, val) in enumerate_runs(mk, go):
            n += 1
            okn = status == "ok" and isinstance(val, Edge) and val.node[0] == "NEW" and val.node[1] == 2 and val.node[2] == 2 \
                and tuple(val.node[3]) == (edge0, edge0)
            if not okn:
                fails.append("one iteration at level 2 yields %s %s, expected node(2; edge, edge)" % (status, lab(val)))
    ctx.ob(rule, rule, not fails, "%s (%s): %s" % (F.nice(fid), F.where(fid), " || ".join(fails[:3]) if fails else
                                                  "a don't-care node per level above the variable, starting right above it"))
    return n
