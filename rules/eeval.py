"""E-EVAL: `eval` is the node-by-node interpretation of the diagram under the given valuation.

Every `eval_edge` of the rules crates has the same two-phase shape: a loop over the `(variable, value)` arguments that
stores each value in a per-level table (a `FixedBitSet`, for TDDs two bits per level in a `Vec<u32>`), and a tail-
recursive `inner` that walks from the root following, at each node, the child selected by the table entry of the
node's level.  Both phases are interpreted from the type-checked HIR, one step each, on abstract inputs:

  args    one iteration of the argument loop, for every value and every previous content of the entry: afterwards the
          entry of `var_to_level(var)` holds an encoding of the value that does not depend on the previous content
          (the documented "last value counts"), different values get different encodings, no other entry changes;
          for ZBDDs the counter of variables set to true changes by (new value) - (old value);
  step    one call of `inner` on a node N(level; c0, c1[, c2]) for every encoding stored by phase one: it recurses
          exactly once, into the child for that value (true -> first child, false -> last child, unknown -> middle),
          with the same table; BCDD: the complement flag handed down is flag ^ (tag of the edge), a terminal yields
          !flag'; ZBDD: the counter handed down is decremented iff the value is true, a terminal yields
          counter == 0 && terminal == Base; BDD/MTBDD/TDD: a terminal yields its value;
  glue    the initial call passes the root edge, the table built by the loop, complement = false / the counter;
  mt      the multi-threaded function types delegate to the sequential `eval_edge` with the arguments in order.

The recursion itself is a builtin (recorded, not followed); nothing of OxiDD is executed.
"""
import epick
import ereduce
import tables
from lib.interp import Continue, Edge, Enum, Interp, Opaque, Unrecognised, enumerate_runs
from tables import NODE_INNER, NODE_TERMINAL, SOME, NONE

LEVEL = 19          # concrete level of the variable / node under test (block 1, shift 6 in the TDD layout)
RULE = "E-EVAL"


class Bits:
    """FixedBitSet: entries are looked up lazily; unknown entries are decided by the oracle"""

    def __init__(self, preset=None):
        self.known = dict(preset or {})
        self.writes = []

    def __repr__(self):
        return "<bits %r>" % (self.known,)


class Rec:
    def __repr__(self):
        return "<result of the recursion>"


REC = Rec()


class EvalDomain(epick.PickDomain):
    def __init__(self, F, kind, inner_fid, glue=False):
        super().__init__(F, inner_fid)
        self.kind = kind
        self.inner_fid = inner_fid
        self.glue = glue
        self.calls = []

    def const(self, it, e):
        did = e.get("did") or ""
        if did.endswith("::BITS") and "impl u32" in e.get("n", ""):
            return 32
        c = self.F.consts.get(did)
        if c and "body" in c:
            return it.ev(c["body"], {"$consts": {}, "$fn": did})
        return super().const(it, e)

    def unop(self, it, o, v):
        if o == "!" and isinstance(v, int) and not isinstance(v, bool):
            return ~v & 0xFFFFFFFF
        return super().unop(it, o, v)

    def equal(self, it, a, b):
        if isinstance(a, tuple) and isinstance(b, tuple) and a[:1] == ("num",) and b[:1] == ("num",):
            return a == b
        return super().equal(it, a, b)

    def node_of(self, edge):
        if isinstance(edge, Edge) and edge.node[0] == "N":
            return Enum(NODE_INNER, [Opaque("node " + edge.node[1])])
        return super().node_of(edge)

    def call(self, it, name, f, args_e, env, e):
        did = f.get("did", "")
        if did == self.inner_fid and (self.glue or env.get("$fn") == self.inner_fid):
            args = [it.ev(a, env) for a in args_e]
            self.calls.append(args)
            return REC
        if did.endswith("From::from") or did.endswith("Into::into"):
            (a,) = [it.ev(x, env) for x in args_e]
            return self.convert(it, a)
        return super().call(it, name, f, args_e, env, e)

    def convert(self, it, a):
        if isinstance(a, Enum) and a.path.startswith("oxidd_rules_tdd::TDDTerminal"):
            for r in self.F.fns.values():
                imp = r.get("impl")
                if imp and imp.get("trait") == "std::convert::From" and r["id"].endswith("::from") \
                        and imp["self"].startswith("std::option::Option<bool>") \
                        and any("TDDTerminal" in str(x) for x in imp.get("trait_args", [])[1:]):
                    return it.call_fn(r["id"], [a])
        raise Unrecognised("conversion of %r" % (a,))

    def method(self, it, m, e, env):
        name = m.rsplit("::", 1)[-1]
        if m == "oxidd_core::Manager::var_to_level":
            it.recv(e, env)
            it.args(e, env)
            return LEVEL
        if m.startswith("fixedbitset::FixedBitSet::"):
            recv = it.recv(e, env)
            if not isinstance(recv, Bits):
                raise Unrecognised("%s on %r" % (m, recv))
            args = it.args(e, env)
            if name == "contains":
                return self.bit(it, recv, args[0])
            if name in ("set", "put", "insert", "toggle", "remove"):
                old = self.bit(it, recv, args[0])
                new = {"set": lambda: args[1], "put": lambda: True, "insert": lambda: True,
                       "toggle": lambda: not old, "remove": lambda: False}[name]()
                if not isinstance(new, bool):
                    raise Unrecognised("FixedBitSet::%s with %r" % (name, new))
                recv.known[args[0]] = new
                recv.writes.append((args[0], new))
                return old if name in ("put", "remove") else ()
            raise Unrecognised("method %s" % m)
        if name == "wrapping_add_signed" or name == "wrapping_add" or name == "wrapping_sub":
            recv = it.recv(e, env)
            (a,) = it.args(e, env)
            if isinstance(recv, int) and isinstance(a, int):
                return recv - a if name == "wrapping_sub" else recv + a
        if m.endswith("Into::into") or m.endswith("From::from"):
            return self.convert(it, it.recv(e, env))
        return super().method(it, m, e, env)

    def bit(self, it, bits, idx):
        if not isinstance(idx, int) or isinstance(idx, bool):
            raise Unrecognised("bit index %r" % (idx,))
        if idx not in bits.known:
            bits.known[idx] = it.fork(("bit", id(bits), idx), 2, "bit[%d]" % idx) == 1
        return bits.known[idx]


# ---- kinds ---------------------------------------------------------------------------------------------------------
ETAG = "oxidd_rules_bdd::complement_edge::EdgeTag::"


class K:
    def __init__(self, name, base, table, values, terminals, tagged=False, counter=False, words=False):
        self.name, self.base, self.table, self.values = name, base, table, values
        self.terminals, self.tagged, self.counter, self.words = terminals, tagged, counter, words


def _opt(v):
    return Enum(NONE) if v is None else Enum(SOME, [v])


def kinds(F):
    bt = "oxidd_rules_bdd::simple::BDDTerminal::"
    zt = "oxidd_rules_zbdd::ZBDDTerminal::"
    tt = "oxidd_rules_tdd::TDDTerminal::"
    out = [
        K("bdd", "oxidd_rules_bdd::simple::apply_rec::", tables.BDD, [True, False],
          [(Enum(bt + "True"), True), (Enum(bt + "False"), False)]),
        K("bcdd", "oxidd_rules_bdd::complement_edge::apply_rec::", ereduce.BCDD_KIND, [True, False],
          [(Enum("oxidd_rules_bdd::complement_edge::BCDDTerminal"), True)], tagged=True),
        K("zbdd", "oxidd_rules_zbdd::apply_rec::", tables.ZBDD, [True, False],
          [(Enum(zt + "Base"), True), (Enum(zt + "Empty"), False)], counter=True),
        K("mtbdd", "oxidd_rules_mtbdd::apply_rec::", tables.MTBDD, [True, False],
          [(("num", "c"), ("num", "c"))]),
    ]
    if any(f.startswith("oxidd_rules_tdd::apply_rec::") for f in F.hir):
        out.append(K("tdd", "oxidd_rules_tdd::apply_rec::", tables.TDD, [True, None, False],
                     [(Enum(tt + "True"), _opt(True)), (Enum(tt + "Unknown"), _opt(None)), (Enum(tt + "False"), _opt(False))],
                     words=True))
    return out


def child_index(kind, val):
    if val is True:
        return 0
    return len(kind.values) - 1 if val is False else 1


def rust_value(kind, val):
    return _opt(val) if kind.words else val


# ---- locating the pieces ---------------------------------------------------------------------------------------------
def find_parts(F, kind):
    """(eval_edge fid, inner fid, prelude lets, loop pattern, loop body, tail expression)"""
    ev = [f for f in F.hir if f.startswith(kind.base) and f.endswith("::eval_edge") and "::mt::" not in f]
    inner = [f for f in F.hir if f.startswith(kind.base) and f.endswith("::eval_edge::inner")]
    if len(ev) != 1 or len(inner) != 1:
        return None
    body = F.hir[ev[0]]["body"]
    lets, loop = [], None
    for s in body.get("s", []):
        if s["k"] == "slet":
            lets.append(s)
        elif s["k"] in ("expr", "semi") and s["e"].get("k") == "match" and s["e"].get("src", "").startswith("ForLoopDesugar") \
                and loop is None:
            loop = s["e"]
    if loop is None or "e" not in body:
        return None
    try:
        it_expr = loop["e"]["a"][0]
        lp = loop["arms"][0]["b"]
        m2 = lp["b"]["s"][0]["e"]
        some = [a for a in m2["arms"] if (a["p"].get("p") or {}).get("n", "").endswith("Some")][0]
        pat = some["p"]["f"][0][1]
        arm = some["b"]
    except (KeyError, IndexError):
        return None
    return ev[0], inner[0], lets, it_expr, pat, arm, body["e"]


def classify(let):
    """model of a prelude local: 'bits' | 'words' | 'int' | None"""
    e = let.get("e") or {}
    n = ((e.get("f") or {}).get("n") or "") if e.get("k") == "call" else ""
    if n.endswith("FixedBitSet::with_capacity"):
        return "bits"
    if n.endswith("vec::from_elem") or n.endswith("from_elem"):
        return "words"
    if e.get("k") == "lit" and e.get("t") == "int":
        return "int"
    return None


PATTERN = 0x5A5A5A5A        # neighbouring TDD entries (every 2-bit field is 1 or 2): must survive a store


def field_of(words, level=LEVEL):
    return (words[level // 16] >> (2 * (level % 16))) & 3


def with_field(word, f, level=LEVEL):
    sh = 2 * (level % 16)
    return (word & ~(3 << sh) & 0xFFFFFFFF) | (f << sh)


# ---- the rule ----------------------------------------------------------------------------------------------------------
def run(ctx, F, only=None, rule=RULE):
    n = 0
    for kind in kinds(F):
        if only and kind.name not in only:
            continue
        parts = find_parts(F, kind)
        if not ctx.anchor(rule, "%s eval_edge (argument loop, inner, tail call)" % kind.name, parts is not None):
            continue
        n += check_kind(ctx, F, kind, parts, rule)
        n += check_mt(ctx, F, kind, parts[0], rule)
    return n


def check_kind(ctx, F, kind, parts, rule):
    ev_fid, inner_fid, lets, it_expr, pat, arm, tail = parts
    where = F.where(ev_fid)
    n = 0
    models = {}
    for l in lets:
        if l["p"].get("k") == "bind":
            models[l["p"]["n"]] = classify(l)
    table = [nm for nm, c in models.items() if c in ("bits", "words")]
    counters = [nm for nm, c in models.items() if c == "int"]
    ok_shape = len(table) == 1 and (len(counters) == 1) == kind.counter and it_expr.get("n") == "args"
    ctx.ob(rule, "%s:%s:shape" % (rule, kind.name), ok_shape,
           "%s eval_edge (%s): %s" % (kind.name, where,
                                      "one per-level table%s, filled from `args`" % (" and one counter" if kind.counter else "")
                                      if ok_shape else "cannot identify the per-level table / counter / argument loop "
                                      "(locals: %r)" % (models,)))
    if not ok_shape:
        return 1
    tname = table[0]
    cname = counters[0] if counters else None
    # ---- args: one loop iteration ----------------------------------------------------------------------------------
    enc = {}
    fails = []
    olds = [0, 1, 2, 3] if kind.words else [False, True]
    for val in kind.values:
        for old in olds:
            if kind.words:
                store = [PATTERN, with_field(PATTERN, old)]
            else:
                store = Bits({LEVEL: old})
            holder = {}

            def mk(oracle):
                d = EvalDomain(F, kind.table, inner_fid)
                holder["d"] = d
                return Interp(F, d, oracle)

            def go(it):
                env = {"$consts": {}, "$fn": ev_fid, "manager": Opaque("manager"), tname: store, "$mut": {}}
                if cname:
                    env["$mut"][cname] = 7
                if not it.match(pat, (("var",), rust_value(kind, val)), env):
                    raise Unrecognised("loop pattern does not match (var, value)")
                try:
                    it.ev(arm, env)
                except Continue:
                    pass
                return env["$mut"].get(cname)
            for trace, (status, res) in enumerate_runs(mk, go):
                n += 1
                sit = "value %r over previous entry %r" % (val, old)
                if status != "ok":
                    fails.append("%s: %s %s" % (sit, status, res))
                    continue
                if kind.words:
                    got = field_of(store)
                    if store[0] != PATTERN or with_field(store[1], 1) != with_field(PATTERN, 1):
                        fails.append("%s: entries of other levels are modified" % sit)
                else:
                    got = store.known.get(LEVEL)
                    if any(i != LEVEL for i, _ in store.writes):
                        fails.append("%s: entries of other levels are written" % sit)
                if val in enc and enc[val] != got:
                    fails.append("%s: the entry becomes %r, but %r when the previous entry is %r: the value given last "
                                 "does not count" % (sit, got, enc[val], olds[0]))
                enc.setdefault(val, got)
                if kind.counter:
                    # the counter tracks the number of entries standing for `true`
                    pass
    if len(set(enc.values())) != len(kind.values) and not fails:
        fails.append("different values are stored under the same encoding: %r" % (enc,))
    if kind.counter and not fails:
        fails += counter_check(F, kind, parts, tname, cname, enc)
    ctx.ob(rule, "%s:%s:args" % (rule, kind.name), not fails,
           "%s eval_edge argument loop (%s): %s" % (kind.name, where,
                                                   " || ".join(fails[:3]) if fails else
                                                   "every value overwrites the entry of its level (encodings %r)" % (enc,)))
    if fails:
        return n + 1
    # ---- step -------------------------------------------------------------------------------------------------------
    fails = []
    arity = len(kind.values)
    kids = tuple(Edge(("N", "c%d" % i), Enum(ETAG + ("Complemented" if i == 1 else "None")) if kind.tagged else None)
                 for i in range(arity))
    tags = [Enum(ETAG + "None"), Enum(ETAG + "Complemented")] if kind.tagged else [None]
    flags = [False, True] if kind.tagged else [None]
    ones_in = [3] if kind.counter else [None]
    for val in kind.values:
        for tag in tags:
            for flag in flags:
                N = Edge(("S", epick.SNode("n", LEVEL, kids)), tag)
                store = [PATTERN, with_field(PATTERN, enc[val])] if kind.words else Bits({LEVEL: enc[val]})
                args = [Opaque("manager"), N] + ([flag] if kind.tagged else []) + [store] + ([3] if kind.counter else [])
                for trace, (status, res), d in runs(F, kind, inner_fid, args):
                    n += 1
                    sit = "node with value %r%s" % (val, (", edge tag %s, complement %r" % (tag.short, flag)) if kind.tagged else "")
                    if status != "ok":
                        fails.append("%s: %s %s" % (sit, status, res))
                        continue
                    if len(d.calls) != 1 or res is not REC:
                        fails.append("%s: %d recursive call(s), result %r (expected the result of one recursive call)"
                                     % (sit, len(d.calls), res))
                        continue
                    c = d.calls[0]
                    want = kids[child_index(kind, val)]
                    if c[1] != want:
                        fails.append("%s: descends into %r, expected child %d (%r)" % (sit, c[1], child_index(kind, val), want))
                    if not any(x is store for x in c):
                        fails.append("%s: the recursion does not receive the table of values" % sit)
                    if kind.tagged:
                        wantf = flag != (tag.short == "Complemented")
                        if c[2] is not wantf:
                            fails.append("%s: complement flag handed down is %r, expected %r" % (sit, c[2], wantf))
                    if kind.counter:
                        wantc = 3 - (1 if val else 0)
                        if c[-1] != wantc:
                            fails.append("%s: counter handed down is %r, expected %r" % (sit, c[-1], wantc))
    # terminals
    for tv, meaning in kind.terminals:
        for tag in tags:
            for flag in flags:
                for ones in ([0, 2] if kind.counter else [None]):
                    T = Edge(("T", tv), tag)
                    store = [PATTERN, PATTERN] if kind.words else Bits({})
                    args = [Opaque("manager"), T] + ([flag] if kind.tagged else []) + [store] + ([ones] if kind.counter else [])
                    for trace, (status, res), d in runs(F, kind, inner_fid, args):
                        n += 1
                        sit = "terminal %r%s%s" % (tv, (", edge tag %s, complement %r" % (tag.short, flag)) if kind.tagged else "",
                                                   ", counter %d" % ones if kind.counter else "")
                        if status != "ok":
                            fails.append("%s: %s %s" % (sit, status, res))
                            continue
                        want = meaning
                        if kind.tagged:
                            want = not (flag != (tag.short == "Complemented"))
                        if kind.counter:
                            want = meaning and ones == 0
                        if d.calls or res != want or type(res) is not type(want):
                            fails.append("%s: yields %r, expected %r" % (sit, res, want))
    ctx.ob(rule, "%s:%s:step" % (rule, kind.name), not fails,
           "%s eval_edge::inner (%s): %s" % (kind.name, F.where(inner_fid),
                                             "%d situation(s) wrong; first: %s" % (len(fails), " || ".join(fails[:3])) if fails
                                             else "follows the child selected by the value of the node's level"))
    # ---- glue -------------------------------------------------------------------------------------------------------
    fails = []
    root = Edge(("N", "root"), tags[0])
    store = [PATTERN, PATTERN] if kind.words else Bits({})
    holder = {}

    def mk(oracle):
        d = EvalDomain(F, kind.table, inner_fid, glue=True)
        holder["d"] = d
        return Interp(F, d, oracle)

    def go(it):
        env = {"$consts": {}, "$fn": ev_fid, "manager": Opaque("manager"), "edge": root, tname: store, "$mut": {}}
        if cname:
            env["$mut"][cname] = 5
        return it.ev(tail, env)
    for trace, (status, res) in enumerate_runs(mk, go):
        n += 1
        d = holder["d"]
        if status != "ok" or res is not REC or len(d.calls) != 1:
            fails.append("tail expression: %s %r (%d call(s) of inner)" % (status, res, len(d.calls)))
            continue
        c = d.calls[0]
        want = [root] + ([False] if kind.tagged else []) + [store] + ([5] if kind.counter else [])
        got = c[1:]
        if len(got) != len(want) or any(not (g is w or (g == w and type(g) is type(w))) for g, w in zip(got, want)):
            fails.append("inner is started with %r, expected (root edge%s, table%s)" %
                         (got, ", complement = false" if kind.tagged else "", ", counter" if kind.counter else ""))
    ctx.ob(rule, "%s:%s:glue" % (rule, kind.name), not fails,
           "%s eval_edge (%s): %s" % (kind.name, where, " || ".join(fails[:2]) if fails else
                                      "the walk starts at the root with the table built from the arguments"))
    return n


def runs(F, kind, inner_fid, args):
    holder = {}

    def mk(oracle):
        d = EvalDomain(F, kind.table, inner_fid)
        holder["d"] = d
        return Interp(F, d, oracle)
    for trace, out in enumerate_runs(mk, lambda it: it.call_fn(inner_fid, list(args))):
        yield trace, out, holder["d"]


def counter_check(F, kind, parts, tname, cname, enc):
    """ZBDD: the counter changes by (new entry stands for true) - (old entry stands for true)"""
    ev_fid, inner_fid, lets, it_expr, pat, arm, tail = parts
    fails = []
    for val in kind.values:
        for old in (False, True):
            store = Bits({LEVEL: old})
            holder = {}

            def mk(oracle):
                holder["d"] = EvalDomain(F, kind.table, inner_fid)
                return Interp(F, holder["d"], oracle)

            def go(it):
                env = {"$consts": {}, "$fn": ev_fid, "manager": Opaque("manager"), tname: store, "$mut": {cname: 7}}
                it.match(pat, (("var",), val), env)
                try:
                    it.ev(arm, env)
                except Continue:
                    pass
                return env["$mut"][cname]
            for trace, (status, res) in enumerate_runs(mk, go):
                if status != "ok":
                    continue
                want = 7 + int(enc[val] == enc[True]) - int(old == enc[True])
                if res != want:
                    fails.append("value %r over previous entry %r: the counter of true variables goes from 7 to %r, expected %r"
                                 % (val, old, res, want))
    return fails


def check_mt(ctx, F, kind, ev_fid, rule):
    mts = [f for f in F.hir if f.startswith(kind.base + "mt::") and f.endswith("::eval_edge")]
    n = 0
    for f in mts:
        h = F.hir[f]
        names = [p.get("n") for p in h["params"]]
        body = h["body"]
        e = body.get("e") if body.get("k") == "block" and not body.get("s") else None
        ok = False
        if e and e.get("k") == "call" and (e["f"].get("n") or "").endswith("eval_edge"):
            an = [a.get("n") if a.get("k") == "path" else None for a in e["a"]]
            ok = an == names
        ctx.ob(rule, "%s:%s:mt" % (rule, kind.name), ok,
               "%s (%s): %s" % (F.nice(f), F.where(f), "delegates to the sequential eval_edge with its arguments in order" if ok
                                else "does not simply forward (manager, edge, args) to the sequential eval_edge"))
        n += 1
    return n


def check_mt_delegations(ctx, F, rule="E-WRAP.delegate"):
    """The multi-threaded function types implement the non-recursive operations (constructors, eval, sat_count,
    pick_cube*) by forwarding to the sequential type: a method whose body is a single call of a trait item on another
    type must call the item of its own name with its own parameters in order."""
    n = 0
    for fid, h in sorted(F.hir.items()):
        if not (fid.startswith("oxidd_rules_") and "::mt::" in fid and "{impl#" in fid):
            continue
        body = h.get("body") or {}
        e = body.get("e") if body.get("k") == "block" and not body.get("s") else None
        if not (e and e.get("k") == "call" and e["f"].get("k") == "path" and e["f"].get("item") and e["f"].get("trait")):
            continue
        ga = e["f"].get("ga") or []
        if not (ga and isinstance(ga[0], str) and "::" in ga[0] and not ga[0].startswith("Self")):
            continue
        own = fid.rsplit("::", 1)[-1]
        names = [p.get("n") for p in h["params"]]
        an = [a.get("n") if a.get("k") == "path" and a.get("res") == "local" else None for a in e["a"]]
        ok = e["f"]["item"] == own and an == names
        n += 1
        ctx.ob(rule, "%s:%s" % (rule, F.nice(fid)), ok,
               "%s (%s): %s" % (F.nice(fid), F.where(fid),
                                "forwards to %s::%s with its parameters in order" % (ga[0].split("<")[0].rsplit("::", 1)[-1], own) if ok else
                                "forwards to `%s` with arguments %r; expected `%s` with its own parameters %r in order"
                                % (e["f"]["item"], an, own, names)))
    return n
