"""per-kind anchors shared by the property modules"""
import ewrap

BF = "oxidd_core::function::BooleanFunction"
BFQ = "oxidd_core::function::BooleanFunctionQuant"
BVS = "oxidd_core::function::BooleanVecSet"
TVL = "oxidd_core::function::TVLFunction"
PBF = "oxidd_core::function::PseudoBooleanFunction"

KINDS = {
    "bdd": dict(alg=ewrap.ALG_BOOL, mod="oxidd_rules_bdd::simple::apply_rec", op="oxidd_rules_bdd::simple::BDDOp",
                st="oxidd_rules_bdd::simple::apply_rec::BDDFunction<", mt="oxidd_rules_bdd::simple::apply_rec::mt::BDDFunctionMT<"),
    "bcdd": dict(alg=ewrap.ALG_BOOL, mod="oxidd_rules_bdd::complement_edge::apply_rec",
                 op="oxidd_rules_bdd::complement_edge::BCDDOp",
                 st="oxidd_rules_bdd::complement_edge::apply_rec::BCDDFunction<",
                 mt="oxidd_rules_bdd::complement_edge::apply_rec::mt::BCDDFunctionMT<"),
    "zbdd": dict(alg=ewrap.ALG_BOOL, mod="oxidd_rules_zbdd::apply_rec", op="oxidd_rules_zbdd::ZBDDOp",
                 st="oxidd_rules_zbdd::apply_rec::ZBDDFunction<", mt="oxidd_rules_zbdd::apply_rec::mt::ZBDDFunctionMT<"),
    "tdd": dict(alg=ewrap.ALG_TVL, mod="oxidd_rules_tdd::apply_rec", op="oxidd_rules_tdd::TDDOp",
                st="oxidd_rules_tdd::apply_rec::TDDFunction<", mt=None),
    "mtbdd": dict(alg=ewrap.ALG_NUM, mod="oxidd_rules_mtbdd::apply_rec", op="oxidd_rules_mtbdd::MTBDDOp",
                  st="oxidd_rules_mtbdd::apply_rec::MTBDDFunction<", mt=None),
}


def wrappers(ctx, F, kind, traits, floor, mt=True, rule_suffix=""):
    k = KINDS[kind]
    n = 0
    rn = "E-WRAP." + kind + rule_suffix
    cnt0 = ctx.rule_counts.get(rn, [0])[0]
    n += ewrap.check_impl_wrappers(ctx, F, rn, k["st"], k["alg"], k["mod"], k["op"], traits)
    if mt and k["mt"]:
        n += ewrap.check_impl_wrappers(ctx, F, rn, k["mt"], k["alg"], k["mod"], k["op"], traits)
    cnt = ctx.rule_counts.get(rn, [0])[0] - cnt0
    ctx.floor(rn, "wrappers of %s interpreted" % "/".join(t.split("::")[-1] for t in traits), cnt, floor)
    return n
