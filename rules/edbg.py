"""E-DBG: no side effect lives inside a debug assertion.

`debug_assert!(..)` expands to `if cfg!(debug_assertions) { .. }`; in the shipped profile the whole block is
compiled out.  An expression with a side effect inside it -- an atomic read-modify-write, a `store`, a container
mutation, an iterator `next()` -- makes the program's state depend on the build profile: the test suite (debug
profile) keeps working while release builds silently lose the update.  From HIR (facts are extracted with debug
assertions off, where the condition is the literal `false`): every `if false { .. }` block is searched for calls
that mutate their receiver or an argument.
"""
import re

from lib import hirutil as H

MUTATORS = {"fetch_sub", "fetch_add", "fetch_or", "fetch_and", "fetch_xor", "fetch_update", "fetch_max", "fetch_min", "store", "swap",
            "compare_exchange", "compare_exchange_weak", "insert", "push", "push_back", "push_front", "pop", "pop_back", "pop_front",
            "remove", "clear", "truncate", "retain", "drain", "take", "replace", "set", "set_len", "extend", "append", "next",
            "next_back", "get_or_insert", "get_or_insert_with", "entry", "lock", "unlock", "try_lock", "write", "resize", "sort",
            "dedup", "reserve", "shrink_to_fit", "add_assign", "sub_assign", "force_unlock", "notify_one", "notify_all", "wait"}
CRATES = ("oxidd_core", "oxidd_rules_bdd", "oxidd_rules_zbdd", "oxidd_rules_mtbdd", "oxidd_rules_tdd", "oxidd_manager_index",
          "oxidd_manager_pointer", "oxidd_reorder", "oxidd_dump", "oxidd_cache", "oxidd_ffi_c", "oxidd", "linear_hashtbl", "arcslab")


def _is_false(c):
    return isinstance(c, dict) and c.get("k") == "lit" and c.get("t") == "bool" and c.get("v") == "false"


def run(ctx, F, rule="E-DBG", crates=CRATES):
    nblocks = 0
    for fid, h in sorted(F.hir.items()):
        if fid.split("::")[0] not in crates:
            continue
        for e in H.walk(h["body"]):
            if e.get("k") == "if" and _is_false(e.get("c")):
                nblocks += 1
                bad = []
                last_ln = max([x.get("ln") or 0 for x in H.walk(e.get("t"))] + [e.get("ln") or 0])
                later = {x["n"] for x in H.walk(h["body"]) if x.get("k") == "path" and x.get("res") == "local"
                         and (x.get("ln") or 0) > last_ln}
                for x in H.walk(e.get("t")):
                    if x.get("k") == "mcall":
                        nm = x.get("name") or x.get("m", "").rsplit("::", 1)[-1]
                        if nm in MUTATORS and not (nm in ("next", "take", "get_or_insert", "entry", "lock", "insert", "remove", "pop",
                                                          "push", "replace", "set", "clear", "write", "wait")
                                                   and (_on_temporary(x) or _dead_local(x, later))):
                            bad.append((nm, x.get("ln")))
                    elif x.get("k") in ("assign", "assignop"):
                        bad.append(("assignment", x.get("ln")))
                if bad:
                    nice = re.sub(r"\{closure#\d+\}", "{closure}", F.nice(fid))
                    ctx.ob(rule, "%s:%s:%s" % (rule, nice, bad[0][0]), False,
                           "%s (%s, line %s): `%s` is evaluated inside a debug assertion; with debug assertions off (release "
                           "builds) the side effect does not happen" % (nice, F.where(fid), bad[0][1], bad[0][0]))
    ctx.ob(rule, rule + ":blocks", True, "%d debug-only blocks inspected" % nblocks, nontrivial=False)
    return nblocks


def _on_temporary(x):
    """the receiver is a value created inside the assertion itself (e.g. `it.next()` on an iterator built there):
    nothing outside the assertion observes the mutation"""
    r = x.get("r")
    while isinstance(r, dict) and r.get("k") in ("ref", "use", "cast"):
        r = r["e"]
    if isinstance(r, dict) and r.get("k") in ("mcall", "call"):
        return True
    if isinstance(r, dict) and r.get("k") == "path" and r.get("res") == "local":
        return r["n"].startswith("__") or False
    return False


def _dead_local(x, later):
    """the receiver is a local that is not mentioned again after the assertion (`debug_assert!(it.next().is_none())`
    at the end of a traversal): the mutation is unobservable"""
    r = x.get("r")
    while isinstance(r, dict) and r.get("k") in ("ref", "use", "cast"):
        r = r["e"]
    return isinstance(r, dict) and r.get("k") == "path" and r.get("res") == "local" and r["n"] not in later
