"""E-RAW.model: every single operation of the open-addressing table, from every small well-formed state.

`find`, `find_or_find_insert_slot`, `insert_in_slot_unchecked` and `remove_at_slot_unchecked` (with the `u32` status
encoding: `FREE`, `TOMBSTONE`, `from_hash`, `is_hash`) are interpreted from HIR on all well-formed 4-slot tables over
the keys a (hash 0), b (hash 4: same home slot, other status), c (hash 1) and d (hash 0: same status as a, told apart
by `eq` only).  Well-formed: keys distinct, at least one FREE slot, `len` / `free` exact, every key reachable from its
home slot without crossing a FREE slot.  Judged against the table's specification:

  find      `Some(i)` with the key stored at i if the key is present, `None` otherwise (never a panic or divergence);
  slot      `find_or_find_insert_slot` is `Ok(i)` for a present key, else `Err(j)` with j the first tombstone on the probe
            path before the first FREE slot, or that FREE slot;
  insert    filing a key in the slot so obtained gives a well-formed table that contains exactly the old keys plus the new
            one (len + 1, free - 1 exactly when the slot was FREE);
  remove    removing a present key's slot returns its value and gives a well-formed table with exactly the other keys
            (FREE and free + 1 exactly when the next slot is FREE, a tombstone otherwise): every other key stays findable.
"""
import itertools

import tables
from lib.interp import Enum, Interp, Opaque, Panic, Beyond, Unrecognised, enumerate_runs
from tables import SOME, NONE, OK, ERR

RULE = "E-RAW.model"
BASE = "linear_hashtbl::raw::"
KEYS = {"a": 0, "b": 4, "c": 1, "d": 0}
N = 4
U32MAX = 2 ** 32 - 1


class Rec:
    def __init__(self, **kw):
        self.__dict__.update(kw)


class Cell:
    """MaybeUninit<T>"""

    def __init__(self, v=None):
        self.v = v


class RawDomain(tables.DDDomain):
    finite_loops = True
    loop_limit = 12

    def __init__(self, F, impl):
        super().__init__(F, tables.BDD)
        self.impl = impl          # def-path prefix of the `Status for u32` impl

    def const(self, it, e):
        n = e.get("n") or ""
        if n.endswith("<impl u32>::MAX"):
            return U32MAX
        if n.endswith("<impl u32>::BITS"):
            return 32
        if n.endswith("<impl usize>::MAX"):
            return 2 ** 64 - 1
        if n.endswith("<impl usize>::BITS"):
            return 64
        c0 = self.F.consts.get(e.get("did") or "")
        if c0 is not None and "body" in c0 and str(e.get("did")).startswith(BASE) and "{impl" not in str(e.get("did")):
            return it.ev(c0["body"], {"$consts": {}, "$fn": e["did"], "$mut": {}})
        if e.get("trait") == BASE + "Status" or n.startswith(BASE + "Status::"):
            c = self.F.consts.get(self.impl + "::" + (e.get("item") or n.rsplit("::", 1)[-1]))
            if c is not None and "body" in c:
                return it.ev(c["body"], {"$consts": {}, "$fn": self.impl, "$mut": {}})
        return super().const(it, e)

    def field(self, it, v, n):
        if isinstance(v, Rec) and hasattr(v, n):
            return getattr(v, n)
        return None

    def field_assign(self, it, b, n, v):
        if isinstance(b, Rec):
            setattr(b, n, v)
            return True
        return False

    def iterate(self, it, src):
        if isinstance(src, tuple) and src and src[0] == "seq":
            return src[1]
        return None

    def call_value(self, it, fv, args):
        if isinstance(fv, tuple) and fv and fv[0] == "pyfn":
            return fv[1](*args)
        raise Unrecognised("call of %r" % (fv,))

    def call(self, it, name, f, args_e, env, e):
        n = f.get("n", "")
        if n.startswith(BASE + "Status::"):
            fid = self.impl + "::" + n.rsplit("::", 1)[-1]
            if fid in self.F.hir:
                return it.call_fn(fid, [it.ev(a, env) for a in args_e])
        did = f.get("did") or ""
        if n.endswith("IntoIterator::into_iter"):
            return [it.ev(a, env) for a in args_e][0]
        if did.endswith("unreachable_unchecked"):
            raise Panic("unreachable_unchecked() reached (line %s)" % e.get("ln"))
        if did.endswith("panicking::panic") or did.endswith("panicking::panic_fmt") or did.endswith("assert_failed"):
            raise Panic("assertion failed (line %s)" % e.get("ln"))
        return super().call(it, name, f, args_e, env, e)

    def method(self, it, m, e, env):
        name = m.rsplit("::", 1)[-1]
        recv = it.recv(e, env)
        if isinstance(recv, list):
            if name in ("get_unchecked", "get_unchecked_mut"):
                (i,) = it.args(e, env)
                if not (isinstance(i, int) and 0 <= i < len(recv)):
                    raise Panic("get_unchecked(%r) outside the table" % (i,))
                return recv[i]
            if name == "len":
                return len(recv)
            if name in ("iter", "iter_mut"):
                return ("seq", list(recv))
        if isinstance(recv, tuple) and recv and recv[0] == "seq":
            if name == "rev":
                return ("seq", list(reversed(recv[1])))
            if name in ("into_iter", "iter"):
                return recv
        if isinstance(recv, Cell):
            if name in ("assume_init_ref", "assume_init_mut", "assume_init_read"):
                if recv.v is None:
                    raise Panic("an uninitialised slot is read")
                return recv.v
            if name == "write":
                (v,) = it.args(e, env)
                recv.v = v
                return v
        if isinstance(recv, Rec) and name == "reserve" and hasattr(recv, "free"):
            it.args(e, env)
            return ()              # enough room by construction of the model states (at least one FREE slot)
        if isinstance(recv, Rec) and m.startswith(BASE + "RawTable"):
            fid = next((f for f in self.F.hir if f.startswith(BASE) and f.endswith("::" + name) and "RawTable<" in self.F.nice(f)), None)
            if fid:
                return it.call_fn(fid, [recv] + it.args(e, env))
        if isinstance(recv, int) and not isinstance(recv, bool):
            if name == "is_power_of_two":
                return recv > 0 and recv & (recv - 1) == 0
            if m.startswith(BASE + "Status::"):
                fid = self.impl + "::" + name
                if fid in self.F.hir:
                    return it.call_fn(fid, [recv] + it.args(e, env))
        if isinstance(recv, Enum) and recv.path in (SOME, NONE):
            if name == "unwrap_or":
                (d,) = it.args(e, env)
                return recv.args[0] if recv.path == SOME else d
            if name == "is_none":
                return recv.path == NONE
            if name == "is_some":
                return recv.path == SOME
        return super().method(it, m, e, env)

    def try_(self, it, v):
        from lib.interp import Return
        if isinstance(v, Enum) and v.path == NONE:
            raise Return(v)
        if isinstance(v, Enum) and v.path == SOME:
            return v.args[0]
        return super().try_(it, v)


# ---- specification on model states --------------------------------------------------------------------------------------------
def status_of(k):
    return KEYS[k] & (U32MAX >> 1)


def well_formed(slots):
    """slots: tuple of 'F' | 'T' | key"""
    ks = [s for s in slots if s not in "FT"]
    if len(set(ks)) != len(ks) or "F" not in slots:
        return False
    for i, s in enumerate(slots):
        if s in "FT":
            continue
        j = KEYS[s] & (N - 1)
        while j != i:
            if slots[j] == "F":
                return False
            j = (j + 1) & (N - 1)
    return True


def spec_find(slots, k):
    return slots.index(k) if k in slots else None


def spec_insert_slot(slots, k):
    j = KEYS[k] & (N - 1)
    tomb = None
    while slots[j] != "F":
        if slots[j] == "T" and tomb is None:
            tomb = j
        j = (j + 1) & (N - 1)
    return tomb if tomb is not None else j


def build(slots, free, tomb):
    data = []
    for s in slots:
        if s == "F":
            data.append(Rec(status=free, data=Cell()))
        elif s == "T":
            data.append(Rec(status=tomb, data=Cell()))
        else:
            data.append(Rec(status=status_of(s), data=Cell(s)))
    return Rec(data=data, len=sum(1 for s in slots if s not in "FT"), free=sum(1 for s in slots if s == "F"))


def read_back(t, free, tomb):
    out = []
    for sl in t.data:
        if sl.status == free:
            out.append("F")
        elif sl.status == tomb:
            out.append("T")
        else:
            k = sl.data.v
            out.append(k if k in KEYS and sl.status == status_of(k) else "?")
    return tuple(out)


def run(ctx, F, rule=RULE, keys=("a", "b", "c", "d")):
    n = 0
    for ty in ("u32", "usize"):        # the index-based manager's tables use u32 status words, the pointer-based one's usize
        n += run_for(ctx, F, rule, keys, ty)
    return n


def run_for(ctx, F, rule, keys, ty):
    impl = next((r["impl"]["id"] for f, r in F.fns.items() if f.startswith(BASE) and (r.get("impl") or {}).get("trait") == BASE + "Status"
                 and (r.get("impl") or {}).get("self") == ty), None)
    fns = {nm: next((f for f in F.hir if f.startswith(BASE) and f.endswith("::" + nm) and "RawTable<" in F.nice(f)), None)
           for nm in ("find", "find_or_find_insert_slot", "insert_in_slot_unchecked", "remove_at_slot_unchecked", "retain")}
    if not ctx.anchor(rule, "RawTable::find / find_or_find_insert_slot / insert_in_slot_unchecked / remove_at_slot_unchecked, Status for " + ty,
                      impl is not None and all(fns.values())):
        return 0

    def mk(o):
        return Interp(F, RawDomain(F, impl), o, max_depth=8)

    def call(fid, *args):
        outs = list(enumerate_runs(mk, lambda it: it.call_fn(fid, list(args))))
        if len(outs) != 1:
            return ("unrecognised", "nondeterministic")
        return outs[0][1]
    # the status constants, as the code defines them
    cst = {}
    for nm in ("FREE", "TOMBSTONE"):
        c = F.consts.get(impl + "::" + nm)
        outs = list(enumerate_runs(mk, lambda it: it.ev(c["body"], {"$consts": {}, "$fn": impl, "$mut": {}}))) if c and "body" in c else []
        cst[nm] = outs[0][1][1] if len(outs) == 1 and outs[0][1][0] == "ok" else None
    fails = []
    n = 1
    free, tomb = cst["FREE"], cst["TOMBSTONE"]
    hashes_ok = isinstance(free, int) and isinstance(tomb, int) and free != tomb and all(status_of(k) not in (free, tomb) for k in KEYS)
    if not hashes_ok:
        fails.append("FREE = %r and TOMBSTONE = %r are not two values distinct from every hash status" % (free, tomb))
    states = [s for s in itertools.product(("F", "T") + tuple(keys), repeat=N) if well_formed(s)] if hashes_ok else []
    budget = [0]

    def fail(msg):
        if len(fails) < 6:
            fails.append(msg)
        budget[0] += 1
    for slots in states:
        if budget[0] > 20:
            break
        present = [k for k in keys if k in slots]
        for k in keys:
            h = KEYS[k]
            eq = ("pyfn", lambda v, k=k: v == k)
            # find
            n += 1
            st, val = call(fns["find"], build(slots, free, tomb), h, eq)
            w = spec_find(slots, k)
            want = Enum(SOME, [w]) if w is not None else Enum(NONE)
            if st != "ok" or val != want:
                fail("find(%s) in %s yields %s %r, expected %r" % (k, "".join(s.upper() if s in "FT" else s for s in slots), st, val, want))
                continue
            # find_or_find_insert_slot (+ insert)
            n += 1
            t = build(slots, free, tomb)
            st, val = call(fns["find_or_find_insert_slot"], t, h, eq)
            want = Enum(OK, [w]) if w is not None else Enum(ERR, [spec_insert_slot(slots, k)])
            if st != "ok" or val != want or read_back(t, free, tomb) != slots:
                fail("find_or_find_insert_slot(%s) in %s yields %s %r, expected %r" % (k, "".join(slots), st, val, want))
                continue
            if w is None and slots.count("F") >= 2:
                j = want.args[0]
                n += 1
                st, val = call(fns["insert_in_slot_unchecked"], t, h, j, k)
                after = read_back(t, free, tomb)
                exp = tuple(k if i == j else s for i, s in enumerate(slots))
                ok = st == "ok" and after == exp and t.len == len(present) + 1 and t.free == slots.count("F") - (1 if slots[j] == "F" else 0) \
                    and well_formed(after)
                if not ok:
                    fail("inserting %s at slot %d of %s gives %s %s (len %r, free %r), expected %s" %
                         (k, j, "".join(slots), st, "".join(after), t.len, t.free, "".join(exp)))
            # remove
            if w is not None:
                n += 1
                t = build(slots, free, tomb)
                st, val = call(fns["remove_at_slot_unchecked"], t, w)
                after = read_back(t, free, tomb)
                nxt_free = slots[(w + 1) & (N - 1)] == "F"
                exp = tuple(("F" if nxt_free else "T") if i == w else s for i, s in enumerate(slots))
                ok = st == "ok" and val == k and after == exp and t.len == len(present) - 1 and \
                    t.free == slots.count("F") + (1 if nxt_free else 0) and well_formed(after)
                if not ok:
                    fail("removing %s (slot %d) from %s gives %s %r, table %s (len %r, free %r), expected %s" %
                         (k, w, "".join(slots), st, val, "".join(after), t.len, t.free, "".join(exp)))
    # is_hash tells entries from FREE / TOMBSTONE (iteration, retain, clone and drop rely on it)
    ih = impl + "::is_hash"
    if hashes_ok and ih in F.hir:
        for label, v, want in [("FREE", free, False), ("TOMBSTONE", tomb, False)] + [("the status of key " + k, status_of(k), True) for k in keys]:
            n += 1
            st, val = call(ih, v)
            if st != "ok" or val is not want:
                fail("is_hash(%s) yields %s %r, expected %r" % (label, st, val, want))
    # retain: keeps exactly the entries the predicate accepts, hands every other entry to `drop` once, and leaves a well-formed
    # table (tombstones may become FREE only where no probe chain runs over them)
    for slots in states:
        if budget[0] > 20:
            break
        present = [k for k in keys if k in slots]
        for r in range(len(present) + 1):
            for keep in itertools.combinations(present, r):
                n += 1
                t = build(slots, free, tomb)
                dropped = []
                st, val = call(fns["retain"], t, ("pyfn", lambda v, keep=keep: v in keep), ("pyfn", lambda v: dropped.append(v) or ()))
                after = read_back(t, free, tomb)
                ok = st == "ok" and all((a == s_) if s_ in keep else (a in "FT") for a, s_ in zip(after, slots)) and well_formed(after) \
                    and t.len == len(keep) and t.free == after.count("F") and sorted(dropped) == sorted(k for k in present if k not in keep)
                if not ok:
                    fail("retain keeping %s of %s gives %s, table %s (len %r, free %r), dropped %r" %
                         ("".join(keep) or "nothing", "".join(slots), st if st != "ok" else "ok", "".join(after), t.len, t.free, dropped))
    ctx.ob(rule, "%s:%s" % (rule, ty), not fails, "open-addressing table with %s status words (%s): %s" % (ty, F.where(fns["find"]), " || ".join(fails[:3]) if fails else
           "find / insert-slot / insert / remove / retain meet their specification from all %d well-formed %d-slot states" % (len(states), N)))
    return n
