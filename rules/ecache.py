"""E-CACHE: apply-cache key discipline (DESIGN 3.2).

From the HIR of every function that talks to `oxidd_core::ApplyCache`:
  1. pairing: the key of every `add*` equals the key of the function's `get*`
     (same operator expression, same operand list, same numeric operands);
  2. the memoised value is the value the function returns;
  3. tag ownership: the sets of operator tags under which the algorithm functions
     of one rules crate cache are pairwise disjoint (a tag shared by two
     algorithms is a collision the cache cannot distinguish); variable tags are
     resolved by interpreting the tag computation (from_apply_quant, the
     quantifier -> tag `match`, subset's VAL -> tag `match`) for all values of
     the const parameters;
  4. the numeric key part of `substitute` is derived from `Substitution::id()`.
"""
import itertools

import tables
from lib import hirutil as H
from lib.interp import Beyond, Enum, Interp, Opaque, Panic, Return, Unrecognised, enumerate_runs
from tables import DDDomain

CACHE = "oxidd_core::ApplyCache::"


def desc(e, aliases=None):
    """line-free description of a key component"""
    k = e.get("k")
    if k in ("ref", "use", "cast"):
        return desc(e["e"], aliases)
    if k == "array":
        return [desc(x, aliases) for x in e["a"]]
    if k == "tup":
        return tuple(desc(x, aliases) for x in e["a"])
    if k == "path":
        if e.get("res") == "local":
            return e["n"]
        return "tag:" + (e.get("did") or e.get("n", "?"))
    r = H.root_local(e)
    if r:
        return r
    if k == "mcall":
        return "%s(%s)" % (e["name"], desc(e["r"], aliases))
    if k == "lit":
        return "lit:" + e["v"]
    return "?" + str(k)


def _root_node(e):
    """like H.root_local, but returns the path node (so that its binding id is available)"""
    while isinstance(e, dict):
        k = e.get("k")
        if k == "path":
            return e if e.get("res") == "local" else None
        if k in ("ref", "use", "cast", "field") or (k == "un" and e.get("o") == "*"):
            e = e["e"]
        elif k == "mcall" and e.get("m") in H.TRANSPARENT_METHODS:
            e = e["r"]
        else:
            return None
    return None


def lid_aliases(body):
    """binding id -> binding id it merely renames (`let x = y;`, `let x = y.borrowed();`, `let x = &*y;`), transitively"""
    al = {}
    for x in H.walk(body):
        if x.get("k") == "slet" and (x.get("p") or {}).get("k") == "bind" and "e" in x and "lid" in x["p"]:
            r = _root_node(x["e"])
            if r is not None and r.get("lid") is not None:
                al[x["p"]["lid"]] = r["lid"]
    def root(l, depth=0):
        while l in al and depth < 20:
            l, depth = al[l], depth + 1
        return l
    return {l: root(l) for l in al}


def kdesc(e, al=None):
    """`desc` for key comparison: locals are identified by their binding (name and HIR id), so that a later `let` that
    shadows a key operand is a different operand"""
    k = e.get("k")
    if k in ("ref", "use", "cast"):
        return kdesc(e["e"], al)
    if k == "array":
        return [kdesc(x, al) for x in e["a"]]
    if k == "tup":
        return tuple(kdesc(x, al) for x in e["a"])
    r = e if (k == "path" and e.get("res") == "local") else _root_node(e)
    if r is not None:
        return "%s#%s" % (r["n"], (al or {}).get(r.get("lid"), r.get("lid")))
    return desc(e)


def _strip(d):
    if isinstance(d, str):
        return d.split("#", 1)[0]
    if isinstance(d, list):
        return [_strip(x) for x in d]
    if isinstance(d, tuple):
        return tuple(_strip(x) for x in d)
    return d


def _flat(d):
    if isinstance(d, (list, tuple)):
        for x in d:
            yield from _flat(x)
    else:
        yield d


class Found(Exception):
    def __init__(self, v):
        self.v = v


class TagInterp(Interp):
    """interpret a function until the local `watch` is bound"""
    watch = None

    def ev_block(self, e, env):
        env = dict(env)
        for s in e["s"]:
            sk = s["k"]
            if sk == "slet":
                if "e" not in s:
                    raise Unrecognised("let without initialiser")
                v = self.ev(s["e"], env)
                e2 = {}
                if not self.match(s["p"], v, e2):
                    raise Unrecognised("let pattern failed")
                env.update(e2)
                if self.watch in e2:
                    raise Found(e2[self.watch])
            elif sk in ("semi", "expr"):
                self.ev(s["e"], env)
        if "e" in e:
            return self.ev(e["e"], env)
        return ()


class TagDomain(DDDomain):
    def method(self, it, m, e, env):
        if m.endswith("::should_switch_to_sequential"):
            return False
        return super().method(it, m, e, env)

    def compare(self, it, a, b):
        if isinstance(a, Opaque) or isinstance(b, Opaque):
            c = it.fork(("ord", repr(a), repr(b)), 2, "%r<%r?" % (a, b))
            return -1 if c == 0 else 1
        return super().compare(it, a, b)

    def call(self, it, name, f, args_e, env, e):
        did = f.get("did", "")
        if did.endswith("::terminal_and") or did.endswith("::terminal_xor"):
            # the non-terminal outcome: both operands are inner nodes
            return Enum(did.rsplit("::", 1)[0] + "::NodesOrDone::Nodes", [Opaque("fnode"), Opaque("gnode")])
        if did in self.F.hir and did.endswith("::from_apply_quant"):
            args = [it.ev(a, env) for a in args_e]
            return it.call_fn(did, args)
        return super().call(it, name, f, args_e, env, e)


def tag_values(F, fid, watch, const_names, const_domain):
    """all values the local `watch` can take in `fid` for the const parameter values in const_domain.
    returns (dict consts->tag path, error)"""
    out = {}
    for combo in itertools.product(*[const_domain[c] for c in const_names]):
        consts = dict(zip(const_names, combo))
        from lib.interp import Oracle
        oracle = Oracle()
        vals = set()
        while True:
            oracle.start()
            d = TagDomain(F, tables.BDD)
            it = TagInterp(F, d, oracle)
            it.watch = watch
            h = F.hir[fid]
            env = {"$consts": consts, "$fn": fid}
            for p in h["params"]:
                if p.get("k") == "bind":
                    env[p["n"]] = Opaque(p["n"])
            try:
                it.ev(h["body"], env)
                return None, "local `%s` is never bound in %s" % (watch, fid)
            except Found as fnd:
                v = fnd.v
                if not isinstance(v, Enum):
                    return None, "tag computation yields %r" % (v,)
                vals.add(v.path)
            except Panic:
                pass    # invalid combination of const parameters (rejected at compile time / assert)
            except (Unrecognised, Beyond) as u:
                return None, "UNRECOGNISED-SHAPE in the tag computation of %s: %s" % (fid, u)
            except Return:
                pass
            if not oracle.next():
                break
        if len(vals) > 1:
            return None, "tag of %s depends on run-time outcomes: %s" % (fid, sorted(vals))
        if vals:
            out[combo] = vals.pop()
    return out, None


def run(ctx, F, rule="E-CACHE", crates=("oxidd_rules_",)):
    """returns number of cache-using functions examined"""
    users = {}
    for fid, h in sorted(F.hir.items()):
        if not any(fid.startswith(c) for c in crates):
            continue
        gets, adds = [], []
        for c in H.calls(h["body"]):
            if c["k"] == "mcall" and (c.get("m") or "").startswith(CACHE):
                nm = c["m"].split("::")[-1]
                if nm.startswith("get"):
                    gets.append(c)
                elif nm.startswith("add"):
                    adds.append(c)
        if gets or adds:
            users[fid] = (h, gets, adds)
    tagsets = {}   # crate module -> {fid: set(tags)}
    for fid, (h, gets, adds) in users.items():
        nice = F.nice(fid)
        where = "%s (%s)" % (nice, F.where(fid))
        al = H.let_aliases(h["body"])
        # ---- 1. pairing ---------------------------------------------------------------------
        ok = len(gets) == 1 and len(adds) >= 1
        detail = ""
        gkey = None
        if not ok:
            detail = "%s has %d cache lookups and %d insertions (expected one lookup and at least one insertion)" \
                     % (where, len(gets), len(adds))
        else:
            g = gets[0]
            gkey = (desc(g["a"][1]), desc(g["a"][2]))
            lal = lid_aliases(h["body"])
            gk = (kdesc(g["a"][1], lal), kdesc(g["a"][2], lal))
            for a in adds:
                akey = (desc(a["a"][1]), desc(a["a"][2]))
                ak = (kdesc(a["a"][1], lal), kdesc(a["a"][2], lal))
                if akey != gkey:
                    ok = False
                    detail = ("%s looks up the apply cache under key %r (line %s) but inserts under %r (line %s): "
                              "a result memoised for one key is served for another"
                              % (where, gkey, g.get("ln"), akey, a.get("ln")))
                elif ak != gk:
                    ok = False
                    diff = sorted({_strip(x) for x, y in zip(_flat(ak), _flat(gk)) if x != y})
                    detail = ("%s looks up the apply cache under key %r (line %s) and inserts under a key that reads the same (line %s), but "
                              "%s there is a later binding that shadows the looked-up operand: the result is filed under another key"
                              % (where, gkey, g.get("ln"), a.get("ln"), ", ".join("`%s`" % d for d in diff)))
        ctx.ob(rule + ".pair", "%s.pair:%s" % (rule, nice), ok, detail or "%s: get/add keys agree: %r" % (where, gkey))
        if not gets or not adds:
            continue
        # ---- 2. memoised value is the returned value ---------------------------------------------
        a = adds[-1]
        val = a["a"][3] if len(a["a"]) > 3 else None
        vdesc = desc(val) if val else None
        if isinstance(vdesc, tuple):       # add_extended: (&[h.borrowed()], &[])
            vdesc = vdesc[0]
        if isinstance(vdesc, list):
            vdesc = vdesc[0] if vdesc else None
        tail = h["body"].get("e")
        for blk in H.walk(h["body"]):
            if blk.get("k") == "block" and any(st.get("e") is a for st in blk["s"]):
                tail = blk.get("e")
        tdesc = None
        if tail and tail.get("k") == "call" and tail["a"]:
            tdesc = H.root_local(tail["a"][0])
        elif tail:
            tdesc = H.root_local(tail)
        okv = vdesc is not None and vdesc == tdesc
        ctx.ob(rule + ".value", "%s.value:%s" % (rule, nice), okv,
               ("%s memoises `%s` but returns `%s`" % (where, vdesc, tdesc)) if not okv else
               "%s memoises the value it returns (`%s`)" % (where, vdesc))
        # ---- 3. tags ----------------------------------------------------------------------------
        opd = gkey[0] if gkey else desc(gets[0]["a"][1])
        mod = fid.rsplit("::", 1)[0]
        if isinstance(opd, str) and opd.startswith("tag:"):
            tagsets.setdefault(mod, {})[fid] = {opd[4:]}
        else:
            # variable tag
            r = F.fns.get(fid, {})
            cnames = [g["n"] for g in r.get("generics", []) if g["k"] == "const"]
            # domains of the const parameters: discriminants of the op enum of this module (u8), or -1/0/1 for i8 VAL
            opadt = None
            for aid, ad in F.adts.items():
                if aid.startswith(mod.rsplit("::apply_rec", 1)[0] + "::") and aid.endswith("Op") and ad["kind"] == "Enum":
                    opadt = ad
            dom = {}
            for cn in cnames:
                if cn == "VAL":
                    dom[cn] = [-1, 0, 1]
                else:
                    dom[cn] = [int(v["discr"]) for v in opadt["variants"]] if opadt else []
            src = tag_source(h, opd)
            if src == "terminal_bin":
                # the tag travels through terminal_bin's Binary(op, ..): E-TABLE checks op == OP
                if opadt:
                    binops = {v["n"] for v in opadt["variants"]}
                tagsets.setdefault(mod, {})[fid] = {"<binary operators via terminal_bin>"}
                ctx.ob(rule + ".tag", "%s.tag:%s" % (rule, nice), True,
                       "%s: tag is the operator returned by terminal_bin (checked by E-TABLE)" % where)
                continue
            vals, err = tag_values(F, fid, opd, cnames, dom)
            if err:
                ctx.ob(rule + ".tag", "%s.tag:%s" % (rule, nice), False, err)
                continue
            inj = len(set(vals.values())) == len(vals)
            ctx.ob(rule + ".tag", "%s.tag:%s" % (rule, nice), inj and bool(vals),
                   ("%s: the tag computation maps %d const-parameter combinations to %d tags (not injective): %r"
                    % (where, len(vals), len(set(vals.values())), vals)) if not inj else
                   "%s: tag computation injective over %d combinations" % (where, len(vals)))
            # name consistency
            if opadt:
                names = {int(v["discr"]): v["n"] for v in opadt["variants"]}
                for combo, tag in vals.items():
                    exp = expected_tag_name(cnames, combo, names)
                    if exp is not None:
                        okn = tag.split("::")[-1] in exp
                        ctx.ob(rule + ".tagname", "%s.tagname:%s:%s" % (rule, nice, "/".join(map(str, combo))), okn,
                               "%s: for %s the cache tag is %s, expected one of %s"
                               % (where, dict(zip(cnames, [names.get(c, c) for c in combo])), tag.split("::")[-1], exp))
            tagsets.setdefault(mod, {})[fid] = set(vals.values())
    # ---- disjointness ------------------------------------------------------------------------------
    for mod, m in sorted(tagsets.items()):
        fids = sorted(m)
        for i, a in enumerate(fids):
            for b in fids[i + 1:]:
                common = m[a] & m[b]
                ctx.ob(rule + ".own", "%s.own:%s|%s" % (rule, F.nice(a), F.nice(b)), not common,
                       ("%s and %s both cache under tag(s) %s" % (F.nice(a), F.nice(b), sorted(common))) if common
                       else "disjoint tag sets", nontrivial=False)
    return len(users)


QN = {"And": "Forall", "Or": "Exists", "Xor": "Unique", "Forall": "Forall", "Exists": "Exist", "Unique": "Unique"}


def expected_tag_name(cnames, combo, names):
    """name-consistency of computed tags: quantifier Q -> Forall/Exists/Unique, (Q, OP) -> <Q><OP>, VAL -> Subset0/1/Change"""
    vs = [names.get(c, c) for c in combo]
    if cnames == ["VAL"]:
        return [{-1: "Change", 0: "Subset0", 1: "Subset1"}[combo[0]]]
    if cnames == ["Q"]:
        q = vs[0]
        return [{"And": "Forall", "Or": "Exists", "Xor": "Unique"}.get(q, q)]
    if cnames == ["Q", "OP"]:
        q, op = vs
        qs = {"And": ["Forall"], "Or": ["Exists"], "Xor": ["Unique"], "Forall": ["Forall"], "Exists": ["Exists", "Exist"],
              "Unique": ["Unique"]}.get(q)
        if qs is None:
            return None
        op = {"UniqueNand": "Nand"}.get(op, op)
        return [x + op for x in qs]
    return None


def tag_source(h, name):
    """is local `name` bound by destructuring terminal_bin's result?"""
    for n in H.walk(h["body"]):
        if n.get("k") == "slet" and "e" in n:
            names = [b["n"] for b in H.walk(n["p"]) if b.get("k") == "bind"]
            if name in names:
                for c in H.calls(n["e"]):
                    if H.callee(c).endswith("::terminal_bin"):
                        return "terminal_bin"
                return "other"
    return None


# ---- hit path == miss path ---------------------------------------------------------------------------
def sym(e, env):
    """symbolic, line-free rendering of an expression with let-bound locals expanded"""
    if not isinstance(e, dict):
        return "?"
    k = e.get("k")
    if k == "path":
        if e.get("res") == "local":
            return env.get(e["n"], e["n"])
        return (e.get("did") or e.get("n") or "?").split("::")[-1]
    if k in ("ref", "use", "cast"):
        return sym(e["e"], env)
    if k == "un":
        return sym(e["e"], env) if e["o"] == "*" else "%s%s" % (e["o"], sym(e["e"], env))
    if k == "lit":
        return e["v"]
    if k == "bin":
        return "(%s %s %s)" % (sym(e["l"], env), e["o"], sym(e["r"], env))
    if k == "mcall":
        if e.get("m") in ("oxidd_core::Edge::borrowed", "std::borrow::Borrow::borrow", "std::ops::Deref::deref") \
                or e["name"] in ("borrowed", "into_edge"):
            return sym(e["r"], env)
        return "%s.%s(%s)" % (sym(e["r"], env), e["name"], ", ".join(sym(a, env) for a in e["a"]))
    if k == "call":
        f = e["f"]
        fn = (f.get("n") or "?") if f.get("k") == "path" else "?"
        args = [sym(a, env) for a in e["a"]]
        if fn.endswith("EdgeDropGuard::<'a, M>::new") and len(args) == 2:
            return args[1]
        if f.get("res") == "ctor" and fn.split("::")[-1] in ("Ok", "Some") and len(args) == 1:
            return args[0]
        return "%s(%s)" % (fn.split("::")[-1], ", ".join(args))
    if k == "match" and e.get("src", "").startswith("TryDesugar"):
        inner = e["e"]
        if inner.get("k") == "call" and inner.get("a"):
            return sym(inner["a"][0], env)
    if k == "if":
        return "if(%s){%s}else{%s}" % (sym(e["c"], env), sym(e["t"], env), sym(e.get("e", {}), env))
    if k == "block":
        env2 = dict(env)
        for s in e["s"]:
            if s["k"] == "slet" and "e" in s and s["p"].get("k") == "bind":
                env2[s["p"]["n"]] = sym(s["e"], env2)
        return sym(e["e"], env2) if "e" in e else "()"
    if k == "tup":
        return "(%s)" % ", ".join(sym(a, env) for a in e["a"])
    if k == "array":
        return "[%s]" % ", ".join(sym(a, env) for a in e["a"])
    if k == "field":
        return "%s.%s" % (sym(e["e"], env), e["n"])
    return "<%s>" % k


def check_hit_equals_miss(ctx, F, rule="E-CACHE.hit", crates=("oxidd_rules_",)):
    """the value returned on a cache hit is the same function of the cached value as the value returned on the
    miss path is of the value being inserted"""
    n = 0
    for fid, h in sorted(F.hir.items()):
        if not any(fid.startswith(c) for c in crates):
            continue
        # find `if let Some(x) = <..>.get*(..) { ...; return Ok(E) }`
        hit = None
        for node in H.walk(h["body"]):
            if node.get("k") == "if" and node["c"].get("k") == "let":
                init = node["c"]["e"]
                if init.get("k") == "mcall" and (init.get("m") or "").startswith(CACHE + "get"):
                    binds = [b["n"] for b in H.walk(node["c"]["p"]) if b.get("k") == "bind"]
                    hit = (node, binds)
        if hit is None:
            continue
        node, binds = hit
        if len(binds) != 1:
            continue
        env = {binds[0]: "$c"}
        then = node["t"]
        hs = None
        if then.get("k") == "block":
            for s in then["s"]:
                if s["k"] == "slet" and "e" in s and s["p"].get("k") == "bind":
                    env[s["p"]["n"]] = sym(s["e"], env)
                elif s["k"] in ("semi", "expr") and s["e"].get("k") == "ret" and "e" in s["e"]:
                    hs = sym(s["e"]["e"], env)
            if hs is None and "e" in then:
                t = then["e"]
                hs = sym(t["e"], env) if t.get("k") == "ret" and "e" in t else sym(t, env)
        if hs is None:
            continue
        # the block containing the add call
        add = None
        for blk in H.walk(h["body"]):
            if blk.get("k") != "block":
                continue
            for idx, st in enumerate(blk["s"]):
                e = st.get("e")
                if isinstance(e, dict) and e.get("k") == "mcall" and (e.get("m") or "").startswith(CACHE + "add"):
                    add = (blk, idx, e)
        if add is None:
            continue
        blk, idx, ecall = add
        env2 = {}
        # lets bound before the lookup stay symbolic on both paths
        hit_idx = -1
        for j, st in enumerate(blk["s"]):
            if st.get("e") is node:
                hit_idx = j
        v = None
        for j, st in enumerate(blk["s"]):
            if j > hit_idx and st["k"] == "slet" and "e" in st and st["p"].get("k") == "bind":
                env2[st["p"]["n"]] = sym(st["e"], env2)
            if j == idx:
                val = ecall["a"][3] if len(ecall["a"]) > 3 else None
                if val is None:
                    break
                vs = sym(val, env2)
                # add_extended: (&[h.borrowed()], &[])
                m_ = vs
                if vs.startswith("([") and "]" in vs:
                    m_ = vs[2:vs.index("]")]
                v = m_
        if v is None or "e" not in blk:
            continue
        r = sym(blk["e"], env2)
        n += 1
        want = hs.replace("$c", v)
        nice = F.nice(fid)
        ctx.ob(rule, "%s:%s" % (rule, nice), want == r,
               "%s (%s): on a cache hit the function returns `%s` of the cached value, but on the miss path it caches "
               "`%s` and returns `%s`: a later hit yields a different value than the call that created the entry"
               % (nice, F.where(fid), hs, _short(v), _short(r)) if want != r else
               "%s: hit and miss paths return the same function of the cached value (%s)" % (nice, _short(hs)))
    return n


def _short(s, n=160):
    return s if len(s) <= n else s[:n] + "..."
