"""Substrate rules shared by the operation properties.

Every operation of the rules crates computes over reference-counted, hash-consed nodes and memoises in the apply
cache.  Two groups of rules are therefore necessary conditions of *every* "the operation returns the right function"
property, not only of the properties about the store itself:

  live     a node that is still referenced is never freed (a dangling edge reads another function later):
           E-LIN.mint (owned edges are created with a count), E-LIN.rcconst (free thresholds), E-LIN.forget
           (removal paths release exactly once), E-EVENT gc sweep order;
  fresh    no memoised result outlives the nodes it mentions: E-CACHE.dm (every entry cleared in pre_gc /
           pre_reorder, all key parts compared), E-EVENT (gc / reorder brackets and epoch bumps of both managers).
"""
import edm
import ekey
import eevent
import elin
import evlm
import edef
import eptr
import eidx
import ereduce
import ecanon
import ecount


def run(ctx, F, dm=True):
    ctx.explain("Substrate (necessary for every operation property): live -- owned edges are created with a reference count "
                "(E-LIN.mint), nodes are freed only at the reviewed count thresholds (E-LIN.rcconst), removal paths release "
                "exactly once (E-LIN.forget); fresh -- apply-cache entries never survive a collection or reordering "
                "(E-CACHE.dm) and both managers bracket gc / reorder and bump the epoch (E-EVENT).")
    n = elin.check_mint(ctx, F)
    ctx.floor("E-LIN.mint", "edge-creating functions inventoried", n, 22)
    n = elin.check_rc_thresholds(ctx, F)
    ctx.floor("E-LIN.rcconst", "reference-count comparisons inventoried", n, 11)
    elin.check_forget(ctx, F)
    if dm:
        edm.run(ctx, F)
        ekey.run(ctx, F)
    eevent.check_manager(ctx, F, "oxidd_manager_index")
    eevent.check_manager(ctx, F, "oxidd_manager_pointer")
    ctx.explain("E-VLM: the managers' variable <-> level maps (read by every var_to_level / level_to_var) stay mutually inverse: "
                "extend appends the identity, swap_levels exchanges exactly two levels in both vectors, lookups read their own "
                "vector; the two managers' copies are the same program.")
    n = evlm.run(ctx, F)
    ctx.floor("E-VLM", "interpreted VarLevelMap situations", n, 38)
    ctx.explain("E-TABLE.reduce: the step rules take `reduce` as a builtin that yields the reduced node: all 12 reduce functions "
                "of the five kinds are interpreted over their abstract child domain. E-TABLE.defaults: BooleanOperator::from_usize "
                "is the inverse of `as usize`; satisfiable / valid compare with the false / true terminal; NumberBase::is_zero / "
                "is_one / is_nan are equalities with the constants. E-LIN.rcguard / E-CANON.idsplit / .ptrsplit: a node leaves its "
                "table only with the three guards passed; terminals and inner nodes are told apart without off-by-one / flipped tests.")
    n = ereduce.run(ctx, F)
    ctx.floor("E-TABLE.reduce", "abstract situations of the reduce functions", n, 400)
    n = edef.run(ctx, F)
    ctx.floor("E-TABLE.defaults", "interpreted default-method situations", n, 29)
    n = elin.check_removal_guards(ctx, F)
    ctx.floor("E-LIN.rcguard", "try_remove_node bodies", n, 2)
    ecanon.check_id_split(ctx, F)
    n = eptr.run(ctx, F)
    ctx.floor("E-PTR.tagbits", "interpreted mask / accessor situations", n, 11)
    n = eidx.run(ctx, F)
    ctx.floor("E-IDX.tagbits", "interpreted constant / accessor situations", n, 18)
    ecount.run(ctx, F, ("oxidd_rules_bdd", "oxidd_rules_zbdd", "oxidd_rules_mtbdd", "oxidd_rules_tdd", "oxidd_core", "oxidd_cache"))
    n = ecanon.check_ptr_split(ctx, F)
    ctx.floor("E-CANON.ptrsplit", "is_inner() branches of the pointer-based manager", n, 6)
