"""E-DDDMP: writer/reader agreement of the DDDMP codec as finite tables (DESIGN 4 C15).

  keys    every header key the exporter can emit is accepted by the reader's `match`;
  bytes   every byte the reader treats as a separator inside a name list (or as a line terminator) is replaced
          by the writer's name sanitisers; the two name sanitisers replace the same class of bytes;
  escape  the byte-escape table of `write_escaped` and the table of `read_unescape` are mutually inverse;
  code    `node_code` (bit layout of the binary node byte) and the reader's shifts/masks are mutually inverse for
          all 128 code combinations; `Code::from(u8)` inverts `Code as u8`.
All are finite constant tables, extracted from HIR and evaluated exhaustively.
"""
import itertools
import re

import tables
from lib import hirutil as H
from lib.interp import Enum, Interp, Opaque, Panic, Return, Unrecognised
from tables import DDDomain

EXP = "oxidd_dump::dddmp::export::"
IMP = "oxidd_dump::dddmp::import::"


class ByteDomain(DDDomain):
    def __init__(self, F):
        super().__init__(F, tables.BDD)

    def method(self, it, m, e, env):
        name = m.rsplit("::", 1)[-1]
        if "impl u8" in m or "<impl u8>" in m or m.startswith("core::num::") or m.startswith("std::"):
            r = it.recv(e, env)
            if isinstance(r, int) and not isinstance(r, bool):
                if name == "is_ascii_control":
                    return r < 32 or r == 127
                if name == "is_ascii_whitespace":
                    return r in (9, 10, 12, 13, 32)
                if name == "is_ascii":
                    return r < 128
                if name == "is_ascii_graphic":
                    return 33 <= r <= 126
                if name == "is_ascii_digit":
                    return 48 <= r <= 57
                if name == "is_ascii_alphanumeric":
                    return chr(r).isalnum() and r < 128
                if name == "is_ascii_punctuation":
                    return (33 <= r <= 47) or (58 <= r <= 64) or (91 <= r <= 96) or (123 <= r <= 126)
        return super().method(it, m, e, env)

    def call(self, it, name, f, args_e, env, e):
        did = f.get("did", "")
        if f.get("dk") == "AssocFn" and f.get("item") == "from" and f.get("trait") in ("std::convert::From", "core::convert::From"):
            # Code::from(u8): interpret the impl in oxidd_dump::dddmp
            for fid, r in self.F.fns.items():
                imp = r.get("impl") or {}
                if fid.startswith("oxidd_dump::dddmp::") and fid.endswith("::from") and imp.get("self", "").endswith("dddmp::Code") \
                        and imp.get("trait") == "std::convert::From":
                    return it.call_fn(fid, [it.ev(a, env) for a in args_e])
        return super().call(it, name, f, args_e, env, e)


def cond_bytes(F, cond, names):
    """set of byte values for which the condition holds (all locals in `names` stand for the byte)"""
    out = set()
    for b in range(256):
        it = Interp(F, ByteDomain(F))
        env = {n: b for n in names}
        env["$consts"] = {}
        try:
            if it.cond(cond, env) is True:
                out.add(b)
        except (Unrecognised, Panic) as u:
            raise Unrecognised("predicate not evaluable for byte %d: %s" % (b, u))
    return out


def sanitiser_predicates(F, fid):
    """`if` conditions in `fid` that test a byte with is_ascii_control (the sanitising predicates)"""
    h = F.hir.get(fid)
    out = []
    if not h:
        return out
    for n in H.walk(h["body"]):
        if n.get("k") == "if":
            c = n["c"]
            ms = [x for x in H.walk(c) if x.get("k") == "mcall" and x["name"].startswith("is_ascii")]
            if ms:
                locs = {x["n"] for x in H.walk(c) if x.get("k") == "path" and x.get("res") == "local"}
                out.append((c, locs, n.get("ln")))
    return out


def run(ctx, F, rule="E-DDDMP"):
    # ---- keys ------------------------------------------------------------------------------------------------
    exp_keys = set()
    for fid, h in F.hir.items():
        if fid.startswith(EXP):
            for s in H.string_literals(h["body"]):
                for m in re.finditer(r"(?:^|[^\x20-\x7e])(\.[a-z]{2,})", s):
                    exp_keys.add(m.group(1))
    acc = set()
    for fid, h in F.hir.items():
        if fid.startswith(IMP):
            for n in H.walk(h["body"]):
                if n.get("k") == "lit" and n.get("t") in ("bstr", "str") and re.fullmatch(r"\.[a-z]+", n["v"]):
                    acc.add(n["v"])
    ctx.floor(rule + ".keys", "header keys emitted by the exporter", len(exp_keys), 15)
    ctx.floor(rule + ".keys", "header keys accepted by the reader", len(acc), 15)
    for k in sorted(exp_keys):
        ctx.ob(rule + ".keys", "%s.keys:%s" % (rule, k), k in acc,
               "the exporter emits the header key `%s` but the reader's key table does not accept it: every exported "
               "file would be rejected" % k)
    # ---- bytes -------------------------------------------------------------------------------------------------
    seps = set()
    h = F.hir.get(IMP + "parse_str_list")
    if ctx.anchor(rule, "import::parse_str_list", h is not None):
        for c in H.calls(h["body"]):
            if H.callee(c).endswith("memchr2_iter") or H.callee(c).endswith("memchr_iter") or H.callee(c).endswith("memchr3_iter"):
                for a in c["a"]:
                    if a.get("k") == "lit" and a.get("t") == "byte":
                        seps.add(int(a["v"]))
    line_terms = set()
    for fid, h2 in F.hir.items():
        if fid.startswith(IMP):
            for c in H.calls(h2["body"]):
                if c["k"] == "mcall" and c["name"] == "read_until" and c["a"] and c["a"][0].get("k") == "lit":
                    line_terms.add(int(c["a"][0]["v"]))
    ctx.ob(rule + ".bytes", rule + ".bytes:reader-separators", bool(seps) and bool(line_terms),
           "could not extract the reader's separator bytes (name lists: %s, lines: %s)" % (sorted(seps), sorted(line_terms)))
    need = seps | line_terms | {13}
    classes = {}
    for label, fid in (("variable names", EXP + "replace_space_and_control"),):
        preds = sanitiser_predicates(F, fid)
        if ctx.anchor(rule, fid, bool(preds)):
            try:
                W = set()
                for c, locs, ln in preds:
                    W |= cond_bytes(F, c, locs)
                classes[label] = W
                miss = sorted(need - W)
                ctx.ob(rule + ".bytes", "%s.bytes:%s" % (rule, label), not miss,
                       "%s (%s) replaces the bytes %s... but not %s, which the reader treats as separators in name "
                       "lists / line ends: a name containing one is written as two names (or a broken line) and the "
                       "importer rejects or misreads the file" % (fid, F.where(fid), sorted(W)[:6], miss))
            except Unrecognised as u:
                ctx.ob(rule + ".bytes", "%s.bytes:%s" % (rule, label), False, "UNRECOGNISED-SHAPE: %s" % u)
    # root names: the sanitising loop lives in an `export_with_names*` method
    root_fids = [fid for fid in F.hir if fid.startswith(EXP) and "export_with_names" in fid and sanitiser_predicates(F, fid)]
    if ctx.anchor(rule, "root-name sanitiser in export_with_names", bool(root_fids)):
        for fid in root_fids:
            try:
                W = set()
                for c, locs, ln in sanitiser_predicates(F, fid):
                    W |= cond_bytes(F, c, locs)
                classes.setdefault("root names", set()).update(W)
                miss = sorted(need - W)
                ctx.ob(rule + ".bytes", "%s.bytes:root names:%s" % (rule, F.nice(fid)), not miss,
                       "%s (%s) does not replace the separator bytes %s in function names" % (F.nice(fid), F.where(fid), miss))
            except Unrecognised as u:
                ctx.ob(rule + ".bytes", "%s.bytes:root names:%s" % (rule, F.nice(fid)), False, "UNRECOGNISED-SHAPE: %s" % u)
    if "variable names" in classes and "root names" in classes:
        ctx.ob(rule + ".bytes", rule + ".bytes:siblings", classes["variable names"] == classes["root names"],
               "the variable-name sanitiser and the function-name sanitiser replace different byte classes: only in "
               "variable names %s, only in function names %s"
               % (sorted(classes["variable names"] - classes["root names"]), sorted(classes["root names"] - classes["variable names"])))
    preds = sanitiser_predicates(F, EXP + "write_replacing_control")
    if ctx.anchor(rule, EXP + "write_replacing_control", bool(preds)):
        try:
            W = set()
            for c, locs, ln in preds:
                W |= cond_bytes(F, c, locs)
            miss = sorted((line_terms | {13}) - W)
            ctx.ob(rule + ".bytes", rule + ".bytes:dd-name", not miss,
                   "write_replacing_control (.dd field) does not replace the line terminators %s" % miss)
        except Unrecognised as u:
            ctx.ob(rule + ".bytes", rule + ".bytes:dd-name", False, "UNRECOGNISED-SHAPE: %s" % u)
    # ---- escape table ---------------------------------------------------------------------------------------------
    enc = {}
    h = F.hir.get(EXP + "write_escaped")
    if ctx.anchor(rule, EXP + "write_escaped", h is not None):
        for n in H.walk(h["body"]):
            if n.get("k") == "match" and n.get("src", "").startswith("Normal"):
                for arm in n["arms"]:
                    if arm["p"].get("k") == "lit":
                        key = int(arm["p"]["v"])
                        arr = [x for x in H.walk(arm["b"]) if x.get("k") == "array"]
                        if arr:
                            enc[key] = [int(x["v"]) for x in arr[0]["a"] if x.get("k") == "lit"]
    dec = {}
    intro = None
    h = F.hir.get(IMP + "read_unescape")
    if ctx.anchor(rule, IMP + "read_unescape", h is not None):
        matches = [n for n in H.walk(h["body"]) if n.get("k") == "match" and n.get("src", "").startswith("Normal")]
        for mi, n in enumerate(matches):
            for arm in n["arms"]:
                lits = [x for x in H.walk(arm["p"]) if x.get("k") == "lit"]
                if len(lits) != 1:
                    continue
                key = int(lits[0]["v"])
                blits = [x for x in H.walk(arm["b"]) if x.get("k") == "lit" and x.get("t") == "int"]
                if mi == 0 and not blits:
                    intro = key
                elif blits and arm["b"].get("k") == "call":
                    dec[key] = int(blits[0]["v"])
    ok = bool(enc) and bool(dec) and intro is not None
    detail = "tables not found (enc=%s dec=%s introducer=%s)" % (enc, dec, intro)
    if ok:
        bad = []
        for k, seq in sorted(enc.items()):
            if len(seq) != 2 or seq[0] != intro or dec.get(seq[1]) != k:
                bad.append("%#x -> %s decodes to %s" % (k, seq, dec.get(seq[1]) if len(seq) == 2 else "?"))
        extra = sorted(set(dec) - {seq[1] for seq in enc.values() if len(seq) == 2})
        if intro not in enc:
            bad.append("the escape introducer %#x is not escaped itself" % intro)
        if extra:
            bad.append("the reader accepts escape codes %s the writer never produces" % extra)
        ok = not bad
        detail = "; ".join(bad)
    ctx.ob(rule + ".escape", rule + ".escape:inverse", ok,
           "write_escaped / read_unescape are not mutually inverse: %s" % detail if not ok else
           "escape tables are mutually inverse over %d escaped bytes" % len(enc))
    # ---- node code layout -------------------------------------------------------------------------------------------
    fid_nc = EXP + "export_common::node_code"
    code_adt = F.adts.get("oxidd_dump::dddmp::Code")
    if ctx.anchor(rule, fid_nc, fid_nc in F.hir) and ctx.anchor(rule, "dddmp::Code", code_adt is not None):
        variants = [Enum("oxidd_dump::dddmp::Code::" + v["n"]) for v in code_adt["variants"]]
        # the reader's four extraction statements: consecutive lets over one local with shifts/masks
        dec_stmts = None
        for fid, h2 in F.hir.items():
            if not fid.startswith(IMP):
                continue
            for blk in H.walk(h2["body"]):
                if blk.get("k") != "block":
                    continue
                run_ = []
                for st in blk["s"]:
                    if st["k"] == "slet" and "e" in st and st["p"].get("k") == "bind":
                        ops = [x for x in H.walk(st["e"]) if x.get("k") == "bin" and x["o"] in (">>", "&")]
                        locs = {x["n"] for x in H.walk(st["e"]) if x.get("k") == "path" and x.get("res") == "local"}
                        if ops and len(locs) == 1:
                            run_.append((st, next(iter(locs))))
                            continue
                    if len(run_) >= 4:
                        break
                    run_ = []
                if len(run_) >= 4 and len({l for _, l in run_[:4]}) == 1:
                    dec_stmts = run_[:4]
        if ctx.anchor(rule, "reader's node-code extraction (4 lets with shifts/masks)", dec_stmts is not None):
            bad = []
            n = 0
            try:
                for var, t, c, e in itertools.product(variants, variants, (False, True), variants):
                    it = Interp(F, ByteDomain(F))
                    byte = it.call_fn(fid_nc, [var, t, c, e])
                    if not isinstance(byte, int) or not (0 <= byte < 256):
                        bad.append("node_code(%s,%s,%s,%s) = %r" % (var, t, c, e, byte))
                        continue
                    got = []
                    for st, loc in dec_stmts:
                        it2 = Interp(F, ByteDomain(F))
                        got.append(it2.ev(st["e"], {loc: byte, "$consts": {}, "$fn": ""}))
                    n += 1
                    if got != [var, t, c, e]:
                        bad.append("node_code(%s,%s,%s,%s)=%#x is read back as %s" % (var.short, t.short, c, e.short, byte, got))
            except (Unrecognised, Panic) as u:
                bad.append("UNRECOGNISED-SHAPE: %s" % u)
            ctx.ob(rule + ".code", rule + ".code:inverse", not bad and n == 128,
                   "binary node code: writer layout and reader extraction disagree: %s" % "; ".join(bad[:3]) if bad else
                   "node_code and the reader's shifts/masks are mutually inverse for all %d combinations" % n)


def check_strict_sortedness(ctx, F, rule="E-DDDMP.strict"):
    """The importer validates id lists (.ids, the support-variable level map) as *strictly* ascending: a duplicate id
    is malformed input and must be rejected by the header check -- later code takes one name / one level per id
    (`next().unwrap()`, `assert!`), so a duplicate that slips through is a panic instead of an error.  Every
    sortedness predicate in dddmp::import is evaluated on two equal neighbours and must answer `false`
    (`is_sorted()` / `is_sorted_by_key` are non-strict by definition)."""
    from lib.interp import Interp, Oracle, Unrecognised
    import tables
    n = 0
    for fid, h in sorted(F.hir.items()):
        if not fid.startswith(IMP):
            continue
        for c in H.walk(h["body"]):
            if c.get("k") != "mcall" or "is_sorted" not in (c.get("m") or ""):
                continue
            n += 1
            m = c["m"].rsplit("::", 1)[-1]
            strict = False
            why = "`%s` accepts equal neighbours" % m
            if m == "is_sorted_by" and c.get("a") and c["a"][0].get("k") == "closure":
                cl = c["a"][0]
                try:
                    it = Interp(F, tables.DDDomain(F, tables.BDD), Oracle())
                    it.oracle.start()
                    env = {}
                    for p in cl["params"]:
                        if not it.match(p, 7, env):
                            raise Unrecognised("closure parameter")
                    strict = it.ev(cl["body"], env) is False
                    why = "its comparison accepts equal neighbours"
                except Exception as e:   # noqa: BLE001 -- an unrecognised predicate fails closed below
                    why = "its comparison could not be evaluated (%s)" % e
            ctx.ob(rule, "%s:%s:%s" % (rule, F.nice(fid), m), strict,
                   "%s (%s, line %s): %s" % (F.nice(fid), F.where(fid), c.get("ln"),
                                              "sortedness check rejects duplicates" if strict else
                                              "sortedness check of an id list is not strict: %s, so a file with a duplicate id "
                                              "passes the header validation" % why))
    return n


HEADER_UNITS = {".ids": "VarNo", ".permids": "LevelNo"}


def check_header_units(ctx, F, rule="E-DDDMP.fields"):
    """The DDDMP header lists, per support variable, its variable index under `.ids` and its level under `.permids`
    (the importer reads them that way).  In the exporter the numbers interpolated into the lines that follow each key
    are traced with the unit analysis: what is printed under `.ids` must be a variable number, under `.permids` a level
    number (loop counters take the unit of the manager queries / level-keyed sets they are used with)."""
    import eunits
    fids = [f for f in F.hir if f.startswith("oxidd_dump::dddmp::export::") and f.endswith("export_common")]
    if not ctx.anchor(rule, "oxidd_dump::dddmp::export::export_common", len(fids) == 1):
        return 0
    fid = fids[0]
    u = eunits.Units(F, fid, lambda *a, **k: None)
    u.run()
    key = None
    seen = {}
    n = 0
    for ev in u.fmt_events:
        if ev[0] == "lit":
            txt = ev[2] or ""
            if txt.startswith("."):
                key = txt.split()[0]
            continue
        if key in HEADER_UNITS:
            for nm, unit in ev[2]:
                n += 1
                want = HEADER_UNITS[key]
                ok = unit == want
                seen[key] = seen.get(key, True) and ok
                ctx.ob(rule, "%s:%s" % (rule, key), ok,
                       "export_common (%s, line %s): under `%s` the exporter prints `%s`, %s" %
                       (F.where(fid), ev[1], key, nm,
                        "a %s" % want if ok else
                        "which is %s -- the importer reads this field as a %s, the two coincide only under the identity order"
                        % ("a " + unit if isinstance(unit, str) else "not derived from a manager query (no unit)", want)))
    for k in HEADER_UNITS:
        ctx.ob(rule, "%s:%s:present" % (rule, k), k in seen, "header field %s %s" % (k, "written" if k in seen else
               "is not written with an interpolated number any more"), nontrivial=False)
    return n


def check_numbering(ctx, F, rule="E-DDDMP.numbering"):
    """Node and support-variable numbering of the exporter.  The importer requires every child id to be smaller than
    its parent's id and support-variable indices in 0..nsuppvars; the exporter therefore numbers the levels
    bottom-up (`node_map.iter_mut().enumerate().rev()`), counting the support-variable index down from nsuppvars with a
    *pre*-decrement (so the top-most support level gets 0 and the bottom-most nsuppvars - 1)."""
    import eprep
    from lib import hirutil as H
    fids = [f for f in F.hir if f.startswith("oxidd_dump::dddmp::export::") and f.endswith("export_common")]
    if not ctx.anchor(rule, "oxidd_dump::dddmp::export::export_common", len(fids) == 1):
        return 0
    fid = fids[0]
    loops = []
    for n in H.walk(F.hir[fid]["body"]):
        if n.get("k") == "match" and n.get("src", "").startswith("ForLoopDesugar") and \
                ((n.get("e") or {}).get("f") or {}).get("n", "").endswith("into_iter"):
            it = n["e"]["a"][0]
            chain = []
            x = it
            while isinstance(x, dict) and x.get("k") == "mcall":
                chain.append(x.get("name"))
                x = x["r"]
            root = H.root_local(x) if isinstance(x, dict) else None
            if root == "node_map" and "iter_mut" in chain:
                loops.append((n, chain))
    if not ctx.anchor(rule, "the numbering loop over node_map", len(loops) == 1):
        return 0
    loop, chain = loops[0]
    fails = []
    if "rev" not in chain or "enumerate" not in chain or chain.index("rev") > chain.index("enumerate"):
        fails.append("the numbering loop does not walk the levels bottom-up (`enumerate().rev()`): parents would get smaller ids "
                     "than their children, which the importer rejects / misreads")
    _, pat, arm = eprep.loop_parts(loop)
    # order of `X -= 1` and `*var_idx = X` in the loop body
    dec = store = None
    for i, st in enumerate(arm.get("s", [])):
        e = st.get("e") or {}
        if e.get("k") == "assignop" and str(e.get("o", "")).startswith("-") and dec is None:
            dec = (i, H.root_local(e["l"]))
        if e.get("k") == "assign" and (e["l"].get("k") == "un") and store is None:
            store = (i, H.root_local(e["r"]))
    if not (dec and store and dec[1] == store[1]):
        fails.append("cannot find the support-variable counter (`x -= 1; *var_idx = x`) in the numbering loop")
    elif dec[0] > store[0]:
        fails.append("the support-variable index is stored before the counter is decremented: indices run 1..=nsuppvars instead "
                     "of 0..nsuppvars")
    # node ids: `nnodes += 1` before `*idx = nnodes` in every block that numbers nodes (ids 1..=n; 0 marks a terminal's
    # child list in the node table)
    pairs = 0
    for blk in H.walk(F.hir[fid]["body"]):
        if blk.get("k") != "block":
            continue
        inc = st_ = None
        for i, st in enumerate(blk.get("s", [])):
            e = st.get("e") or {}
            if e.get("k") == "assignop" and str(e.get("o", "")).startswith("+") and inc is None:
                inc = (i, H.root_local(e["l"]))
            if e.get("k") == "assign" and e["l"].get("k") == "un" and st_ is None:
                st_ = (i, H.root_local(e["r"]))
        if inc and st_ and inc[1] == st_[1]:
            pairs += 1
            if inc[0] > st_[0]:
                fails.append("a node id is stored before the counter is incremented: ids start at 0, which the format reserves "
                             "(a 0 in a child list marks a terminal)")
    # .nsuppvars counts exactly the levels the numbering loop does not skip
    cnt = None
    for x in H.walk(F.hir[fid]["body"]):
        if x.get("k") == "slet" and (x.get("p") or {}).get("n") == "nsuppvars":
            cnt = x.get("e")
    filt = [y for y in H.walk(cnt or {}) if y.get("k") == "mcall" and y.get("name") == "filter"]
    pred = None
    if len(filt) == 1 and filt[0]["a"] and filt[0]["a"][0].get("k") == "closure":
        pred = filt[0]["a"][0]["body"]
        while pred.get("k") == "block" and not pred.get("s") and "e" in pred:
            pred = pred["e"]
    counts_nonempty = isinstance(pred, dict) and pred.get("k") == "un" and pred.get("o") == "!" and \
        pred["e"].get("k") == "mcall" and pred["e"].get("name") == "is_empty" and \
        any(y.get("k") == "mcall" and y.get("name") == "count" for y in H.walk(cnt or {}))
    skip = None
    for st in arm.get("s", []):
        e = st.get("e") or {}
        if e.get("k") == "if" and any(y.get("k") == "continue" for y in H.walk(e.get("t") or {})):
            skip = e["c"]
            break
    skips_empty = isinstance(skip, dict) and skip.get("k") == "mcall" and skip.get("name") == "is_empty"
    if not (counts_nonempty and skips_empty):
        fails.append("`.nsuppvars` is not the number of levels with nodes (`filter(|(_, m)| !m.is_empty()).count()`) while the "
                     "numbering loop skips `level.is_empty()`: the header count and the `.ids` / `.permids` lists disagree and the "
                     "importer rejects the file")
    if pairs < 2:
        fails.append("expected the two node-numbering blocks (terminals, inner nodes) with `n += 1; *idx = n`, found %d" % pairs)
    ctx.ob(rule, rule, not fails, "export_common (%s): %s" % (F.where(fid), " || ".join(fails) if fails else
                                                             "levels numbered bottom-up from 1, support-variable index pre-decremented"))
    return 1


def check_level_order_checks(ctx, F, rule="E-DDDMP.order"):
    """A node read from a file is only created after its level was compared with the level of every child: the importer
    rejects `level >= child_level` (children must lie strictly below).  Inventory from MIR: in `import_ascii` (1) and
    `import_bin` (2) the comparison between the looked-up level and `child.level()` is `>=`; a weaker `>` accepts a
    node whose child sits on its own level (an ill-formed diagram from a malformed file)."""
    from lib import cfg
    from efreelist import origins
    want = {"import_ascii": 1, "import_bin": 2}
    n = 0
    for fn_, cnt in sorted(want.items()):
        fid = "oxidd_dump::dddmp::import::" + fn_
        m = F.mir.get(fid)
        if not ctx.anchor(rule, fid, m is not None):
            continue
        B = cfg.Body(m)
        found = []
        for i in sorted(B.reach):
            b = m["blocks"][i]
            if b["c"]:
                continue
            for s in b["s"]:
                rv = s.get("rv") or {}
                if rv.get("k") == "bin" and rv.get("o") in ("Eq", "Ne", "Lt", "Le", "Gt", "Ge"):
                    ob = [(cfg.callee_name(o[1]) or "").rsplit("::", 1)[-1] for o in origins(B, m, [rv.get("b")]) if o[0] == "call"]
                    oa = [(cfg.callee_name(o[1]) or "").rsplit("::", 1)[-1] for o in origins(B, m, [rv.get("a")]) if o[0] == "call"]
                    if "level" in ob:
                        found.append(rv["o"])
                    elif "level" in oa:
                        found.append({"Lt": "Gt", "Gt": "Lt", "Le": "Ge", "Ge": "Le"}.get(rv["o"], rv["o"]))
        # every such comparison rejects on its own: from its true edge the node creation (reduce / then_insert) of the
        # same iteration is unreachable (`a || b` -- not `a && b` -- for the two children of a binary record)
        heads = {i for i, t in B.calls() if (cfg.callee_name(t) or "").endswith("::next")}
        creators = {i for i, t in B.calls() if re.search(r"::reduce$|::then_insert$", cfg.callee_name(t) or "")}
        leaks = 0
        for i in sorted(B.reach):
            b = m["blocks"][i]
            t = b["t"]
            if b["c"] or t["k"] != "switch":
                continue
            d = cfg.op_place(t["d"])
            for s in b["s"]:
                rv = s.get("rv") or {}
                if s.get("lhs") == d and rv.get("k") == "bin" and rv.get("o") in ("Ge", "Le", "Gt", "Lt"):
                    os_ = [(cfg.callee_name(o[1]) or "").rsplit("::", 1)[-1] for x in ("a", "b") for o in origins(B, m, [rv.get(x)]) if o[0] == "call"]
                    if "level" in os_:
                        if creators & B.reachable_from(t["o"], avoid=tuple({i} | heads)):
                            leaks += 1
        n += 1
        ok = len(found) == cnt and all(o == "Ge" for o in found) and bool(creators) and not leaks
        if leaks and len(found) == cnt and all(o == "Ge" for o in found):
            ctx.ob(rule, "%s:%s" % (rule, fn_), False,
                   "%s (%s): %d level comparison(s) do not reject on their own -- the node is still created when the comparison holds "
                   "(`&&` instead of `||` between the children's checks?)" % (fn_, F.where(fid), leaks))
            continue
        ctx.ob(rule, "%s:%s" % (rule, fn_), ok,
               "%s (%s): %s" % (fn_, F.where(fid), "rejects level >= child level (%d comparison(s))" % cnt if ok else
                                "the node's level is compared with its children's levels by %r, expected %d x `>=` (reject a child on "
                                "the node's own level or above)" % (found, cnt)))
    return n


def check_strict_mode(ctx, F, rule="E-DDDMP.strictmode"):
    """Names the format cannot carry are sanitised, and *reported only in strict mode*: every `io::Error::new(..)` the
    exporter creates (the InvalidInput errors for diagram, variable and function names) lies on the `true` edge of a test
    of `ExportSettings::strict` and is not reachable from that test's `false` edge without passing the test again.  A
    weakened guard (`strict || ..`, `!strict`) makes the default, non-strict export fail for names it is documented to
    sanitise silently."""
    from lib import cfg
    n = 0
    for fid, m in sorted(F.mir.items()):
        if not fid.startswith(EXP):
            continue
        B = cfg.Body(m)
        blocks = m["blocks"]
        errs = [i for i, t in B.calls() if (cfg.callee_name(t) or "").endswith("io::Error::new") and not blocks[i]["c"]]
        if not errs:
            continue
        tests = []          # (switch block, true successor, false successor)
        for i in sorted(B.reach):
            b = blocks[i]
            t = b["t"]
            if t["k"] != "switch" or b["c"]:
                continue
            d = cfg.op_place(t["d"])
            dl = cfg.place_local(d) if d is not None else None
            if dl is None:
                continue
            src = [s for s in b["s"] if s.get("lhs") == dl and (s.get("rv") or {}).get("k") == "use"]
            if not src:
                continue
            p = cfg.op_place(src[-1]["rv"]["op"])
            if p is None or not any(str(x).startswith(".strict@") for x in cfg.place_proj(p)):
                continue
            zero = [blk for v, blk in t["t"] if int(v) == 0]
            if len(zero) == 1:
                tests.append((i, t["o"], zero[0]))
        for e in errs:
            n += 1
            def without_edge(a, b):
                seen, todo = {0}, [0]
                while todo:
                    x = todo.pop()
                    for y in B.succ[x]:
                        if (x, y) != (a, b) and y not in seen:
                            seen.add(y)
                            todo.append(y)
                return seen
            # every path from the entry to the error passes the true edge of the `strict` test
            guards = [s for s, tr, fa in tests if tr != fa and e in B.reachable_from(tr, avoid=(s,)) and e not in without_edge(s, tr)]
            ctx.ob(rule, "%s:%s:%d" % (rule, F.nice(fid), errs.index(e)), bool(guards),
                   "%s (%s): %s" % (F.nice(fid), F.where(fid), "error creation #%d is reached only through the true edge of a `strict` test" % errs.index(e)
                                    if guards else "the error created at call #%d is reachable without `strict` being set: the non-strict export "
                                    "reports names it is documented to sanitise" % errs.index(e)))
    return n


def check_placeholder_underscores(ctx, F, rule="E-DDDMP.placeholder"):
    """Names the exporter invents (`_x{i}` for unnamed variables, `_x{i}_{name}` for sanitised duplicates) get
    `leading_underscores` underscores in front, one more than any existing variable name starts with -- that is what
    keeps an invented name from colliding with a real one (`.varnames a _x1 _x1` is accepted by the reader and then fails
    in `add_named_vars`).  The loop that computes `leading_underscores` (in the closure that collects the variable
    names) is interpreted over the names "", "a", "_", "_x1", "__x2", "a_b", "___": afterwards the counter exceeds the
    number of leading underscores of every name seen, and it starts at no less than 1."""
    from lib import hirutil as H
    from lib.interp import Interp, Unrecognised, enumerate_runs
    import tables
    h = F.hir.get(EXP + "export_common") or F.hir.get(EXP.rstrip(":") + "::export_common")
    fid = next((f for f in F.hir if f.startswith(EXP) and f.endswith("export_common")), None)
    if not ctx.anchor(rule, "export_common", fid is not None):
        return 0
    body = F.hir[fid]["body"]
    init = [x for x in H.walk(body) if x.get("k") == "slet" and (x.get("p") or {}).get("n") == "leading_underscores"]
    loops = [x for x in H.walk(body) if x.get("k") == "match" and str(x.get("src", "")).startswith("ForLoopDesugar")
             and any(y.get("k") == "mcall" and y.get("name") == "bytes" for y in H.walk(x["e"]))
             and any(y.get("k") in ("assign", "assignop") and H.root_local(y["l"]) == "leading_underscores" for y in H.walk(x))]
    if not ctx.anchor(rule, "export_common: `let mut leading_underscores = <int>` and the loop over a name's bytes that raises it",
                      len(init) == 1 and (init[0].get("e") or {}).get("k") == "lit" and len(loops) == 1):
        return 0
    start = int(init[0]["e"]["v"])
    names_local = sorted({y["n"] for y in H.walk(loops[0]["e"]) if y.get("k") == "path" and y.get("res") == "local"})

    class It_:
        def __init__(self, items):
            self.items = list(items)

    class D(tables.DDDomain):
        finite_loops = True

        def __init__(self):
            super().__init__(F, tables.BDD)

        def iterate(self, it, src):
            return src.items if isinstance(src, It_) else list(src) if isinstance(src, (list, tuple)) else None

        def call(self, it, name, f, args_e, env, e):
            n = f.get("n", "")
            if n.endswith("cmp::max"):
                a, b = [it.ev(x, env) for x in args_e]
                return max(a, b)
            if n.endswith("cmp::min"):
                a, b = [it.ev(x, env) for x in args_e]
                return min(a, b)
            if n.endswith("IntoIterator::into_iter"):
                return [it.ev(a, env) for a in args_e][0]
            return super().call(it, name, f, args_e, env, e)

        def method(self, it, m, e, env):
            name = m.rsplit("::", 1)[-1]
            recv = it.recv(e, env)
            if isinstance(recv, str):
                if name == "bytes":
                    return It_(list(recv.encode()))
                if name in ("as_ref", "as_str", "deref"):
                    return recv
            if isinstance(recv, It_) and name == "enumerate":
                return It_(list(enumerate(recv.items)))
            if isinstance(recv, int) and name == "max":
                (o,) = it.args(e, env)
                return max(recv, o)
            return super().method(it, m, e, env)
    fails = []
    mut = {"leading_underscores": start}
    n = 0
    seen = 0
    if start < 1:
        fails.append("leading_underscores starts at %d: `x{i}` without an underscore may be a user's name" % start)
    for name in ("", "a", "_", "_x1", "__x2", "a_b", "___"):
        n += 1

        def go(it, name=name):
            env = {"$consts": {}, "$fn": fid, "$mut": mut, "leading_underscores": mut["leading_underscores"]}
            for nl in names_local:
                if nl != "leading_underscores":
                    env[nl] = name
            return it.ev(loops[0], env)
        outs = list(enumerate_runs(lambda o: Interp(F, D(), o), go))
        if len(outs) != 1 or outs[0][1][0] != "ok":
            fails.append("the loop is not interpretable for the name %r: %r" % (name, outs[0][1] if outs else None))
            break
        lead = len(name) - len(name.lstrip("_"))
        seen = max(seen, lead)
        cur = mut.get("leading_underscores")
        if not isinstance(cur, int) or cur <= seen:
            fails.append("after the name %r (%d leading underscore(s)) leading_underscores is %r: an invented name `%sx1` can equal a "
                         "real variable name" % (name, lead, cur, "_" * (cur if isinstance(cur, int) else 0)))
            break
    ctx.ob(rule, rule, not fails, "export_common (%s): %s" % (F.where(fid), " || ".join(fails) if fails else
           "invented names start with more underscores than any existing name (counter %d after the model names)" % mut["leading_underscores"]))
    return n


def check_import_callers(ctx, F, rule="E-DDDMP.callers"):
    """`dddmp::import(.., support_vars, ..)` maps the i-th support variable *by level position* to the i-th number its caller
    supplies; the header accessor with that meaning is `DumpHeader::support_var_order()` (`support_vars()` is the `.ids`
    list in variable order: equal to it only while the dumped order is the identity).  Sibling rule over all callers in the
    workspace (CLI, C and Python bindings): a function that calls `import` and derives the mapping from the header reads
    `support_var_order()`, never `support_vars()`."""
    from lib import hirutil as H
    n = 0
    for fid, h in sorted(F.hir.items()):
        calls = [c for c in H.calls(h["body"]) if H.callee(c).endswith("dddmp::import::import") or H.callee(c).endswith("dddmp::import")]
        if not calls or fid.startswith("oxidd_dump::"):
            continue
        n += 1
        reads = {x.get("name") for x in H.walk(h["body"]) if x.get("k") == "mcall" and str(x.get("m", "")).endswith(
            ("DumpHeader::support_vars", "DumpHeader::support_var_order"))}
        ok = "support_vars" not in reads
        ctx.ob(rule, "%s:%s" % (rule, F.nice(fid)), ok,
               "%s (%s): %s" % (F.nice(fid), F.where(fid), "maps the file's support variables by level position (%s)" %
                                ("support_var_order()" if reads else "caller-supplied") if ok else
                                "derives import()'s variable mapping from DumpHeader::support_vars() (the .ids list in variable order) instead of "
                                "support_var_order(): after any reordering the imported functions are over permuted variables"))
    ctx.floor(rule, "callers of dddmp::import outside oxidd-dump", n, 2)
    return n


def check_replacing_flag(ctx, F, rule="E-DDDMP.ctrlflag"):
    """`write_replacing_control(writer, s)` writes `s` with every ASCII control character replaced by a space and returns
    whether it replaced anything -- the flag the exporter turns into the strict-mode error for diagram names.  Interpreted
    on model strings: "ab" -> writes "ab", false; "a\\x01b" -> "a b", true; "\\x02" -> " ", true; "" -> "", false;
    "a\\nb\\tc" -> "a b c", true."""
    import tables
    from lib.interp import Enum, Interp, Return, enumerate_runs
    from tables import OK, ERR
    fid = next((f for f in F.hir if f.startswith(EXP) and f.endswith("write_replacing_control")), None)
    if not ctx.anchor(rule, "export::write_replacing_control", fid is not None):
        return 0

    class W:
        def __init__(self):
            self.out = []

    class It_:
        def __init__(self, items):
            self.items = list(items)

    class D(tables.DDDomain):
        finite_loops = True
        loop_limit = 16

        def __init__(self):
            super().__init__(F, tables.BDD)

        def iterate(self, it, src):
            return src.items if isinstance(src, It_) else list(src) if isinstance(src, (list, tuple)) else None

        def try_(self, it, v):
            if isinstance(v, Enum) and v.path == OK:
                return v.args[0]
            if isinstance(v, Enum) and v.path == ERR:
                raise Return(v)
            return super().try_(it, v)

        def call(self, it, name, f, args_e, env, e):
            if f.get("n", "").endswith("IntoIterator::into_iter"):
                return [it.ev(a, env) for a in args_e][0]
            return super().call(it, name, f, args_e, env, e)

        def method(self, it, m, e, env):
            name = m.rsplit("::", 1)[-1]
            recv = it.recv(e, env)
            if isinstance(recv, str):
                if name == "as_bytes":
                    return list(recv.encode("latin-1"))
                return super().method(it, m, e, env)
            if isinstance(recv, list):
                if name == "iter":
                    return It_(recv)
                if name == "len":
                    return len(recv)
            if isinstance(recv, It_) and name == "enumerate":
                return It_(list(enumerate(recv.items)))
            if isinstance(recv, int) and name == "is_ascii_control":
                return recv < 32 or recv == 127
            if isinstance(recv, W) and name == "write_all":
                (b,) = it.args(e, env)
                recv.out.append(bytes(b) if isinstance(b, (list, tuple)) else b.encode("latin-1") if isinstance(b, str) else b)
                return Enum(OK, [()])
            return super().method(it, m, e, env)
    fails = []
    n = 0
    for text, out, flag in (("ab", b"ab", False), ("a\x01b", b"a b", True), ("\x02", b" ", True), ("", b"", False), ("a\nb\tc", b"a b c", True)):
        n += 1
        w = W()
        outs = list(enumerate_runs(lambda o: Interp(F, D(), o), lambda it: it.call_fn(fid, [w, text])))
        if len(outs) != 1 or outs[0][1][0] != "ok":
            fails.append("not interpretable for %r: %r" % (text, outs[0][1] if outs else None))
            break
        val = outs[0][1][1]
        got = b"".join(x if isinstance(x, bytes) else bytes([x]) for x in w.out)
        if got != out or not (isinstance(val, Enum) and val.path == OK and val.args[0] is flag):
            fails.append("%r is written as %r with result %r, expected %r and Ok(%s)" % (text, got, val, out, str(flag).lower()))
    ctx.ob(rule, rule, not fails, "write_replacing_control (%s): %s" % (F.where(fid), " || ".join(fails[:3]) if fails else
           "control characters become spaces, the flag is true exactly when one was replaced"))
    return n
