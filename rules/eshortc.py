"""E-TABLE.shortcut (complement-edge BDD): the shortcut prefix of `apply_ite`.

Operands are tagged edges over {terminal, node x, node y, node z} x {plain, complemented} (8^3 tuples).  The prefix
(everything before the apply-cache lookup) is interpreted from HIR; `apply_and` / `apply_bin::<OP>` delegations
yield an operator node with the meaning of their name, `not` / `not_owned` are interpreted from their own bodies.
Whenever the prefix returns, the returned edge must denote ite(f, g, h) for all valuations of x, y, z; and the
prefix must return (not fall through to the recursion) whenever one operand is terminal or two operands share a
node."""
import itertools

import ereduce
import tables
from ereduce import BCDD_KIND, BCDDTermDomain, ETAG, complemented, label
from lib import hirutil as H
from lib.interp import Beyond, Edge, Enum, Interp, Opaque, Unrecognised, enumerate_runs
from tables import OK

ROOT = "oxidd_rules_bdd::complement_edge::"
MOD = ROOT + "apply_rec"
OPENUM = ROOT + "BCDDOp"

BOOL2 = {
    "And": lambda a, b: a & b, "Or": lambda a, b: a | b, "Xor": lambda a, b: a ^ b, "Equiv": lambda a, b: 1 - (a ^ b),
    "Nand": lambda a, b: 1 - (a & b), "Nor": lambda a, b: 1 - (a | b), "Imp": lambda a, b: (1 - a) | b,
    "ImpStrict": lambda a, b: (1 - a) & b,
}


class IteDomain(BCDDTermDomain):
    def __init__(self, F):
        super().__init__(F, BCDD_KIND)
        self.helpers = {ROOT + "get_terminal", ROOT + "is_false", ROOT + "not_owned", ROOT + "not"}
        self.opnames = {int(v["discr"]): v["n"] for v in F.adts[OPENUM]["variants"]}

    def method(self, it, m, e, env):
        if m.endswith("::should_switch_to_sequential"):
            it.recv(e, env)
            return False
        if m.endswith("::apply_cache"):
            raise Beyond("apply cache lookup")
        return super().method(it, m, e, env)

    def call(self, it, name, f, args_e, env, e):
        did = f.get("did", "")
        if did == env.get("$fn") and it.depth >= 1:
            raise Beyond("self call")
        if did in (MOD + "::apply_and", MOD + "::apply_bin"):
            args = [it.ev(x, env) for x in args_e]
            es = [a for a in args if isinstance(a, Edge)]
            if len(es) != 2:
                raise Unrecognised("%s with %d edge operands" % (did, len(es)))
            if did.endswith("apply_and"):
                op = "And"
            else:
                cs = [c if not isinstance(c, str) else env.get("$consts", {}).get(c, c) for c in H.const_args(e)]
                if len(cs) != 1 or isinstance(cs[0], str):
                    raise Unrecognised("apply_bin const args %r" % (cs,))
                op = self.opnames.get(cs[0])
            if op not in BOOL2:
                raise Unrecognised("operator %r" % (op,))
            return Enum(OK, [Edge(("OP", op, es[0], es[1]), self.default_tag())])
        return super().call(it, name, f, args_e, env, e)


def den(e, val):
    n = e.node
    if n[0] == "OP":
        v = BOOL2[n[1]](den(n[2], val), den(n[3], val))
    elif n[0] == "N":
        v = val[n[1]]
    elif n[0] == "T":
        v = 1
    else:
        raise Unrecognised("edge %r" % (e,))
    return 1 - v if complemented(e) else v


def lab(e):
    if e.node[0] == "OP":
        return ("!" if complemented(e) else "") + "%s(%s, %s)" % (e.node[1], lab(e.node[2]), lab(e.node[3]))
    return label(e)


def run(ctx, F, rule="E-TABLE.shortcut"):
    fid = MOD + "::apply_ite"
    if not ctx.anchor(rule, fid, fid in F.hir and OPENUM in F.adts):
        return 0
    nodes = [("T", Enum(ROOT + "BCDDTerminal")), ("N", "x"), ("N", "y"), ("N", "z")]
    tags = [Enum(ETAG + "::None"), Enum(ETAG + "::Complemented")]
    U = [Edge(n, t) for n in nodes for t in tags]
    n = decided = 0
    fails = []
    for f, g, h in itertools.product(U, repeat=3):
        must_shortcut = any(x.node[0] == "T" for x in (f, g, h)) or len({f.node, g.node, h.node}) < 3

        def mk(oracle):
            return Interp(F, IteDomain(F), oracle, max_depth=4)
        args = [Opaque("manager"), Opaque("rec"), f, g, h]
        for trace, (status, val) in enumerate_runs(mk, lambda it: it.call_fn(fid, args)):
            n += 1
            sit = "apply_ite(%s, %s, %s)" % (label(f), label(g), label(h))
            key = "%s:bcdd apply_ite:%s,%s,%s" % (rule, label(f), label(g), label(h))
            if status == "beyond":
                ok = not must_shortcut
                ctx.ob(rule + ".case", key, ok, "%s: no shortcut" % sit, nontrivial=False, report=False)
                if not ok:
                    fails.append("%s: falls through to the cache/recursion although an operand is terminal or two operands "
                                 "share a node (the recursion below relies on three distinct inner nodes)" % sit)
                continue
            if status != "ok":
                fails.append("%s: %s %s" % (sit, status, val))
                continue
            if isinstance(val, Enum) and val.path == OK:
                val = val.args[0]
            if not isinstance(val, Edge):
                fails.append("%s: result %r" % (sit, val))
                continue
            bad = None
            try:
                for x, y, z in itertools.product((0, 1), repeat=3):
                    valn = {"x": x, "y": y, "z": z}
                    want = den(g, valn) if den(f, valn) else den(h, valn)
                    if den(val, valn) != want:
                        bad = valn
                        break
            except Unrecognised as u:
                fails.append("%s: UNRECOGNISED-SHAPE %s" % (sit, u))
                continue
            decided += 1
            ctx.ob(rule + ".case", key, bad is None, "%s -> %s" % (sit, lab(val)), report=False)
            if bad is not None:
                fails.append("%s returns %s, which is not ite(f, g, h) for %s" % (sit, lab(val), bad))
    nice = F.nice(fid)
    ctx.ob(rule, "%s:%s" % (rule, nice), not fails and decided > 0,
           ("%s (%s): %d shortcut situation(s) wrong; first: %s" % (nice, F.where(fid), len(fails), " || ".join(fails[:3])))
           if fails else "%s: %d shortcut situations agree with ite" % (nice, decided))
    return n
