"""Type-level witnesses (DESIGN 2.3): doc-tests of /verif/witness (compile_fail with error codes + compiling twins)"""
import os
import re
import shutil
import subprocess

from lib import facts


def run(ctx, rule="E-WITNESS"):
    wdir = os.path.join(facts.VERIF, "witness")
    try:
        shutil.copy(os.path.join(facts.REPO, "Cargo.lock"), os.path.join(wdir, "Cargo.lock"))
    except OSError:
        pass
    env = dict(os.environ, CARGO_NET_OFFLINE="true")
    if facts.REPO != "/repo":
        # the witness crate path-depends on /repo; a scratch tree is not supported here
        ctx.note("witnesses skipped: they are compiled against /repo only")
        return 0
    r = subprocess.run(["cargo", "+nightly", "test", "--doc", "--offline"], cwd=wdir, env=env, capture_output=True, text=True)
    out = r.stdout + r.stderr
    tests = re.findall(r"^test (src/lib\.rs - (\S+) \(line \d+\)(?: - (compile fail|compile))?) \.\.\. (ok|FAILED)", out, re.M)
    n = 0
    for full, name, kind, res in tests:
        n += 1
        ctx.ob(rule, "%s:%s:%s" % (rule, name, kind or "run"), res == "ok",
               "witness `%s` (%s) %s: the type-level encoding it pins no longer holds (or its compiling twin broke)"
               % (name, kind, res))
    ctx.floor(rule, "witness doc-tests", n, 10)
    if r.returncode != 0 and not any(res != "ok" for *_, res in tests):
        ctx.ob(rule, rule + ":cargo", False, "cargo test --doc failed: " + out[-600:])
    return n
