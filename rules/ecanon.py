"""E-CANON: hash-consing discipline (DESIGN 4 C01).

  key      Eq/Hash of the node types look at the children only (not rc/level);
  funnel   get_or_insert allocates a node only on the `Err(slot)` arm of the table lookup and inserts it under
           the same hash it looked up; on `Ok(slot)` it returns a clone of the stored edge;
  sites    every construction of an inner node (`InnerNode::new`) outside the reduce functions is a reviewed
           site whose children are distinct by construction;
  swap     level_swap changes a node's children only while it is out of the unique table (set_child before
           insert), drops the edges to an old child while that child is still in the table (set_child/drop_edge
           before remove), and relabels before re-inserting.
"""
import re

from lib import cfg
import edm
import eevent

NODE_SITES = {
    # function (nice name suffix) -> (count, why the children are distinct / the node is irredundant)
    "BDDRules as oxidd_core::DiagramRules>::reduce": (1, "guarded by the t == e test (E-TABLE.reduce)"),
    "BCDDRules as oxidd_core::DiagramRules>::reduce": (2, "guarded by the t == e test (E-TABLE.reduce)"),
    "MTBDDRules as oxidd_core::DiagramRules>::reduce": (1, "guarded by the equality test (E-TABLE.reduce)"),
    "TDDRules as oxidd_core::DiagramRules>::reduce": (1, "guarded by the equality test (E-TABLE.reduce)"),
    "ZBDDRules as oxidd_core::DiagramRules>::reduce": (1, "guarded by the empty-hi test (E-TABLE.reduce)"),
    "oxidd_rules_bdd::simple::reduce": (1, "E-TABLE.reduce"),
    "oxidd_rules_bdd::complement_edge::reduce": (2, "E-TABLE.reduce"),
    "oxidd_rules_zbdd::reduce": (1, "E-TABLE.reduce"),
    "oxidd_rules_zbdd::reduce1": (1, "E-TABLE.reduce"),
    "oxidd_rules_zbdd::reduce_borrowed": (1, "E-TABLE.reduce"),
    "complement_edge::add_literal_to_cube": (1, "children are a non-false cube and the false terminal"),
    "BCDDFunction<F> as oxidd_core::function::BooleanFunction>::var_edge": (1, "children are the two distinct terminals"),
    "complement_edge::apply_rec::substitute_prepare": (1, "children are the two distinct terminals"),
    "BDDFunction<F> as oxidd_core::function::BooleanFunction>::var_edge": (1, "children are the two distinct terminals"),
    "BDDFunction<F> as oxidd_core::function::BooleanFunction>::not_var_edge": (1, "children are the two distinct terminals"),
    "simple::apply_rec::substitute_prepare": (1, "children are the two distinct terminals"),
    "BDDFunction<F> as oxidd_core::function::BooleanFunction>::pick_cube_dd_edge::inner": (1, "children are a non-false cube and the false terminal"),
    "BDDFunction<F> as oxidd_core::function::BooleanFunction>::pick_cube_dd_set_edge::inner": (1, "children are a non-false cube and the false terminal"),
    "MTBDDFunction<F> as oxidd_core::function::PseudoBooleanFunction>::var_edge": (1, "children are the terminals 1 and 0"),
    "TDDFunction<F> as oxidd_core::function::TVLFunction>::var_edge": (1, "children are the three distinct terminals"),
    "ZBDDCache<<M as oxidd_core::Manager>::Edge> as oxidd_core::ManagerEventSubscriber>::post_reorder_mut": (1, "tautology chain: hi is never the empty family"),
    "ZBDDFunction<F> as oxidd_core::function::BooleanFunction>::var_edge": (2, "hi is the base/tautology, never empty"),
    "ZBDDFunction<F> as oxidd_core::function::BooleanVecSet>::singleton_edge": (1, "hi is the base terminal"),
    "oxidd_rules_zbdd::apply_rec::restrict::restrict_base": (1, "hi is a tautology, never empty"),
    "ZBDDFunction<F> as oxidd_core::function::BooleanFunction>::pick_cube_dd_edge::inner": (1, "hi is a non-empty sub-cube"),
    "ZBDDFunction<F> as oxidd_core::function::BooleanFunction>::pick_cube_dd_set_edge::inner": (1, "hi is a non-empty sub-cube"),
}


def run(ctx, F, rule="E-CANON"):
    # ---- key: Eq / Hash of the node types ---------------------------------------------------------------
    nkeys = 0
    for fid, r in sorted(F.fns.items()):
        imp = r.get("impl") or {}
        if "node::fixed_arity::NodeWithLevel" not in imp.get("self", ""):
            continue
        tr = imp.get("trait")
        if tr not in ("std::cmp::PartialEq", "std::hash::Hash"):
            continue
        adt = imp["self"].split("<")[0]
        fs = edm.fields_of(F.mir[fid], adt)
        nkeys += 1
        ctx.ob(rule + ".key", "%s.key:%s:%s" % (rule, adt, tr.split("::")[-1]), fs == {"children"},
               "%s for %s (%s) reads the fields %s; the unique-table key must be the children only: a key that "
               "includes the reference count or the level number makes equal nodes unequal (and changes when a "
               "reordering renumbers levels in place)" % (tr, adt, F.where(fid), sorted(fs)))
    ctx.floor(rule + ".key", "Eq/Hash impls of node types", nkeys, 2)
    # the equality itself: `children == children` (not its negation)
    from lib import hirutil as H
    for fid, r in sorted(F.fns.items()):
        imp = r.get("impl") or {}
        if "node::fixed_arity::NodeWithLevel" not in imp.get("self", "") or imp.get("trait") != "std::cmp::PartialEq" or not fid.endswith("::eq"):
            continue
        h = F.hir.get(fid)
        if not h:
            continue
        ops = [x.get("o") for x in H.walk(h["body"]) if x.get("k") == "bin" and x.get("o") in ("==", "!=")]
        nots = [x for x in H.walk(h["body"]) if x.get("k") == "un" and x.get("o") == "!"]
        ctx.ob(rule + ".key", "%s.key:%s:eq-op" % (rule, imp["self"].split("<")[0]), ops == ["=="] and not nots,
               "PartialEq::eq of the node type (%s) %s" % (F.where(fid), "is `children == children`" if ops == ["=="] and not nots else
                                                           "is not the plain equality of the children (operators %s)" % ops))
    # the equality the unique tables probe with: `LevelViewSet::eq(node)` yields `|entry| node_of(entry) == node`
    ntab = 0
    for fid, r in sorted(F.fns.items()):
        imp = r.get("impl") or {}
        if not fid.endswith("::eq") or "LevelViewSet" not in imp.get("self", "") or imp.get("trait"):
            continue
        h = F.hir.get(fid)
        if not h:
            continue
        ntab += 1
        clos = [x for x in H.walk(h["body"]) if x.get("k") == "closure"]
        ops = [x for c in clos for x in H.walk(c["body"]) if x.get("k") == "bin" and x.get("o") in ("==", "!=")]
        nots = [x for c in clos for x in H.walk(c["body"]) if x.get("k") == "un" and x.get("o") == "!"]
        ok = len(clos) == 1 and len(ops) == 1 and ops[0]["o"] == "==" and not nots
        if ok:
            # one side is the probe node (the function's parameter), the other is computed from the closure's parameter
            params = set(H.param_names(h)) if hasattr(H, "param_names") else set()
            cpar = {y.get("n") for p_ in clos[0].get("params", []) for y in H.walk(p_) if y.get("k") == "bind"}
            sides = [{y.get("n") for y in H.walk(s_) if y.get("k") == "path" and y.get("res") == "local"} for s_ in (ops[0]["l"], ops[0]["r"])]
            ok = any(sd & cpar for sd in sides) and any((sd & params) and not (sd & cpar) for sd in sides)
        ctx.ob(rule + ".key", "%s.key:%s:table-eq" % (rule, fid.split("::")[0]), ok,
               "LevelViewSet::eq (%s) %s" % (F.where(fid), "is `|entry| node_of(entry) == node`" if ok else
                                             "is not the equality of the stored entry's node with the probe node: lookups, insertions and "
                                             "removals in the unique table match the wrong entries"))
    ctx.floor(rule + ".key", "probe equalities of the unique tables (index, pointer)", ntab, 2)
    # ---- funnel: get_or_insert ------------------------------------------------------------------------------
    nf = 0
    for fid, r in sorted(F.fns.items()):
        imp = r.get("impl") or {}
        if not fid.endswith("::get_or_insert") or "LevelViewSet" not in imp.get("self", "") or imp.get("trait"):
            continue
        m = F.mir[fid]
        B = cfg.Body(m)
        where = F.where(fid)
        nice = F.nice(fid)
        finds = [(i, t) for i, t in B.calls() if (cfg.callee_name(t) or "").endswith("::find_or_find_insert_slot")]
        ins = [(i, t) for i, t in B.calls() if (cfg.callee_name(t) or "").endswith("::insert_in_slot_unchecked")]
        gets = [(i, t) for i, t in B.calls() if (cfg.callee_name(t) or "").endswith("::get_at_slot_unchecked")]
        allocs = [(i, t) for i, t in B.calls() if (cfg.callee_decl(t) or "").endswith("FnOnce::call_once")]
        hashes = [(i, t) for i, t in B.calls() if (cfg.callee_name(t) or "").endswith("::hash_node")]
        nf += 1
        ok = len(finds) == 1 and ins and gets and hashes
        detail = "lookup / insert / get calls not found"
        if ok:
            fi, ft = finds[0]
            tb = m["blocks"][ft["t"]]
            sw = tb["t"]
            okb = errb = None
            if sw["k"] == "switch":
                for v, b in sw["t"]:
                    if int(v) == 0:
                        okb = b
                    elif int(v) == 1:
                        errb = b
            ok = okb is not None and errb is not None
            if ok:
                c1 = all(B.dominates(errb, i) for i, _ in ins)
                c2 = all(B.dominates(okb, i) for i, _ in gets)
                # the node allocation closure (insert) runs on the Err arm only
                c3 = all(B.dominates(errb, i) or B.dominates(okb, i) for i, _ in allocs) and \
                    any(B.dominates(errb, i) for i, _ in allocs)
                # same hash for lookup and insertion
                def root(op):
                    p = cfg.op_place(op)
                    return p
                hl = root(ft["a"][1]) if len(ft["a"]) > 1 else None
                c4 = all(root(t["a"][1]) == hl or _same_origin(m, root(t["a"][1]), hl) for _, t in ins)
                ok = c1 and c2 and c3 and c4
                detail = ("insertion not confined to the Err(slot) arm" if not c1 else
                          "stored edge not returned on the Ok(slot) arm" if not c2 else
                          "node allocation not confined to the Err(slot) arm" if not c3 else
                          "the hash used for insertion differs from the hash used for the lookup")
        ctx.ob(rule + ".funnel", "%s.funnel:%s" % (rule, nice), bool(ok),
               "%s (%s): %s; equal nodes must resolve to the one stored edge and a new node must be filed under the "
               "hash it is looked up with" % (nice, where, detail))
    ctx.floor(rule + ".funnel", "get_or_insert implementations", nf, 2)
    # ---- sites: node constructions --------------------------------------------------------------------------
    seen = {}
    for fid, m in F.mir.items():
        if not (fid.startswith("oxidd_rules_") or fid.startswith("oxidd_reorder") or fid.startswith("oxidd_dump")):
            continue
        B = cfg.Body(m)
        c = sum(1 for _, t in B.calls() if (cfg.callee_decl(t) or "") == "oxidd_core::InnerNode::new")
        if c:
            seen[F.nice(fid)] = (c, fid)
    for nice, (c, fid) in sorted(seen.items()):
        hit = sorted([k for k in NODE_SITES if nice.endswith(k)], key=len, reverse=True)
        ok = bool(hit) and c <= NODE_SITES[hit[0]][0]
        ctx.ob(rule + ".sites", "%s.sites:%s" % (rule, nice), ok,
               ("%s (%s) constructs %d inner node(s) directly; %s. Nodes must be created through the reduce functions "
                "or at a reviewed site whose children are distinct by construction, otherwise a redundant node can "
                "enter the unique table" % (nice, F.where(fid), c,
                                              "not a reviewed construction site" if not hit else
                                              "only %d reviewed" % NODE_SITES[hit[0]][0])) if not ok else
               "%s: %s" % (nice, NODE_SITES[hit[0]][1]))
    ctx.floor(rule + ".sites", "node construction sites", len(seen), 20)


def _same_origin(m, a, b):
    """do locals a and b hold copies of the same value (single assignment chains)?"""
    def origin(l):
        seen = set()
        while isinstance(l, int) and l not in seen:
            seen.add(l)
            nxt = None
            cnt = 0
            for blk in m["blocks"]:
                for s in blk["s"]:
                    if "lhs" in s and s["lhs"] == l:
                        cnt += 1
                        if s["rv"]["k"] == "use":
                            nxt = cfg.op_place(s["rv"]["op"])
            if cnt != 1 or nxt is None:
                return l
            l = nxt
        return l
    return origin(a) == origin(b)


def check_level_swap_order(ctx, F, rule="E-CANON.swap"):
    fid = "oxidd_reorder::level_swap"
    m = F.mir.get(fid)
    if not ctx.anchor(rule, fid, m is not None):
        return
    B = cfg.Body(m)
    where = F.where(fid)
    def blocks(rx):
        return [i for i, t in B.calls() if re.search(rx, cfg.callee_decl(t) or cfg.callee_name(t) or "")]
    setc = blocks(r"InnerNode::set_child$")
    ins = blocks(r"LevelView::insert(_unchecked)?$")
    rem = blocks(r"LevelView::remove$")
    setl = blocks(r"HasLevel::set_level$")
    nexts = blocks(r"Iterator::next$|Iterator>::next$")
    ctx.ob(rule, rule + ":events", bool(setc and ins and rem and setl and nexts),
           "level_swap (%s): expected set_child / insert / remove / set_level calls, found %s"
           % (where, dict(set_child=setc, insert=ins, remove=rem, set_level=setl)))
    if not (setc and ins and rem and nexts):
        return
    # header of the outer loop: the next() call that dominates every set_child and is reachable from it
    cands = [n for n in nexts if all(B.dominates(n, s) for s in setc) and all(B.can_reach(s, n) for s in setc)]
    if not ctx.anchor(rule, "outer loop of level_swap", bool(cands)):
        return
    H = [n for n in cands if all(B.dominates(n, o) for o in cands)] or cands[:1]
    ok = all(eevent.no_path_avoiding(B, i, setc, H) or not B.can_reach(i, setc[0]) for i in ins)
    ctx.ob(rule, rule + ":set_child-before-insert", ok,
           "level_swap (%s): a node is inserted into a level's unique table and its children are replaced afterwards in "
           "the same iteration; set_child changes the node's hash, so the table entry is filed under a stale hash and "
           "an equal node is created again later (canonicity lost after reordering)" % where)
    ok = all(eevent.no_path_avoiding(B, r, setc, H) for r in rem)
    ctx.ob(rule, rule + ":release-before-unlink", ok,
           "level_swap (%s): an old child is removed from the unique table before the parent's edges to it are dropped "
           "with drop_edge (which must not release the last reference): the child's slot is never freed" % where)
    after_setc = set()
    for s_ in setc:
        after_setc |= B.reachable_from(s_, avoid=H)
    later_ins = [i for i in ins if i in after_setc]
    ok = bool(setl) and all(any(B.dominates(sl, i) for sl in setl) for i in later_ins) and bool(later_ins)
    ctx.ob(rule, rule + ":relabel-before-insert", ok,
           "level_swap (%s): the rewritten node must get the stale number of its new level (set_level) before it is "
           "inserted into that level" % where)
    check_level_swap_lookup(ctx, F)

def check_level_swap_lookup(ctx, F, rule="E-CANON.swap"):
    """While level_swap rebuilds the old upper level, the nodes of that level live in two places: the ones already
    handled are in the new lower view, the others still in the *taken* old-upper view.  A node that is about to be
    created for the new lower level must be looked up in both (`old_upper.get(..)`, then
    `lower.get_or_insert_unchecked(..)`); looking only at the live view creates a duplicate of a node that is still
    referenced and later drops the original from every unique table."""
    n = 0
    for fid, m in sorted(F.mir.items()):
        if not fid.startswith("oxidd_reorder::level_swap"):
            continue
        B = cfg.Body(m)
        gets, inserts = [], []
        for i, t in B.calls():
            decl = cfg.callee_decl(t) or cfg.callee_name(t) or ""
            if not t.get("a"):
                continue
            a0 = t["a"][0]
            l = a0.get("mv", a0.get("cp"))
            ty = m["locals"][l]["ty"] if isinstance(l, int) else ""
            if decl.endswith("LevelView::get"):
                gets.append((i, "Taken" in ty or "::Taken" in ty))
            if decl.endswith("LevelView::get_or_insert_unchecked"):
                inserts.append(i)
        if not inserts:
            continue
        n += 1
        taken_gets = [i for i, tk in gets if tk]
        ok = bool(taken_gets) and all(any(B.can_reach(g, ins) for g in taken_gets) for ins in inserts)
        ctx.ob(rule + ".lookup", "%s.lookup:%s" % (rule, re.sub(r"\{closure#\d+\}", "{closure}", fid)), ok,
               "%s (%s): %s" % (F.nice(fid), F.where(fid),
                                "a node for the new lower level is looked up in the taken old-upper view before it is inserted" if ok else
                                "get_or_insert_unchecked on the new lower view is not preceded by a lookup in the taken old-upper "
                                "view: an equal node that has not been moved yet is duplicated"))
    ctx.floor(rule + ".lookup", "node-creating closures of level_swap", n, 1)
    return n


def check_id_split(ctx, F, rule="E-CANON.idsplit"):
    """The index-based manager tells terminals from inner nodes by the node id: ids 0..TERMINALS are terminals, ids from
    TERMINALS on are inner nodes.  Every comparison of a value with the const parameter `TERMINALS` is `< TERMINALS`
    (terminal) or `>= TERMINALS` (inner node); `<=` / `>` would treat the first inner node as a terminal (its reference
    is then released into the terminal store)."""
    import json
    n = 0
    bad = []
    for fid, m in sorted(F.mir.items()):
        if not fid.startswith("oxidd_manager_index::"):
            continue
        B = cfg.Body(m)
        for i in sorted(B.reach):
            b = m["blocks"][i]
            if b["c"]:
                continue
            for s in b["s"]:
                rv = s.get("rv") or {}
                if rv.get("k") != "bin" or rv.get("o") not in ("Eq", "Ne", "Lt", "Le", "Gt", "Ge"):
                    continue
                a_t = (rv.get("a") or {}).get("c") == "TERMINALS"
                b_t = (rv.get("b") or {}).get("c") == "TERMINALS"
                if not (a_t or b_t):
                    continue
                n += 1
                op = rv["o"] if b_t else {"Lt": "Gt", "Gt": "Lt", "Le": "Ge", "Ge": "Le"}.get(rv["o"], rv["o"])
                if op not in ("Lt", "Ge"):
                    bad.append("%s (%s): id %s TERMINALS" % (F.nice(fid), F.where(fid), op))
    ctx.ob(rule, rule, not bad and n >= 4,
           "%d comparisons of an id with TERMINALS, all `<` / `>=`" % n if not bad and n >= 4 else
           "terminal / inner-node discrimination by id uses an off-by-one comparison: %s" % "; ".join(bad[:3]) if bad else
           "only %d comparisons with TERMINALS found (expected >= 4)" % n)
    return n


def check_ptr_split(ctx, F, rule="E-CANON.ptrsplit"):
    """The pointer-based manager tells terminals from inner nodes by a tag bit (`Edge::is_inner`).  In every function of
    its manager module that branches on `is_inner()`, the terminal operations (`TerminalManager::drop_edge` /
    `clone_edge`) are not reachable from the `true` edge and the inner-node operations (`drop_inner`, `release`,
    `retain`, `clone_inner_unchecked`) not from the `false` edge: a flipped test releases an inner node's reference into
    the terminal store (and vice versa)."""
    n = 0
    TERM = re.compile(r"TerminalManager(<.*>)?>?::(drop_edge|clone_edge)$")
    INNER = re.compile(r"::(drop_inner|release|retain|clone_inner_unchecked)$")
    for fid, m in sorted(F.mir.items()):
        if not fid.startswith("oxidd_manager_pointer::manager::"):
            continue
        B = cfg.Body(m)
        blocks = m["blocks"]
        tests = [i for i, t in B.calls() if (cfg.callee_name(t) or "").endswith("::is_inner") and not blocks[i]["c"]]
        if not tests:
            continue
        terms = [i for i, t in B.calls() if TERM.search(cfg.callee_name(t) or "") or TERM.search(cfg.callee_decl(t) or "")]
        inners = [i for i, t in B.calls() if INNER.search(cfg.callee_name(t) or "")]
        if not terms and not inners:
            continue
        for c in tests:
            t = blocks[c]["t"]
            dest, nxt = t.get("d"), t.get("t")
            if not isinstance(dest, int) or nxt is None:
                continue
            neg, cur, edges = None, nxt, None
            for _ in range(3):
                b = blocks[cur]
                for st in b["s"]:
                    rv = st.get("rv") or {}
                    if rv.get("k") == "un" and rv.get("o") == "Not" and cfg.op_place(rv.get("a", rv.get("op"))) == dest:
                        neg = st.get("lhs")
                tt = b["t"]
                if tt["k"] == "switch":
                    d = cfg.op_place(tt.get("d"))
                    zero = [blk for v, blk in tt["t"] if str(v) == "0"]
                    if d == dest:
                        edges = ([tt.get("o")], zero, cur)
                    elif neg is not None and d == neg:
                        edges = (zero, [tt.get("o")], cur)
                    break
                if tt["k"] == "goto" and isinstance(tt.get("t"), int):
                    cur = tt["t"]
                else:
                    break
            if edges is None:
                continue
            true_e, false_e, sw = edges
            rt, rf = set(), set()
            for x in true_e:
                if x is not None:
                    rt |= B.reachable_from(x, avoid=(sw,))
            for x in false_e:
                if x is not None:
                    rf |= B.reachable_from(x, avoid=(sw,))
            n += 1
            bad = [("terminal operation on the `is_inner()` edge", i) for i in terms if i in rt and i not in rf] + \
                  [("inner-node operation on the `!is_inner()` edge", i) for i in inners if i in rf and i not in rt]
            ctx.ob(rule, "%s:%s" % (rule, re.sub(r"<.*?>", "", F.nice(fid))[-70:]), not bad,
                   "%s (%s): %s" % (F.nice(fid), F.where(fid), "terminal and inner-node operations on the matching edges of is_inner()"
                                    if not bad else "; ".join(sorted({b[0] for b in bad})) +
                                    ": a reference is released / retained in the wrong store"))
    return n
