"""E-VNM.lockstep: in `VarNameMap::add_named` the number stored in `index` for a name is the position at which the
name is appended to `names`.

`names[v]` is variable v's name and `index[name] == v` its inverse.  Inside the loop of `add_named` the variable
number either comes from an iterator zipped with the name iterator (one number per name, whatever the loop body
does) or from a counter local.  From MIR, per loop iteration (every acyclic path from the loop head back to it):
the number of `names.push` calls equals the number of times the number source advances; otherwise a name that
follows (e.g. an empty name taken through an early `continue`) is indexed under a number that is not its position.
The source must start at `names.len()`.
"""
import re

from lib import cfg
from efreelist import origins

MOD = "oxidd_core::util::var_name_map::"


def _loc(op):
    if not isinstance(op, dict):
        return None
    v = op.get("cp", op.get("mv"))
    if isinstance(v, int):
        return v
    if isinstance(v, dict):
        return v.get("l")
    return None


def run(ctx, F, rule="E-VNM.lockstep"):
    fids = [f for f in F.mir if f.startswith(MOD) and f.endswith("::add_named")]
    if not ctx.anchor(rule, "VarNameMap::add_named", len(fids) == 1):
        return 0
    fid = fids[0]
    m = F.mir[fid]
    B = cfg.Body(m)
    nice, where = F.nice(fid), F.where(fid)
    calls = [(i, t) for i, t in B.calls() if not m["blocks"][i]["c"]]

    def named(rx):
        return [(i, t) for i, t in calls if re.search(rx, cfg.callee_name(t) or "")]
    pushes = named(r"Vec::<T, A>::push$")
    inserts = named(r"VacantEntry::<.*>::insert$")
    nexts = named(r"Iterator>::next$|Iterator::next$")
    if not ctx.anchor(rule, "push / insert / next sites in add_named", bool(pushes) and bool(inserts) and bool(nexts)):
        return 0
    # loop head: the `next` call that dominates the pushes and is reachable from them
    heads = [i for i, t in nexts if all(B.dominates(i, p) for p, _ in pushes) and any(B.can_reach(p, i) for p, _ in pushes)]
    if not ctx.anchor(rule, "loop head of add_named", len(heads) == 1):
        return 0
    head = heads[0]
    head_call = dict(nexts)[head]
    zipped = "Zip<" in (cfg.callee_name(head_call) or "")
    # where does the inserted number come from?
    val_op = inserts[0][1]["a"][1]
    org = origins(B, m, [val_op])
    from_head = any(o[0] == "call" and o[2] == head for o in org)
    counter_locals = set()
    if not (zipped and from_head):
        # a counter local: the named local the value is copied from
        l = _loc(val_op)
        seen = set()
        while l is not None and l not in seen:
            seen.add(l)
            if m["locals"][l].get("n"):
                counter_locals.add(l)
                break
            nxt = None
            for bi in B.reach:
                for st in B.blocks[bi]["s"]:
                    if st.get("lhs") == l and (st.get("rv") or {}).get("k") in ("use", "cast"):
                        nxt = _loc(st["rv"]["op"])
            l = nxt
    def advances_in(bi):
        if zipped and from_head:
            return 0
        n = 0
        for st in B.blocks[bi]["s"]:
            rv = st.get("rv") or {}
            if rv.get("k") in ("bin", "checked") and rv.get("o", "").startswith("Add") and _loc(rv.get("a")) in counter_locals \
                    and cfg.const_int(rv.get("b")) == 1:
                n += 1
        return n
    push_blocks = {i for i, _ in pushes}
    # enumerate acyclic paths head -> head
    bad = []
    npaths = 0
    stack = [(s, (s,)) for s in B.succ[head]]
    while stack and npaths < 5000:
        x, path = stack.pop()
        if x == head:
            npaths += 1
            np_ = sum(1 for b in path if b in push_blocks)
            na = (1 if (zipped and from_head) else 0) + sum(advances_in(b) for b in path)
            if np_ != na:
                bad.append((np_, na, path))
            continue
        if B.blocks[x]["c"]:
            continue
        for s in B.succ[x]:
            if s == head or s not in path:
                stack.append((s, path + (s,)))
    ok = npaths > 0 and not bad and (zipped and from_head or bool(counter_locals))
    ctx.ob(rule, rule + ":add_named", ok,
           "%s (%s): %s" % (nice, where,
                            "%d loop paths, each appends exactly one name per variable number drawn (%s)" %
                            (npaths, "numbers zipped with the names" if zipped and from_head else "explicit counter")
                            if ok else
                            ("on %d of %d paths through the loop body the number of names appended to `names` differs from the "
                             "number of variable numbers consumed (e.g. %d push(es) vs %d advance(s)): a later name of the same "
                             "batch is stored in `index` under a number that is not its position in `names`"
                             % (len(bad), npaths, bad[0][0], bad[0][1])) if bad else
                            "could not identify the source of the variable number inserted into `index`"))
    return npaths


def check_clone(ctx, F, rule="E-VNM.clone"):
    """`VarNameMap` owns every name through exactly two aliasing `Unowned<str>` pointers (one in `names`, one in
    `index`) and frees them by hand.  A clone that copies the pointers (the derived `Clone`: `Vec<Unowned<str>>::clone`,
    `HashMap<Unowned<str>, _>::clone`) gives two maps the same allocations: double free / dangling names from safe
    code.  The `Clone` impl must not clone a container of `Unowned` values and must allocate fresh strings."""
    fids = [f for f, r in F.fns.items() if f.startswith(MOD) and f.endswith("::clone")
            and (r.get("impl") or {}).get("trait", "").endswith("Clone") and "VarNameMap" in (r.get("impl") or {}).get("self", "")]
    if not fids:
        ctx.ob(rule, rule + ":VarNameMap", True, "VarNameMap does not implement Clone", nontrivial=False)
        return 0
    fid = fids[0]
    m = F.mir.get(fid)
    if not ctx.anchor(rule, "MIR of VarNameMap::clone", m is not None):
        return 0
    B = cfg.Body(m)
    shallow = []
    fresh = False
    for i, t in B.calls():
        cn = cfg.callee_name(t) or ""
        decl = cfg.callee_decl(t) or ""
        ga = " ".join(g for g in (t.get("f") or {}).get("ga", []) if isinstance(g, str))
        if re.search(r"Clone>?::clone$", cn) and "Unowned" in (cn + " " + ga):
            shallow.append(cn)
        if re.search(r"Box<str>|into_boxed_str|Box::<str>|alloc::boxed::Box<str>", cn + " " + decl + " " + ga) and "Unowned" not in cn:
            fresh = True
    # the number stored in the clone's index is the position of the name in `names` (the enumerate counter of the loop)
    for i, t in B.calls():
        cn = cfg.callee_name(t) or ""
        if re.search(r"HashMap::<K, V, S, A>::insert$|HashMap<.*>::insert$", cn) and len(t.get("a") or []) == 3:
            org = origins(B, m, [t["a"][2]])
            names_ = [(cfg.callee_name(o[1]) or "") for o in org if o[0] == "call"]
            pos = any(re.search(r"Enumerate<.*>.*::next$|Enumerate<I> as .*Iterator>::next$", x) for x in names_)
            ctx.ob(rule + ".index", rule + ".index:VarNameMap::clone", pos and not any(x.endswith("::len") for x in names_),
                   "%s (%s): %s" % (F.nice(fid), F.where(fid),
                                    "the clone's index maps each name to its position in `names`" if pos and
                                    not any(x.endswith("::len") for x in names_) else
                                    "the number inserted into the clone's `index` does not come from the position of the name in "
                                    "`names` (origins: %s): unnamed variables in between shift every later name" %
                                    sorted({x.rsplit("::", 2)[-2] + "::" + x.rsplit("::", 1)[-1] for x in names_ if x})))
    ok = not shallow and fresh
    ctx.ob(rule, rule + ":VarNameMap", ok,
           "%s (%s): %s" % (F.nice(fid), F.where(fid),
                            "allocates a fresh string per name" if ok else
                            ("clones a container of Unowned<str> pointers (%s): both maps own the same allocations"
                             % shallow[0][:80]) if shallow else "no fresh Box<str> is created for the names of the clone"))
    return 1


def check_duplicate_test(ctx, F, rule="E-VNM.dup"):
    """`set_var_name(var, name)` with a name that is already in `index`: the call is rejected (Err(DuplicateVarName))
    exactly when the name belongs to a *different* variable; renaming a variable to its own name succeeds.  From MIR:
    the comparison between the present owner (`*entry.get()`) and `var` decides; the block that builds the error is
    reachable from its `differ` edge only, the `same` edge reaches the Ok return without building one."""
    fids = [f for f in F.mir if f.startswith(MOD) and f.endswith("::set_var_name")]
    if not ctx.anchor(rule, "VarNameMap::set_var_name", len(fids) == 1):
        return 0
    fid = fids[0]
    m = F.mir[fid]
    B = cfg.Body(m)
    errs = [i for i in sorted(B.reach) if not m["blocks"][i]["c"] and
            any((s.get("rv") or {}).get("k") == "aggr" and "DuplicateVarName" in str((s.get("rv") or {}).get("adt", ""))
                for s in m["blocks"][i]["s"])]
    tests = []
    for i in sorted(B.reach):
        b = m["blocks"][i]
        if b["c"]:
            continue
        for s in b["s"]:
            rv = s.get("rv") or {}
            if rv.get("k") == "bin" and rv.get("o") in ("Eq", "Ne") and isinstance(s.get("lhs"), int):
                oa = origins(B, m, [rv.get("a")]) + origins(B, m, [rv.get("b")])
                names = [(cfg.callee_name(o[1]) or "") for o in oa if o[0] == "call"]
                if any(re.search(r"OccupiedEntry<.*>::get$|OccupiedEntry::<.*>::get$", x) for x in names) and \
                        any(o[0] == "param" for o in oa):
                    t = b["t"]
                    if t["k"] == "switch" and cfg.op_place(t.get("d")) == s["lhs"]:
                        zero = [blk for v, blk in t["t"] if str(v) == "0"]
                        tests.append((i, rv["o"], zero, t))
    if not ctx.anchor(rule, "owner comparison and DuplicateVarName construction in set_var_name", bool(errs) and len(tests) == 1):
        return 0
    i, op, zero, t = tests[0]
    succ = [x for x in B.succ[i]]
    zero_succ = zero[0] if zero else None
    nonzero = [x for x in succ if x != zero_succ]
    differ = nonzero if op == "Ne" else [zero_succ]
    same = [zero_succ] if op == "Ne" else nonzero
    from_same = set()
    for sx in same:
        if sx is not None:
            from_same |= B.reachable_from(sx, avoid=(i,))
    from_diff = set()
    for dx in differ:
        if dx is not None:
            from_diff |= B.reachable_from(dx, avoid=(i,))
    ok = all(e in from_diff for e in errs) and not any(e in from_same for e in errs)
    ctx.ob(rule, rule + ":set_var_name", ok,
           "%s (%s): %s" % (F.nice(fid), F.where(fid),
                            "a present name is rejected exactly when it belongs to another variable" if ok else
                            "the duplicate-name error is built on the edge where the present owner *equals* the variable being "
                            "renamed (or not on the `differs` edge): a name owned by another variable is accepted, two variables "
                            "share one name and name_to_var / var_name are no longer inverse"))
    return 1


def check_key_type(ctx, F, rule="E-VNM.key"):
    """`VarNameMap::index` is a `HashMap<Unowned<str>, VarNo>` that is probed with freshly boxed names and with `&str`
    (through `Borrow<str>`).  Both only work when `Unowned<T>` compares and hashes *by content*: its `PartialEq` and
    `Hash` are hand-written (a derive would compare / hash the wrapped pointer) and go through the double deref
    `**self`; `Borrow` hands out the same content."""
    base = "oxidd_core::util::var_name_map::unowned::"
    imps = {}
    for r in F.impls:
        if r.get("self", "").startswith(base + "Unowned") and r.get("trait") in ("std::cmp::PartialEq", "std::hash::Hash"):
            imps.setdefault(r["trait"], []).append(r)
    n = 0
    for tr, fn_ in (("std::cmp::PartialEq", "eq"), ("std::hash::Hash", "hash")):
        n += 1
        rs = imps.get(tr, [])
        short = tr.rsplit("::", 1)[-1]
        ok = len(rs) == 1 and not rs[0].get("exp")
        detail = "hand-written impl that looks through the pointer"
        if not ok:
            detail = "%s for Unowned<T> is %s: keys are compared / hashed by address, so a freshly boxed name never matches a " \
                     "stored one and duplicate names are accepted" % (short, "derived" if rs and rs[0].get("exp") else "missing")
        else:
            fid = rs[0]["id"] + "::" + fn_
            h = F.hir.get(fid)
            derefs = 0
            if h:
                from lib import hirutil as H
                for x in H.walk(h["body"]):
                    if x.get("k") == "un" and x.get("o") == "*" and (x.get("e") or {}).get("k") == "un" and x["e"].get("o") == "*":
                        derefs += 1
            need = 2 if fn_ == "eq" else 1
            if not h or derefs < need:
                ok = False
                detail = "%s::%s does not operate on the pointee (`**self`)" % (short, fn_)
            elif fn_ == "eq":
                body = h["body"]
                while isinstance(body, dict) and body.get("k") == "block" and not body.get("s") and "e" in body:
                    body = body["e"]
                if not (body.get("k") == "bin" and body.get("o") == "=="):
                    ok = False
                    detail = "PartialEq::eq is not `**self == **other`"
        ctx.ob(rule, "%s:%s" % (rule, short), ok, "Unowned<T> (key type of VarNameMap::index) %s: %s" % (short, detail))
    return n


def check_displaced_removed(ctx, F, rule="E-VNM.displace.nonempty"):
    """`set_var_name` replaces a variable's name: the displaced name must leave `index` exactly when it is non-empty
    (unnamed variables have no index entry).  From MIR: the `index.remove(&prev)` that follows the `mem::replace` lies
    on the `false` edge of an `is_empty()` test of the displaced name."""
    fids = [f for f in F.mir if f.startswith(MOD) and f.endswith("::set_var_name")]
    if not ctx.anchor(rule, "VarNameMap::set_var_name", len(fids) == 1):
        return 0
    fid = fids[0]
    m = F.mir[fid]
    B = cfg.Body(m)
    blocks = m["blocks"]
    removes = [i for i, t in B.calls() if re.search(r"HashMap::<K, V, S, A>::remove$|HashMap<.*>::remove$", cfg.callee_name(t) or "")]
    empties = [i for i, t in B.calls() if re.search(r"str::is_empty$|::is_empty$", cfg.callee_name(t) or "")]
    n = 0
    for r in removes:
        def on_displaced(e):
            ops = list(blocks[e]["t"].get("a") or [])[:1]
            for _ in range(4):
                org = origins(B, m, ops)
                if any(o[0] == "call" and re.search(r"mem::replace$", cfg.callee_name(o[1]) or "") for o in org):
                    return True
                # look through deref / borrow / as_ref calls
                ops = [o[1]["a"][0] for o in org if o[0] == "call" and o[1].get("a") and
                       re.search(r"::(deref|borrow|as_ref|as_str)$", cfg.callee_name(o[1]) or "")]
                if not ops:
                    return False
            return False
        doms = [e for e in empties if B.dominates(e, r) and on_displaced(e)]
        if not doms:
            continue        # the un-naming branch (`name.is_empty()` handled before): removal is unconditional there
        n += 1
        ok = False
        for e in doms:
            t = blocks[e]["t"]
            dest, nxt = t.get("d"), t.get("t")
            if not isinstance(dest, int) or nxt is None:
                continue
            neg = None
            cur = nxt
            for _ in range(3):
                b = blocks[cur]
                for st in b["s"]:
                    rv = st.get("rv") or {}
                    if rv.get("k") == "un" and rv.get("o") == "Not" and cfg.op_place(rv.get("a", rv.get("op"))) == dest:
                        neg = st.get("lhs")
                tt = b["t"]
                if tt["k"] == "switch":
                    d = cfg.op_place(tt.get("d"))
                    zero = [blk for v, blk in tt["t"] if str(v) == "0"]
                    if d == dest:
                        true_succ = [tt.get("o")]
                    elif neg is not None and d == neg:
                        true_succ = zero
                    else:
                        break
                    reach = set()
                    for sx in true_succ:
                        if sx is not None:
                            reach |= B.reachable_from(sx, avoid=(e,))
                    if r not in reach:
                        ok = True
                    break
                if tt["k"] == "goto" and isinstance(tt.get("t"), int):
                    cur = tt["t"]
                else:
                    break
        ctx.ob(rule, "%s:remove#%d" % (rule, n), ok,
               "%s (%s): %s" % (F.nice(fid), F.where(fid),
                                "the displaced name is removed from `index` exactly when it is non-empty" if ok else
                                "the removal of the displaced name from `index` is reachable on the `prev.is_empty()` edge (or "
                                "not guarded by that test): a non-empty old name stays in `index` and still maps to the variable"))
    return n


def check_add_vars(ctx, F, rule="E-VNM.addvars"):
    """`Manager::add_vars(k)` and `add_named_vars_from_map(map)` of both managers, interpreted on a model manager with L
    variables: the level table is resized to L + k, the var/level map extended by k, k unnamed names appended, and the
    returned range is exactly L..L + k; the from-map fast path (empty manager) resizes to n = map.len(), extends by n,
    adopts the map and returns 0..n.  The returned range is what callers use as the new variables' numbers."""
    import tables
    from lib.interp import Interp, Opaque, StructVal, Enum, Unrecognised, enumerate_runs
    from tables import OK

    class Rec:
        def __init__(self, name, **kw):
            self.name = name
            self.calls = []
            self.__dict__.update(kw)

    class D(tables.DDDomain):
        def __init__(self):
            super().__init__(F, tables.BDD)
            self.md = []

        def field(self, it, v, n):
            if isinstance(v, Rec) and hasattr(v, n):
                return getattr(v, n)
            return None

        def field_assign(self, it, base, n, v):
            if isinstance(base, Rec):
                setattr(base, n, v)
                return True
            return False

        def call(self, it, name, f, args_e, env, e):
            n = f.get("n", "")
            if n.endswith("pre_reorder_mut") or n.endswith("post_reorder_mut"):
                [it.ev(a, env) for a in args_e]
                self.md.append(n.rsplit("::", 1)[-1])
                return ()
            if n.endswith("Mutex::<R, T>::new") or n.endswith("::new") or n.endswith("default"):
                [it.ev(a, env) for a in args_e]
                return Opaque("level")
            return super().call(it, name, f, args_e, env, e)

        def call_value(self, it, fv, args):
            return Opaque("level")

        def method(self, it, m, e, env):
            name = m.rsplit("::", 1)[-1]
            recv = it.recv(e, env)
            if isinstance(recv, list):
                if name == "len":
                    return len(recv)
                if name == "resize_with":
                    n_, _ = it.args(e, env)
                    del recv[n_:]
                    while len(recv) < n_:
                        recv.append(Opaque("level"))
                    return ()
            if isinstance(recv, Rec):
                args = it.args(e, env)
                recv.calls.append((name, [a for a in args if not isinstance(a, Rec)]))
                if name == "len":
                    return recv.n
                if name == "is_empty":
                    return recv.n == 0
                if name == "named_count":
                    return getattr(recv, "named", recv.n)
                return ()
            if isinstance(recv, int) and name == "checked_add":
                (b,) = it.args(e, env)
                return Enum(tables.SOME, [recv + b])
            return super().method(it, m, e, env)
    n = 0
    for crate in ("oxidd_manager_index", "oxidd_manager_pointer"):
        fails = []
        fids = {nm: next((f for f, r in F.fns.items() if f.startswith(crate + "::manager::") and f.endswith("::" + nm)
                          and (r.get("impl") or {}).get("trait") == "oxidd_core::Manager"), None)
                for nm in ("add_vars", "add_named_vars_from_map")}
        if not ctx.anchor(rule, "%s add_vars / add_named_vars_from_map" % crate, all(fids.values())):
            continue
        for L, k in ((0, 3), (2, 3), (4, 0)):
            holder = {}

            def mk(oracle):
                holder["d"] = D()
                return Interp(F, holder["d"], oracle)
            me = Rec("manager", unique_table=[Opaque("level")] * L, var_level_map=Rec("vlm", n=L), var_name_map=Rec("vnm", n=L), data=Rec("data", n=0))
            for trace, (status, val) in enumerate_runs(mk, lambda it: it.call_fn(fids["add_vars"], [me, k])):
                n += 1
                sit = "add_vars(%d) on %d variables" % (k, L)
                ok = status == "ok" and isinstance(val, StructVal) and val.fields.get("start") == L and val.fields.get("end") == L + k
                if not ok:
                    fails.append("%s returns %s %r, expected %d..%d" % (sit, status, val, L, L + k))
                    continue
                if len(me.unique_table) != L + k or ("extend", [k]) not in me.var_level_map.calls or ("add_unnamed", [k]) not in me.var_name_map.calls:
                    fails.append("%s: level table %d long, var/level map calls %r, name map calls %r" %
                                 (sit, len(me.unique_table), me.var_level_map.calls, me.var_name_map.calls))
        for nmap in (0, 3):
            holder = {}

            def mk(oracle):
                holder["d"] = D()
                return Interp(F, holder["d"], oracle)
            me = Rec("manager", unique_table=[], var_level_map=Rec("vlm", n=0), var_name_map=Rec("vnm", n=0), data=Rec("data", n=0))
            the_map = Rec("map", n=nmap)
            for trace, (status, val) in enumerate_runs(mk, lambda it: it.call_fn(fids["add_named_vars_from_map"], [me, the_map])):
                n += 1
                sit = "add_named_vars_from_map(%d names) on an empty manager" % nmap
                v = val.args[0] if status == "ok" and isinstance(val, Enum) and val.path == OK else None
                ok = isinstance(v, StructVal) and v.fields.get("start") == 0 and v.fields.get("end") == nmap
                if not ok:
                    fails.append("%s returns %s %r, expected Ok(0..%d)" % (sit, status, val, nmap))
                    continue
                if len(me.unique_table) != nmap or ("extend", [nmap]) not in me.var_level_map.calls or me.var_name_map is not the_map:
                    fails.append("%s: level table %d long, var/level map calls %r, name map adopted: %r" %
                                 (sit, len(me.unique_table), me.var_level_map.calls, me.var_name_map is the_map))
        # a manager that already has variables must not adopt the map (it would drop the existing names and leave the
        # level table short): the call is handed to add_named_vars
        holder = {}

        def mk(oracle):
            holder["d"] = D()
            return Interp(F, holder["d"], oracle)
        old_names = Rec("vnm", n=2)
        me = Rec("manager", unique_table=[Opaque("level")] * 2, var_level_map=Rec("vlm", n=2), var_name_map=old_names, data=Rec("data", n=0))
        the_map = Rec("map", n=3)
        the_map.named = 0           # three unnamed variables: still appended behind the existing ones, never adopted
        for trace, (status, val) in enumerate_runs(mk, lambda it: it.call_fn(fids["add_named_vars_from_map"], [me, the_map])):
            n += 1
            delegated = [c for c in me.calls if c[0] == "add_named_vars"]
            if status != "ok" or me.var_name_map is not old_names or len(delegated) != 1 or len(me.unique_table) != 2 or me.var_level_map.calls:
                fails.append("add_named_vars_from_map on a manager with 2 variables: %s; name map replaced: %r, delegated to add_named_vars: %d time(s), "
                             "level table %d long" % (status, me.var_name_map is not old_names, len(delegated), len(me.unique_table)))
        ctx.ob(rule, "%s:%s" % (rule, crate), not fails, "%s add_vars / add_named_vars_from_map: %s" % (crate, " || ".join(fails[:3]) if fails else
               "tables grow by the number of new variables and the returned range names exactly them"))
    return n


def check_get_or_add_flag(ctx, F, rule="E-VNM.found"):
    """`VarNameMap::get_or_add(name)` returns `(var, found)`: `found` is true exactly when the name was already present.
    From MIR: every return tuple whose second component is the constant `true` is built after `OccupiedEntry::get`
    (the present-name arm), every `false` one is not."""
    fids = [f for f in F.mir if f.startswith(MOD) and f.endswith("::get_or_add")]
    if not ctx.anchor(rule, "VarNameMap::get_or_add", len(fids) == 1):
        return 0
    fid = fids[0]
    m = F.mir[fid]
    B = cfg.Body(m)
    occ = [i for i, t in B.calls() if re.search(r"OccupiedEntry<.*>::get$|OccupiedEntry::<.*>::get$", cfg.callee_name(t) or "")]
    tuples = []
    for i in sorted(B.reach):
        b = m["blocks"][i]
        if b["c"]:
            continue
        for s in b["s"]:
            rv = s.get("rv") or {}
            if s.get("lhs") == 0 and rv.get("k") == "aggr" and len(rv.get("ops", [])) == 2:
                c = (rv["ops"][1] or {}).get("c")
                tuples.append((i, str(c)))
    ok = bool(occ) and len(tuples) >= 3
    bad = []
    for i, c in tuples:
        after = any(B.dominates(o, i) for o in occ)
        if c == "true" and not after:
            bad.append("`found = true` is returned on a path that did not find the name")
        if c == "false" and after:
            bad.append("`found = false` is returned for a name that is present")
        if c not in ("true", "false"):
            bad.append("the flag is not a constant")
    ctx.ob(rule, rule, ok and not bad, "%s (%s): %s" % (F.nice(fid), F.where(fid), "; ".join(sorted(set(bad))) if bad else
                                                      "found is true exactly on the present-name arm (%d returns)" % len(tuples) if ok else
                                                      "return tuples / OccupiedEntry::get not found"))
    # a new name is entered (VacantEntry::insert + names.push) unless the variable numbers are exhausted: both calls lie on the
    # `false` edge of the one comparison of the next number with VarNo::MAX
    ins = [i for i, t in B.calls() if re.search(r"VacantEntry<.*>::insert$|VacantEntry::<.*>::insert$", cfg.callee_name(t) or "")]
    push = [i for i, t in B.calls() if (cfg.callee_name(t) or "").endswith("::push") and not m["blocks"][i]["c"]]
    tests = []
    for i in sorted(B.reach):
        b = m["blocks"][i]
        t = b["t"]
        if t["k"] != "switch" or b["c"]:
            continue
        d = cfg.op_place(t["d"])
        for s_ in b["s"]:
            rv = s_.get("rv") or {}
            if s_.get("lhs") == d and rv.get("k") == "bin" and rv.get("o") in ("Eq", "Ne") and \
                    any(cfg.const_int(rv.get(x)) == 2 ** 32 - 1 for x in ("a", "b")):
                zero = [blk for v, blk in t["t"] if int(v) == 0]
                if len(zero) == 1:
                    eq_edge, ne_edge = (t["o"], zero[0]) if rv["o"] == "Eq" else (zero[0], t["o"])
                    tests.append((i, eq_edge, ne_edge))
    ok2 = len(tests) == 1 and bool(ins) and bool(push)
    if ok2:
        sw, eq_edge, ne_edge = tests[0]
        r_ne = B.reachable_from(ne_edge, avoid=(sw,))
        r_eq = B.reachable_from(eq_edge, avoid=(sw,))
        later = [i for i in push if B.dominates(sw, i)]        # (the unnamed-variable arm pushes before the test)
        ok2 = bool(later) and all(i in r_ne and i not in r_eq for i in ins + later)
    ctx.ob(rule, rule + ":enter", ok2, "%s (%s): %s" % (F.nice(fid), F.where(fid),
           "a new name is entered in the index and the name list exactly when the next number is not VarNo::MAX" if ok2 else
           "the insertion of a new name (VacantEntry::insert, names.push) does not sit on the `next number != VarNo::MAX` edge: new names "
           "are not entered (or entered past the last variable number)"))
    return 2
