"""E-WRAP: wrapper / forwarder agreement (DESIGN 3.4).

The public operations reach the recursive algorithms through small wrapper
functions (trait methods `x_edge`, dispatch tables, derived operators written as
compositions).  Each wrapper is interpreted from its HIR over *symbolic
operands*; the algorithm entry points are builtins with the meaning their name
and const-generic operator tag stand for (`apply_bin::<OP>` = OP, `apply_and` =
and, `not` = complement, `quant::<Q>` = quantifier Q, ...).  The resulting term is
compared with the specification *of the wrapper's name* by evaluating both over
all valuations of the operands.  This decides that every public operation is
wired to the algorithm instance, operand order and operator tag it is named for;
it does not decide the recursion inside the algorithms.
"""
import itertools
import math

import tables
from lib import hirutil as H
from lib.interp import (Beyond, Edge, Enum, Infeasible, Interp, Opaque, Panic, Return, Unrecognised,
                        enumerate_runs)
from tables import BDD_SPEC, NUM_OPS, OK, TDD_SPEC, DDDomain

BOOLOP = "oxidd_core::function::BooleanOperator"
W = 2   # "worlds": values of the one quantified variable


def fedge(term):
    return Edge(("F", term))


def term_of(e):
    if isinstance(e, Edge) and e.node[0] == "F":
        return e.node[1]
    raise Unrecognised("not a function-valued edge: %r" % (e,))


# ---- per-kind algebra ------------------------------------------------------------------
class Algebra:
    def __init__(self, name, binops, not_fn, values, consts):
        self.name = name
        self.binops = binops
        self.not_fn = not_fn
        self.values = values
        self.consts = consts


ALG_BOOL = Algebra("bool", BDD_SPEC, lambda v: 1 - v, [0, 1], {"False": 0, "True": 1, "Empty": 0, "Base": 1})
ALG_TVL = Algebra("tvl", TDD_SPEC, lambda v: 2 - v, [0, 1, 2], {"False": 0, "Unknown": 1, "True": 2})
NUMVALS = [math.nan, -math.inf, -2.0, 0.0, 1.0, 3.0, math.inf]
ALG_NUM = Algebra("num", {k.capitalize(): v for k, v in NUM_OPS.items()}, None, NUMVALS, {})

def tvl_ite(a, b, c):
    """the three-valued if-then-else named in property C11 (F=0, U=1, T=2)"""
    if b == c or a == 2:
        return b
    if a == 0:
        return c
    if a == b:
        return max(a, c)     # or(a, c)
    if a == c:
        return min(a, b)     # and(a, b)
    return 1


QUANT = {
    "forall": lambda a, b: a & b, "exists": lambda a, b: a | b, "unique": lambda a, b: a ^ b,
}
QNAME = {"And": "forall", "Or": "exists", "Xor": "unique", "Forall": "forall", "Exists": "exists", "Unique": "unique"}


def ev_term(alg, t, val):
    """evaluate a term to a tuple of W values (or a symbolic tuple for uninterpreted operations)"""
    k = t[0]
    if k == "atom":
        return val[t[1]]
    if k == "const":
        return (t[1],) * W
    if k == "not":
        a = ev_term(alg, t[1], val)
        return tuple(alg.not_fn(x) if not isinstance(x, tuple) else
                     (("q", alg.not_fn(x[1]), x[2]) if x[0] == "q" else ("not", x)) for x in a)
    if k == "bin":
        a = ev_term(alg, t[2], val)
        b = ev_term(alg, t[3], val)
        f = alg.binops[t[1]]
        return tuple(f(x, y) if not (isinstance(x, tuple) or isinstance(y, tuple)) else ("bin", t[1], x, y)
                     for x, y in zip(a, b))
    if k == "ite":
        a, b, c = (ev_term(alg, x, val) for x in t[1:4])
        if alg is ALG_BOOL:
            return tuple((x & y) | ((1 - x) & z) for x, y, z in zip(a, b, c))
        if alg is ALG_TVL and all(isinstance(v, int) for v in a + b + c):
            return tuple(tvl_ite(x, y, z) for x, y, z in zip(a, b, c))
        if alg is ALG_NUM and all(isinstance(v, float) for v in a + b + c):
            return tuple((y if x == 1.0 else z if x == 0.0 else ("ite?", x)) for x, y, z in zip(a, b, c))
        return tuple(("ite", x, y, z) for x, y, z in zip(a, b, c))
    if k == "quant":
        a = ev_term(alg, t[2], val)
        vs = ev_term(alg, t[3], val)
        r = QUANT[t[1]](a[0], a[1])
        return tuple(("q", r, v) for v in vs)
    if k == "u":
        args = tuple(ev_term(alg, x, val) if isinstance(x, tuple) and x and x[0] in
                     ("atom", "const", "not", "bin", "ite", "quant", "u") else x for x in t[2:])
        return (("u", t[1]) + args,) * W
    raise Unrecognised("term %r" % (t,))


def same(a, b):
    if len(a) != len(b):
        return False
    for x, y in zip(a, b):
        if isinstance(x, float) and isinstance(y, float):
            if not ((math.isnan(x) and math.isnan(y)) or x == y):
                return False
        elif isinstance(x, tuple) and isinstance(y, tuple):
            if not same(x, y):
                return False
        elif x != y:
            return False
    return True


# ---- the frozen meaning of the algorithm entry points ----------------------------------------
# did -> (kind of result, op enum for const args, builder)
def _edges(args):
    return [a for a in args if isinstance(a, Edge)]


class WrapDomain(DDDomain):
    def __init__(self, F, alg, kind_mod, op_enum):
        super().__init__(F, tables.BDD)
        self.alg = alg
        self.mod = kind_mod      # e.g. "oxidd_rules_bdd::simple"
        self.op_enum = op_enum
        self.opnames = {int(v["discr"]): v["n"] for v in F.adts[op_enum]["variants"]}

    def opname(self, c):
        if isinstance(c, str):
            raise Unrecognised("unevaluated const generic argument %s" % c)
        # i8 VAL for ZBDD subset is encoded as u8/i8 bits
        return self.opnames.get(c)

    def equal(self, it, a, b):
        r = super().equal(it, a, b)
        return r

    def algo(self, it, did, consts, args):
        """meaning of an algorithm entry point; returns an edge (wrapped in Ok by the caller)"""
        mod = self.mod
        name = did[len(mod) + 2:] if did.startswith(mod + "::") else None
        if name is None:
            return None
        es = _edges(args)
        ts = [term_of(e) for e in es]
        short = name.split("::")[-1]
        if short == "apply_bin" and len(consts) == 1 and len(ts) == 2:
            op = self.opname(consts[0])
            if op not in self.alg.binops:
                raise Unrecognised("operator %r is not a binary operator of %s" % (op, self.op_enum))
            return fedge(("bin", op, ts[0], ts[1]))
        if short == "apply_and" and len(ts) == 2:
            return fedge(("bin", "And", ts[0], ts[1]))
        if short in ("apply_not",) and len(ts) == 1:
            return fedge(("not", ts[0]))
        if short in ("apply_ite", "apply_ite_rec") and len(ts) == 3:
            return fedge(("ite", ts[0], ts[1], ts[2]))
        if short == "quant" and len(consts) == 1 and len(ts) == 2:
            q = QNAME.get(self.opname(consts[0]))
            if q is None:
                raise Unrecognised("quantifier tag %r" % (self.opname(consts[0]),))
            return fedge(("quant", q, ts[0], ts[1]))
        if short == "apply_quant" and len(consts) == 2 and len(ts) == 3:
            q = QNAME.get(self.opname(consts[0]))
            op = self.opname(consts[1])
            op = {"UniqueNand": "Nand"}.get(op, op)
            if q is None or op not in self.alg.binops:
                raise Unrecognised("apply_quant tags %r" % (consts,))
            return fedge(("quant", q, ("bin", op, ts[0], ts[1]), ts[2]))
        if short == "restrict" and len(ts) == 2:
            return fedge(("u", "restrict", ts[0], ts[1]))
        if short == "apply_union" and len(ts) == 2:
            return fedge(("bin", "Or", ts[0], ts[1]))
        if short == "apply_intsec" and len(ts) == 2:
            return fedge(("bin", "And", ts[0], ts[1]))
        if short == "apply_diff" and len(ts) == 2:
            return fedge(("bin", "ImpStrict", ts[1], ts[0]))   # a \ b = (not b) and a = imp_strict(b, a)
        if short == "apply_symm_diff" and len(ts) == 2:
            return fedge(("bin", "Xor", ts[0], ts[1]))
        if short == "subset" and len(consts) == 1 and len(ts) == 1:
            v = consts[0]
            v = v - 256 if v > 127 else v
            nm = {0: "subset0", 1: "subset1", -1: "change"}.get(v)
            if nm is None:
                raise Unrecognised("subset VAL %r" % (v,))
            others = [a for a in args if isinstance(a, tuple) and a and a[0] == "varno"]
            return fedge(("u", nm, ts[0]) + tuple(others[:1]))
        return None

    def call(self, it, name, f, args_e, env, e):
        did = f.get("did", "")
        mod = self.mod
        root = mod[:-len("::apply_rec")] if mod.endswith("::apply_rec") else mod
        if did in (root + "::not", root + "::not_owned"):
            (a,) = [it.ev(x, env) for x in args_e]
            return fedge(("not", term_of(a)))
        if did == root + "::get_terminal":
            args = [it.ev(x, env) for x in args_e]
            if isinstance(args[1], bool):
                return fedge(("const", int(args[1])))
            raise Unrecognised("get_terminal(%r)" % (args[1],))
        if "EdgeDropGuard" in name and name.endswith("::new"):
            args = [it.ev(x, env) for x in args_e]
            return args[1]
        if "ParallelRecursor" in name and name.endswith("::new"):
            return Opaque("rec")
        if f.get("dk") == "AssocFn" and f.get("trait", "").startswith("oxidd_core::function::"):
            # Self::x_edge(...): a sibling wrapper of the same impl
            sib = self.sibling(env.get("$fn"), f["item"])
            if sib is None:
                # trait default method (e.g. not_edge_owned): interpret the default body
                sib = self.trait_default(f["did"])
            if sib is None:
                raise Unrecognised("cannot resolve %s" % name)
            args = [it.ev(x, env) for x in args_e]
            return it.call_fn(sib, args)
        if did.startswith(mod + "::"):
            args = [it.ev(x, env) for x in args_e]
            consts = [c if not isinstance(c, str) else env.get("$consts", {}).get(c, c) for c in H.const_args(e)]
            r = self.algo(it, did, consts, args)
            if r is not None:
                return Enum(OK, [r])
            if did in self.F.hir:
                # a local dispatch/helper function: interpret it
                fr = self.F.fns.get(did, {})
                names = [g["n"] for g in fr.get("generics", []) if g["k"] == "const"]
                return it.call_fn(did, args, dict(zip(names, consts)))
        return super().call(it, name, f, args_e, env, e)

    def sibling(self, fid, item):
        r = self.F.fns.get(fid)
        if not r or "impl" not in r:
            return None
        iid = r["impl"]["id"]
        # all impls of the same self type
        selfty = r["impl"]["self"]
        for x in self.F.fns.values():
            imp = x.get("impl")
            if imp and imp["self"] == selfty and x["id"].endswith("::" + item) and imp.get("trait", "").startswith("oxidd_core::function::"):
                return x["id"]
        return None

    def trait_default(self, did):
        return did if did in self.F.hir else None

    def method(self, it, m, e, env):
        if m.endswith("EdgeDropGuard::<'a, M>::into_edge") or m in ("oxidd_core::util::Borrowed::<'a, E>::into_inner",):
            return it.recv(e, env)
        if m == "oxidd_core::Manager::get_terminal":
            it.recv(e, env)
            (tv,) = it.args(e, env)
            if isinstance(tv, Enum) and tv.short in self.alg.consts:
                return Enum(OK, [fedge(("const", self.alg.consts[tv.short]))])
            raise Unrecognised("get_terminal(%r)" % (tv,))
        if m == "oxidd_core::Manager::clone_edge":
            it.recv(e, env)
            (x,) = it.args(e, env)
            return x
        if m == "oxidd_core::Manager::var_to_level":
            it.recv(e, env)
            (x,) = it.args(e, env)
            return ("level_of", x)
        if m.endswith("ZBDDCache::<E>::tautology") or m.endswith("HasZBDDCache::zbdd_cache"):
            r = it.recv(e, env)
            if m.endswith("tautology"):
                (lvl,) = it.args(e, env)
                if lvl != 0:
                    raise Unrecognised("tautology(%r): only level 0 denotes the constant true" % (lvl,))
                return fedge(("const", 1))
            return Opaque("zbdd_cache")
        return super().method(it, m, e, env)


# ---- specifications by wrapper name -----------------------------------------------------------
def spec_term(name, alg, params):
    """params: list of terms for the wrapper's operands (after manager)"""
    p = params
    binmap = {"and_edge": "And", "or_edge": "Or", "nand_edge": "Nand", "nor_edge": "Nor", "xor_edge": "Xor",
              "equiv_edge": "Equiv", "imp_edge": "Imp", "imp_strict_edge": "ImpStrict",
              "add_edge": "Add", "sub_edge": "Sub", "mul_edge": "Mul", "div_edge": "Div", "min_edge": "Min",
              "max_edge": "Max", "union_edge": "Or", "intsec_edge": "And"}
    if name in binmap and len(p) == 2:
        return ("bin", binmap[name], p[0], p[1])
    if name == "diff_edge" and len(p) == 2:
        return ("bin", "ImpStrict", p[1], p[0])
    if name in ("not_edge", "not_edge_owned") and len(p) == 1:
        return ("not", p[0])
    if name == "ite_edge" and len(p) == 3:
        return ("ite", p[0], p[1], p[2])
    if name == "restrict_edge" and len(p) == 2:
        return ("u", "restrict", p[0], p[1])
    if name in ("forall_edge", "exists_edge", "unique_edge") and len(p) == 2:
        return ("quant", name.split("_")[0], p[0], p[1])
    if name in ("subset0_edge", "subset1_edge", "change_edge") and len(p) == 2:
        return ("u", name[:-5], p[0], p[1])
    return None


def check_impl_wrappers(ctx, F, rule, self_prefix, alg, kind_mod, op_enum, traits):
    """all `x_edge` methods of the impls of `traits` for types starting with self_prefix"""
    n = 0
    for fid, r in sorted(F.fns.items()):
        imp = r.get("impl")
        if not imp or imp.get("trait") not in traits or not imp["self"].startswith(self_prefix):
            continue
        name = fid.rsplit("::", 1)[1]
        h = F.hir.get(fid)
        if h is None:
            continue
        pn = H.param_names(h)
        key = "%s:%s" % (rule, F.nice(fid))
        where = "%s (%s)" % (F.nice(fid), F.where(fid))
        # apply_{forall,exists,unique}_edge(manager, op, lhs, rhs, vars)
        if name in ("apply_forall_edge", "apply_exists_edge", "apply_unique_edge"):
            q = name.split("_")[1]
            ops = [v["n"] for v in F.adts[BOOLOP]["variants"]]
            bad = []
            cnt = 0
            for op in ops:
                atoms = [("atom", "lhs"), ("atom", "rhs"), ("atom", "vars")]
                want = ("quant", q, ("bin", op, atoms[0], atoms[1]), atoms[2])
                args = [Opaque("manager"), Enum("%s::%s" % (BOOLOP, op))] + [fedge(a) for a in atoms]
                res = run_wrapper(F, fid, args, alg, kind_mod, op_enum, want, ["lhs", "rhs", "vars"])
                cnt += res[0]
                if res[1]:
                    bad.append("%s: %s" % (op, res[1]))
            n += cnt
            ctx.ob(rule, key, not bad,
                   ("%s does not compute %s v.(lhs OP rhs) for: %s" % (where, q, "; ".join(bad[:3]))) if bad else
                   "%s computes %s v.(lhs OP rhs) for all 8 operators" % (where, q))
            continue
        operands = pn[1:]
        atoms = [("atom", x or "p%d" % i) for i, x in enumerate(operands)]
        want = spec_term(name, alg, atoms)
        if want is None:
            continue   # not a wrapper with a name-determined meaning (var_edge, eval_edge, ...)
        args = [Opaque("manager")]
        for a, pname in zip(atoms, operands):
            if name in ("subset0_edge", "subset1_edge", "change_edge") and pname == operands[1]:
                args.append(("varno", pname))
            else:
                args.append(fedge(a))
        if name in ("subset0_edge", "subset1_edge", "change_edge"):
            want = ("u", name[:-5], atoms[0], ("varno", operands[1]))
        res = run_wrapper(F, fid, args, alg, kind_mod, op_enum, want, [a[1] for a in atoms])
        n += res[0]
        ctx.ob(rule, key, not res[1],
               ("%s is not wired to the operation it is named for: %s" % (where, res[1])) if res[1] else
               "%s == %s" % (where, show(want)))
    return n


def show(t):
    k = t[0]
    if k == "atom":
        return t[1]
    if k == "const":
        return str(t[1])
    if k == "not":
        return "!%s" % show(t[1])
    if k == "bin":
        return "%s(%s, %s)" % (t[1], show(t[2]), show(t[3]))
    if k == "ite":
        return "ite(%s, %s, %s)" % tuple(show(x) for x in t[1:4])
    if k == "quant":
        return "%s %s.%s" % (t[1], show(t[3]), show(t[2]))
    if k == "u":
        return "%s(%s)" % (t[1], ", ".join(show(x) if isinstance(x, tuple) and x and x[0] in
                                            ("atom", "const", "not", "bin", "ite", "quant", "u") else str(x) for x in t[2:]))
    return str(t)


def run_wrapper(F, fid, args, alg, kind_mod, op_enum, want, atom_names, consts=None):
    """returns (number of runs, error string or None)"""
    runs = 0
    err = None

    def mk(oracle):
        return Interp(F, WrapDomain(F, alg, kind_mod, op_enum), oracle, max_depth=5)

    def run(it):
        return it.call_fn(fid, args, consts or {})
    for trace, (status, val) in enumerate_runs(mk, run):
        runs += 1
        if status == "unrecognised":
            return runs, "UNRECOGNISED-SHAPE: %s" % val
        if status != "ok":
            return runs, "%s: %s" % (status, val)
        if isinstance(val, Enum) and val.path == OK:
            val = val.args[0]
        try:
            got = term_of(val)
        except Unrecognised as u:
            return runs, "UNRECOGNISED-SHAPE result: %s" % u
        # compare over all valuations
        doms = []
        for a in atom_names:
            doms.append(list(itertools.product(alg.values, repeat=W)))
        try:
            for combo in itertools.product(*doms):
                val_ = dict(zip(atom_names, combo))
                g = ev_term(alg, got, val_)
                w = ev_term(alg, want, val_)
                if not same(g, w):
                    return runs, "computes %s, expected %s (differs for %s)" % (show(got), show(want), val_)
        except Unrecognised as u:
            return runs, "UNRECOGNISED-SHAPE term: %s" % u
    return runs, err


# ---- trait default methods of oxidd_core::function ------------------------------------------------
DEFAULT_EXC = {
    # method -> edge-level methods it may call instead of / besides `<name>_edge`, with reason
    "cofactor_true": {"cofactors_edge"}, "cofactor_false": {"cofactors_edge"}, "cofactor_unknown": {"cofactors_edge"},
    "cofactors": {"cofactors_edge"},
    "not_var": {"not_var_edge"},
    "satisfiable": set(), "valid": set(),
}


def check_trait_defaults(ctx, F, rule="E-WRAP.default"):
    """`fn m(..)` with a sibling `m_edge` must forward to exactly `Self::m_edge`, operands in order"""
    n = 0
    for tid, tr in sorted(F.traits.items()):
        if not tid.startswith("oxidd_core::function::"):
            continue
        items = {i["n"]: i for i in tr["items"] if i["kind"].startswith("Fn") or "Fn" in i["kind"]}
        for name, it in sorted(items.items()):
            if name.endswith("_edge") or (name + "_edge") not in items or not it.get("has_default"):
                continue
            fid = it["id"]
            h = F.hir.get(fid)
            if h is None:
                continue
            n += 1
            key = "%s:%s::%s" % (rule, tr["name"], name)
            edge_calls = []
            for c in H.calls(h["body"]):
                if c["k"] == "call" and c["f"].get("dk") == "AssocFn" and c["f"].get("trait", "").startswith("oxidd_core::function::"):
                    item = c["f"].get("item", "")
                    if item.endswith("_edge") and item not in ("from_edge", "as_edge", "into_edge"):
                        edge_calls.append((item, c))
            called = {i for i, _ in edge_calls}
            allowed = {name + "_edge"} | DEFAULT_EXC.get(name, set())
            extra = called - allowed
            ok = not extra and (name + "_edge" in called or name in DEFAULT_EXC)
            detail = ""
            if extra:
                detail = ("%s::%s (%s) calls %s but is named for %s_edge"
                          % (tr["name"], name, F.where(fid), ", ".join(sorted(extra)), name))
            elif not ok:
                detail = "%s::%s (%s) does not call %s_edge" % (tr["name"], name, F.where(fid), name)
            # operand order of the `<name>_edge` call
            if ok and name + "_edge" in called:
                pn = H.param_names(h)
                cl = [c for c in H.closures(h["body"])]
                for item, c in edge_calls:
                    if item != name + "_edge":
                        continue
                    al = H.let_aliases(h["body"])
                    roots = [H.root_local(a) for a in c["a"]]
                    roots = [al.get(r, r) for r in roots]
                    expect = None
                    if cl and len(cl[0]["params"]) >= 2:
                        cp = [p.get("n") for p in cl[0]["params"]]
                        expect = cp[:2] + [p for p in pn if p not in ("self",)]
                    elif pn and pn[0] != "self":
                        expect = pn
                    if expect is not None:
                        own = [x for x in pn if x not in ("self", None)]
                        named = [r for r in roots if r in own]
                        selfedge = expect[1] if (cl and len(cl[0]["params"]) >= 2) else None
                        if named != own or (selfedge and roots.count(selfedge) != 1) or (roots and roots[0] != expect[0]):
                            ok = False
                            detail = ("%s::%s (%s) passes operands %s to %s_edge; its own parameters %s must be "
                                      "forwarded once each, in order%s"
                                      % (tr["name"], name, F.where(fid), roots, name, own,
                                         (", together with the self edge `%s`" % selfedge) if selfedge else ""))
            ctx.ob(rule, key, ok, detail or "%s::%s forwards to %s_edge with operands in order" % (tr["name"], name, name))
    return n
