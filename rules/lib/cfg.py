"""CFG helpers over the `mir` records: successors with constant-branch pruning,
reachability, dominators, post-dominators, simple def-use queries."""


def is_const_operand(op):
    return isinstance(op, dict) and "c" in op


def const_int(op):
    if isinstance(op, dict) and "c" in op:
        if "int" in op:
            return int(op["int"])
        if op["c"] == "false":
            return 0
        if op["c"] == "true":
            return 1
    return None


def place_local(p):
    return p if isinstance(p, int) else p["l"]


def place_proj(p):
    return [] if isinstance(p, int) else p["p"]


def op_place(op):
    if isinstance(op, dict):
        if "cp" in op:
            return op["cp"]
        if "mv" in op:
            return op["mv"]
    return None


class Body:
    def __init__(self, mir, prune_consts=True, follow_unwind=False):
        self.mir = mir
        self.id = mir["id"]
        self.blocks = mir["blocks"]
        self.n = len(self.blocks)
        self.locals = mir["locals"]
        self.follow_unwind = follow_unwind
        self.const_locals = self._const_locals() if prune_consts else {}
        self.succ = [self._succ(i, prune_consts) for i in range(self.n)]
        self.pred = [[] for _ in range(self.n)]
        for i, ss in enumerate(self.succ):
            for s in ss:
                self.pred[s].append(i)
        self.reach = self._reach()
        self._idom = None
        self._ipdom = None

    # locals assigned exactly once with a constant (e.g. `_5 = const false` from cfg!(debug_assertions))
    def _const_locals(self):
        assigns = {}
        for b in self.blocks:
            for s in b["s"]:
                if "lhs" in s and isinstance(s["lhs"], int):
                    assigns.setdefault(s["lhs"], []).append(s["rv"])
            t = b["t"]
            if t["k"] == "call":
                d = t["d"]
                if isinstance(d, int):
                    assigns.setdefault(d, []).append(None)
        out = {}
        for l, rvs in assigns.items():
            if len(rvs) == 1 and rvs[0] and rvs[0]["k"] == "use":
                v = const_int(rvs[0]["op"])
                if v is not None:
                    out[l] = v
        return out

    def _succ(self, i, prune):
        t = self.blocks[i]["t"]
        k = t["k"]
        out = []
        if k == "goto":
            out = [t["t"]]
        elif k == "switch":
            v = None
            if prune:
                v = const_int(t["d"])
                if v is None:
                    p = op_place(t["d"])
                    if isinstance(p, int) and p in self.const_locals:
                        v = self.const_locals[p]
            if v is not None:
                tgt = t["o"]
                for val, b in t["t"]:
                    if int(val) == v:
                        tgt = b
                out = [tgt]
            else:
                out = [b for _, b in t["t"]] + [t["o"]]
        elif k in ("drop", "call", "assert"):
            if t.get("t") is not None:
                out = [t["t"]]
            if self.follow_unwind and t.get("u") is not None:
                out.append(t["u"])
        elif k == "asm":
            out = list(t.get("ts", []))
        # return / resume / unreachable / terminate: no successors
        seen = []
        for s in out:
            if s not in seen:
                seen.append(s)
        return seen

    def _reach(self):
        seen = {0}
        st = [0]
        while st:
            x = st.pop()
            for s in self.succ[x]:
                if s not in seen:
                    seen.add(s)
                    st.append(s)
        return seen

    # ---- dominators (iterative, Cooper-Harvey-Kennedy) ----------------------
    def _dom(self, entry_nodes, succ, pred, nodes):
        # generic: returns idom dict over `nodes` w.r.t. virtual entry -1
        order = []
        seen = set()

        def dfs(s):
            stack = [(s, iter(succ(s)))]
            seen.add(s)
            while stack:
                n, it = stack[-1]
                adv = False
                for m in it:
                    if m not in seen and m in nodes:
                        seen.add(m)
                        stack.append((m, iter(succ(m))))
                        adv = True
                        break
                if not adv:
                    order.append(n)
                    stack.pop()
        for e in entry_nodes:
            if e not in seen:
                dfs(e)
        rpo = list(reversed(order))
        idx = {n: i for i, n in enumerate(rpo)}
        idom = {e: -1 for e in entry_nodes}

        def intersect(a, b):
            while a != b:
                while a != -1 and b != -1 and idx.get(a, -1) > idx.get(b, -1):
                    a = idom[a]
                while a != -1 and b != -1 and idx.get(b, -1) > idx.get(a, -1):
                    b = idom[b]
                if a == -1 or b == -1:
                    return -1
            return a
        changed = True
        while changed:
            changed = False
            for n in rpo:
                if n in entry_nodes:
                    continue
                ps = [p for p in pred(n) if p in idom]
                if not ps:
                    continue
                new = ps[0]
                for p in ps[1:]:
                    new = intersect(new, p)
                if idom.get(n, None) != new:
                    idom[n] = new
                    changed = True
        return idom

    @property
    def idom(self):
        if self._idom is None:
            self._idom = self._dom([0], lambda n: self.succ[n], lambda n: self.pred[n], self.reach)
        return self._idom

    def dominates(self, a, b):
        """block a dominates block b (both reachable)"""
        if a == b:
            return True
        x = b
        idom = self.idom
        while x in idom and idom[x] != -1:
            x = idom[x]
            if x == a:
                return True
        return False

    def exits(self, kinds=("return",)):
        return [i for i in self.reach if self.blocks[i]["t"]["k"] in kinds]

    @property
    def ipdom(self):
        """post-dominators w.r.t. normal `return` exits"""
        if self._ipdom is None:
            ex = self.exits()
            self._ipdom = self._dom(ex, lambda n: [p for p in self.pred[n] if p in self.reach],
                                    lambda n: [s for s in self.succ[n] if s in self.reach], self.reach)
        return self._ipdom

    def postdominates(self, a, b):
        """every path from b to a return passes a"""
        if a == b:
            return True
        x = b
        ip = self.ipdom
        while x in ip and ip[x] != -1:
            x = ip[x]
            if x == a:
                return True
        return False

    def reachable_from(self, start, avoid=()):
        seen = set()
        st = [start]
        while st:
            x = st.pop()
            if x in seen or x in avoid:
                continue
            seen.add(x)
            st.extend(self.succ[x])
        return seen

    def can_reach(self, a, b, avoid=()):
        """is there a path a ->+ b (at least one edge) avoiding `avoid` blocks"""
        seen = set()
        st = list(self.succ[a])
        while st:
            x = st.pop()
            if x in seen or x in avoid:
                continue
            if x == b:
                return True
            seen.add(x)
            st.extend(self.succ[x])
        return False

    # ---- iteration helpers --------------------------------------------------
    def calls(self, reachable_only=True):
        for i, b in enumerate(self.blocks):
            if reachable_only and i not in self.reach:
                continue
            t = b["t"]
            if t["k"] == "call":
                yield i, t

    def local_name(self, l):
        return self.locals[l].get("n")

    def local_ty(self, l):
        return self.locals[l]["ty"]


def callee_name(t):
    """resolved callee path if available, else declared path, else None (indirect)"""
    f = t["f"]
    if "def" in f:
        return f.get("res") or f["def"]
    if "fn" in f:
        return f["fn"].get("res") or f["fn"]["def"]
    return None


def callee_decl(t):
    f = t["f"]
    if "def" in f:
        return f["def"]
    return None


def fn_item_of(op):
    """if operand is a fn-item constant, return its (resolved or declared) path"""
    if isinstance(op, dict) and "fn" in op:
        return op["fn"].get("res") or op["fn"]["def"]
    return None
