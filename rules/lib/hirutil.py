"""helpers over the HIR expression trees dumped by oxfacts"""

TRANSPARENT_METHODS = {
    "oxidd_core::Edge::borrowed", "oxidd_core::function::Function::as_edge", "std::borrow::Borrow::borrow",
    "std::ops::Deref::deref", "std::convert::AsRef::as_ref", "std::clone::Clone::clone",
    "oxidd_core::util::Borrowed::<'a, E>::into_inner", "std::ops::DerefMut::deref_mut",
    "oxidd_core::util::Substitution::map", "oxidd_core::util::substitution::Substitution::map",
    "oxidd_core::Edge::with_tag_owned", "oxidd_core::Edge::with_tag",
}


def walk(x):
    """pre-order walk over all expression/pattern dicts"""
    if isinstance(x, dict):
        yield x
        for v in x.values():
            if isinstance(v, (dict, list)):
                yield from walk(v)
    elif isinstance(x, list):
        for v in x:
            yield from walk(v)


def calls(x):
    """all call-like nodes: ('call', callee_path_dict, node) / ('mcall', method path, node)"""
    for n in walk(x):
        k = n.get("k")
        if k == "call" and isinstance(n.get("f"), dict) and n["f"].get("k") == "path":
            yield n
        elif k == "mcall":
            yield n


def callee(n):
    """(resolved path, short name) of a call/mcall node"""
    if n["k"] == "mcall":
        m = n.get("m") or ("?::" + n["name"])
        return m
    f = n["f"]
    return f.get("n") or "?"


def callee_did(n):
    if n["k"] == "mcall":
        return n.get("did")
    return n["f"].get("did")


def const_args(n):
    """const generic args (ints) of a call node"""
    ga = n.get("ga") if n["k"] == "mcall" else n["f"].get("ga")
    out = []
    for g in ga or []:
        if isinstance(g, dict):
            out.append(int(g["int"]) if "int" in g else g["c"])
    return out


def type_args(n):
    ga = n.get("ga") if n["k"] == "mcall" else n["f"].get("ga")
    return [g for g in (ga or []) if isinstance(g, str)]


def root_local(e, extra_transparent=()):
    """strip references, derefs, casts and transparent method calls; return local name or None"""
    while isinstance(e, dict):
        k = e.get("k")
        if k == "path":
            return e["n"] if e.get("res") == "local" else None
        if k in ("ref", "use", "cast"):
            e = e["e"]
        elif k == "un" and e["o"] == "*":
            e = e["e"]
        elif k == "mcall" and (e.get("m") in TRANSPARENT_METHODS or e.get("m") in extra_transparent):
            e = e["r"]
        elif k == "field":
            e = e["e"]
        elif k == "match" and e.get("src", "").startswith("TryDesugar"):
            # x?  ->  x
            inner = e["e"]
            if inner.get("k") == "call" and inner.get("a"):
                e = inner["a"][0]
            else:
                return None
        else:
            return None
    return None


def param_names(h):
    out = []
    for p in h["params"]:
        out.append(p.get("n") if p.get("k") == "bind" else None)
    return out


def fn_path_arg(e):
    """if expression is a path to a function item, return its path"""
    if isinstance(e, dict) and e.get("k") == "path" and e.get("res") == "def" and e.get("dk") in ("Fn", "AssocFn"):
        return e["n"]
    return None


def closures(x):
    for n in walk(x):
        if n.get("k") == "closure":
            yield n


def string_literals(x):
    for n in walk(x):
        if n.get("k") == "lit" and n.get("t") in ("str", "bstr"):
            yield n["v"]


def let_aliases(x):
    """map let-bound names to the root local of their initialiser (transitively)"""
    m = {}
    for n in walk(x):
        if n.get("k") == "slet" and n.get("p", {}).get("k") == "bind" and "e" in n:
            r = root_local(n["e"])
            if r is not None:
                m[n["p"]["n"]] = r
    def res(v, depth=0):
        while v in m and depth < 10 and m[v] != v:
            v = m[v]
            depth += 1
        return v
    return {k: res(v) for k, v in m.items()}
