"""Abstract interpreter for the finite case tables of OxiDD (E-TABLE).

It interprets the *type-checked HIR* (as dumped by oxfacts: every path, method
and constructor resolved) of a table function over a small abstract domain and
returns the table's result as a value/term.  It understands only the idioms it
has builtins for; anything else raises `Unrecognised` (fail closed).  Unknown
outcomes (`f > g`, `partial_cmp`, the content of an unknown terminal) are
explored exhaustively through an oracle (all branches are enumerated).

Nothing of OxiDD is executed: the interpreter walks the syntax tree that rustc
produced and applies *its own* semantics for the handful of operations that
occur in the tables (the semantics are the specification).
"""


class Unrecognised(Exception):
    pass


class Return(Exception):
    def __init__(self, v):
        self.v = v


class Break(Exception):
    """`break 'label value` out of a labelled block"""
    def __init__(self, to, v):
        self.to = to
        self.v = v


class Continue(Exception):
    """`continue` of the innermost interpreted loop body"""
    def __init__(self, to=None):
        self.to = to


class Panic(Exception):
    def __init__(self, msg=""):
        self.msg = msg


class Beyond(Exception):
    """interpretation reached the part of the function that is not a table
    (recursion, cache lookup, ...): no verdict for this abstract input"""
    def __init__(self, what=""):
        self.what = what


class Infeasible(Exception):
    """the oracle choices made so far contradict each other"""


# ---- values -------------------------------------------------------------------
class Enum:
    """a constructor applied to arguments (unit variants have no args)"""
    __slots__ = ("path", "args")

    def __init__(self, path, args=()):
        self.path = path
        self.args = tuple(args)

    def __eq__(self, o):
        return isinstance(o, Enum) and o.path == self.path and o.args == self.args

    def __hash__(self):
        return hash((self.path, self.args))

    def __repr__(self):
        short = self.path.split("::")[-1]
        return short if not self.args else "%s(%s)" % (short, ", ".join(map(repr, self.args)))

    @property
    def short(self):
        return self.path.split("::")[-1]


class StructVal:
    """a struct(-variant) literal with named fields"""
    __slots__ = ("path", "fields")

    def __init__(self, path, fields):
        self.path = path
        self.fields = dict(fields)

    def __eq__(self, o):
        return isinstance(o, StructVal) and o.path == self.path and o.fields == self.fields

    def __hash__(self):
        return hash((self.path, tuple(sorted(self.fields))))

    def __repr__(self):
        return "%s{%s}" % (self.path.split("::")[-1], ", ".join("%s: %r" % kv for kv in self.fields.items()))

    @property
    def short(self):
        return self.path.split("::")[-1]


class Edge:
    """abstract edge: `node` is ("T", terminal value) or ("N", name); tag: any hashable"""
    __slots__ = ("node", "tag")

    def __init__(self, node, tag=None):
        self.node = node
        self.tag = tag

    def __eq__(self, o):
        return isinstance(o, Edge) and o.node == self.node and o.tag == self.tag

    def __hash__(self):
        return hash((self.node, self.tag))

    def __repr__(self):
        t = "" if self.tag is None else "%r:" % (self.tag,)
        return "%s%s" % (t, self.node[1] if self.node[0] == "N" else "T(%r)" % (self.node[1],))


class Opaque:
    def __init__(self, what):
        self.what = what

    def __repr__(self):
        return "<%s>" % self.what


class ElemRef:
    """`&mut container[i]` for a container modelled as a python list"""
    __slots__ = ("c", "i")

    def __init__(self, c, i):
        self.c = c
        self.i = i

    def get(self):
        return self.c[self.i]

    def set(self, v):
        self.c[self.i] = v

    def __repr__(self):
        return "&mut [..][%r]" % (self.i,)


class Oracle:
    """DFS enumeration of nondeterministic choices"""

    def __init__(self):
        self.prefix = []
        self.pos = 0
        self.arity = []

    def start(self):
        self.pos = 0
        self.arity = self.arity[:len(self.prefix)]

    def choose(self, n, label=""):
        if n <= 1:
            return 0
        if self.pos < len(self.prefix):
            c = self.prefix[self.pos]
        else:
            c = 0
            self.prefix.append(0)
            self.arity.append(n)
        if self.pos < len(self.arity):
            self.arity[self.pos] = n
        self.pos += 1
        return c

    def next(self):
        """advance to the next choice sequence; False when exhausted"""
        self.prefix = self.prefix[:self.pos]
        self.arity = self.arity[:self.pos]
        while self.prefix:
            if self.prefix[-1] + 1 < self.arity[-1]:
                self.prefix[-1] += 1
                return True
            self.prefix.pop()
            self.arity.pop()
        return False


class Interp:
    def __init__(self, facts, domain, oracle=None, max_depth=6):
        self.F = facts
        self.dom = domain
        self.oracle = oracle or Oracle()
        self.facts_cache = {}
        self.depth = 0
        self.max_depth = max_depth
        self.memo = {}           # per-run memo for consistent nondeterministic answers
        self.trace = []

    # ---- entry ------------------------------------------------------------------
    def call_fn(self, fid, args, consts=None):
        """interpret local function `fid` (def-path id) with positional args"""
        h = self.F.hir.get(fid)
        if h is None:
            raise Unrecognised("no HIR for %s" % fid)
        if self.depth >= self.max_depth:
            raise Beyond("recursion depth")
        env = {}
        if len(h["params"]) != len(args):
            raise Unrecognised("arity mismatch calling %s" % fid)
        for p, a in zip(h["params"], args):
            if not self.match(p, a, env):
                raise Unrecognised("parameter pattern did not match in %s" % fid)
        env["$consts"] = consts or {}
        env["$fn"] = fid
        env["$mut"] = {}
        self.depth += 1
        try:
            return self.ev(h["body"], env)
        except Return as r:
            return r.v
        finally:
            self.depth -= 1

    # ---- patterns ---------------------------------------------------------------
    def match(self, p, v, env):
        k = p["k"]
        if k == "wild":
            return True
        if k == "bind":
            if "sub" in p and not self.match(p["sub"], v, env):
                return False
            if p["n"] in (env.get("$mut") or ()):
                raise Unrecognised("binding shadows the mutable local %s" % p["n"])
            env[p["n"]] = v
            return True
        if k == "ref":
            return self.match(p["p"], v.get() if isinstance(v, ElemRef) else v, env)
        if k == "tup":
            if not isinstance(v, tuple):
                raise Unrecognised("tuple pattern on non-tuple %r" % (v,))
            pats = p["a"]
            if p.get("dd") is not None:
                raise Unrecognised("tuple pattern with ..")
            if len(pats) != len(v):
                raise Unrecognised("tuple pattern arity")
            return all(self.match(q, x, env) for q, x in zip(pats, v))
        if k == "ts":
            path = p["p"].get("did") or p["p"].get("n")
            if isinstance(v, StructVal):
                if v.path == path:
                    raise Unrecognised("tuple-struct pattern on struct value %r" % (v,))
                return False
            if not isinstance(v, Enum):
                raise Unrecognised("tuple-struct pattern %s on %r" % (path, v))
            if v.path != path:
                return False
            if p.get("dd") is not None and len(p["a"]) == 0:
                return True
            if len(p["a"]) != len(v.args):
                raise Unrecognised("ctor pattern arity for %s" % path)
            return all(self.match(q, x, env) for q, x in zip(p["a"], v.args))
        if k == "struct":
            path = p["p"].get("did") or p["p"].get("n")
            if isinstance(v, StructVal):
                if v.path != path:
                    return False
                for name, q in p["f"]:
                    if name not in v.fields:
                        raise Unrecognised("struct pattern field %s" % name)
                    if not self.match(q, v.fields[name], env):
                        return False
                return True
            if not isinstance(v, Enum):
                raise Unrecognised("struct pattern on %r" % (v,))
            if v.path != path:
                return False
            for name, q in p["f"]:
                if not name.isdigit():
                    raise Unrecognised("named struct pattern field")
                if not self.match(q, v.args[int(name)], env):
                    return False
            return True
        if k == "path":
            c = self.path_value(p, env)
            return self.values_equal(c, v)
        if k == "or":
            for q in p["a"]:
                e2 = dict(env)
                if self.match(q, v, e2):
                    env.update(e2)
                    return True
            return False
        if k == "lit":
            return self.values_equal(self.lit(p), v)
        if k == "range":
            lo = self.lit(p["lo"]) if p.get("lo") else None
            hi = self.lit(p["hi"]) if p.get("hi") else None
            if not isinstance(v, int):
                raise Unrecognised("range pattern on non-int")
            if lo is not None and v < lo:
                return False
            if hi is not None and (v > hi or (v == hi and not p["incl"])):
                return False
            return True
        raise Unrecognised("pattern kind %s" % k)

    def values_equal(self, a, b):
        r = self.dom.equal(self, a, b)
        if r is None:
            raise Unrecognised("cannot compare %r and %r" % (a, b))
        return r

    # ---- expressions --------------------------------------------------------------
    def lit(self, e):
        t, v = e["t"], e["v"]
        if t == "int":
            return int(v)
        if t == "bool":
            return v == "true"
        if t == "byte":
            return int(v)
        if t == "char":
            return int(v)
        if t in ("str", "bstr"):
            return v
        if t == "float":
            return float(v)
        raise Unrecognised("literal type %s" % t)

    def path_value(self, e, env):
        res = e.get("res")
        if res == "local":
            n = e["n"]
            mut = env.get("$mut")
            if mut is not None and n in mut:
                return mut[n]
            if n not in env:
                raise Unrecognised("unbound local %s" % n)
            return env[n]
        if res == "ctor":
            return Enum(e.get("did") or e["n"])  # unit variant (or constructor function value)
        if res == "def":
            dk = e.get("dk")
            if dk == "ConstParam":
                name = e["n"].split("::")[-1]
                c = env.get("$consts", {})
                if name not in c:
                    raise Unrecognised("const parameter %s has no value" % name)
                return c[name]
            if dk in ("Variant", "Struct"):
                return Enum(e.get("did") or e["n"])
            if dk and (dk.startswith("Const") or dk.startswith("AssocConst") or dk.startswith("Static")):
                v = self.dom.const(self, e)
                if v is None:
                    raise Unrecognised("constant %s" % e["n"])
                return v
            if dk in ("Fn", "AssocFn"):
                return ("fnref", e)
        if res == "selfctor":
            raise Unrecognised("Self constructor")
        raise Unrecognised("path %r" % (e,))

    def ev(self, e, env):
        k = e["k"]
        m = getattr(self, "ev_" + k, None)
        if m is None:
            raise Unrecognised("expression kind %s (line %s)" % (k, e.get("ln")))
        return m(e, env)

    def ev_lit(self, e, env):
        return self.lit(e)

    def ev_path(self, e, env):
        return self.path_value(e, env)

    def ev_constblock(self, e, env):
        if "e" in e:
            try:
                return self.ev(e["e"], env)
            except Panic:
                raise
        return ()

    def ev_use(self, e, env):
        return self.ev(e["e"], env)

    def ev_tup(self, e, env):
        return tuple(self.ev(x, env) for x in e["a"])

    def ev_array(self, e, env):
        return tuple(self.ev(x, env) for x in e["a"])

    def ev_ref(self, e, env):
        x = e["e"]
        if x.get("k") == "un" and x.get("o") == "*":
            r = self.ev(x["e"], env)           # `&*p` / `&mut *p` of a modelled pointer is that pointer
            if isinstance(r, ElemRef):
                return r if e.get("m") else r.get()
            return r
        if e.get("m") and x.get("k") == "index":
            c = self.ev(x["e"], env)
            if isinstance(c, list):
                i = self.ev(x["i"], env)
                if not isinstance(i, int) or not 0 <= i < len(c):
                    raise Panic("index %r out of bounds" % (i,))
                return ElemRef(c, i)
        return self.ev(x, env)

    def ev_break(self, e, env):
        if "to" not in e:
            raise Unrecognised("break without a resolved target")
        raise Break(e["to"], self.ev(e["e"], env) if "e" in e else ())

    def ev_continue(self, e, env):
        raise Continue(e.get("to"))

    def ev_block(self, e, env):
        if "lbl" in e:
            try:
                return self.ev_block_body(e, env)
            except Break as b:
                if b.to == e["lbl"]:
                    return b.v
                raise
        return self.ev_block_body(e, env)

    def ev_block_body(self, e, env):
        env = dict(env) if e["s"] else env
        for s in e["s"]:
            sk = s["k"]
            if sk == "slet":
                if "e" not in s:
                    raise Unrecognised("let without initialiser")
                v = self.ev(s["e"], env)
                e2 = {}
                if not self.match(s["p"], v, e2):
                    if "else" in s:
                        self.ev(s["else"], env)
                        raise Unrecognised("let-else block did not diverge")
                    raise Unrecognised("irrefutable let pattern failed")
                env.update(e2)
            elif sk in ("semi", "expr"):
                self.ev(s["e"], env)
            else:
                raise Unrecognised("statement %s" % sk)
        if "e" in e:
            return self.ev(e["e"], env)
        return ()

    def ev_ret(self, e, env):
        raise Return(self.ev(e["e"], env) if "e" in e else ())

    def cond(self, c, env):
        """evaluate a condition (supports `let` chains); returns bool, extends env"""
        if c["k"] == "let":
            v = self.ev(c["e"], env)
            e2 = {}
            ok = self.match(c["p"], v, e2)
            if ok:
                env.update(e2)
            return ok
        if c["k"] == "bin" and c["o"] == "&&":
            return self.cond(c["l"], env) and self.cond(c["r"], env)
        v = self.ev(c, env)
        if not isinstance(v, bool):
            raise Unrecognised("non-boolean condition %r" % (v,))
        return v

    def ev_if(self, e, env):
        env2 = dict(env)
        if self.cond(e["c"], env2):
            return self.ev(e["t"], env2)
        if "e" in e:
            return self.ev(e["e"], env)
        return ()

    def ev_let(self, e, env):
        return self.cond(e, env)

    def ev_match(self, e, env):
        src = e.get("src", "")
        if src.startswith("TryDesugar"):
            # `x?`  ==  match Try::branch(x) { Continue(v) => v, Break(r) => return from_residual(r) }
            inner = e["e"]
            if inner["k"] == "call" and inner["a"]:
                v = self.ev(inner["a"][0], env)
                return self.dom.try_(self, v)
            raise Unrecognised("try desugaring shape")
        if src.startswith("ForLoopDesugar"):
            if not getattr(self.dom, "finite_loops", False):
                raise Beyond("for loop")
            return self.ev_for(e, env)
        v = self.ev(e["e"], env)
        for arm in e["arms"]:
            # an arm `p | q if guard`: the guard is evaluated for every alternative that matches, in order
            alts = arm["p"]["a"] if arm["p"].get("k") == "or" and "g" in arm else [arm["p"]]
            for alt in alts:
                e2 = dict(env)
                if self.match(alt, v, e2):
                    if "g" in arm and not self.cond(arm["g"], e2):
                        continue
                    return self.ev(arm["b"], e2)
        raise Panic("no match arm applies to %r" % (v,))

    def ev_for(self, e, env):
        """`for pat in iter { body }` over a finite iterable the domain can enumerate (opt-in: dom.finite_loops).
        The desugared form is  match into_iter(x) { mut iter => loop { match next(&mut iter) { None => break,
        Some(pat) => body } } }"""
        src_iter = self.ev(e["e"]["a"][0], env) if e["e"].get("k") == "call" and e["e"].get("a") else self.ev(e["e"], env)
        items = self.dom.iterate(self, src_iter)
        if items is None:
            raise Unrecognised("for loop over %r" % (src_iter,))
        try:
            loop = e["arms"][0]["b"]
            m2 = loop["b"]["s"][0]["e"]
            some = [a for a in m2["arms"] if (a["p"].get("p") or {}).get("n", "").endswith("Some")][0]
            pat, body = some["p"]["f"][0][1], some["b"]
            none = [a for a in m2["arms"] if (a["p"].get("p") or {}).get("n", "").endswith("None")][0]
            own = none["b"].get("to")
        except (KeyError, IndexError):
            raise Unrecognised("for-loop shape")
        for x in items:
            env2 = dict(env)
            if not self.match(pat, x, env2):
                raise Unrecognised("for-loop pattern did not match %r" % (x,))
            try:
                self.ev(body, env2)
            except Continue as c:
                if c.to is None or c.to == own:
                    continue
                raise
            except Break as b:
                if b.to is None or b.to == own:
                    break
                raise
        return ()

    def ev_cast(self, e, env):
        v = self.ev(e["e"], env)
        if hasattr(self.dom, "cast"):
            r = self.dom.cast(self, v, e.get("ty"))
            if r is not None:
                return r
        if isinstance(v, Enum) and not v.args:
            d = self.dom.discriminant(self, v.path)
            if d is None:
                raise Unrecognised("discriminant of %s" % v.path)
            return d
        if isinstance(v, (int, bool)):
            return int(v)
        if isinstance(v, Opaque):
            return v
        if isinstance(v, tuple) and v and v[0] in ("varof", "levelof"):
            return v      # a symbolic variable / level number keeps its identity through integer casts
        raise Unrecognised("cast of %r to %s" % (v, e.get("ty")))

    def ev_un(self, e, env):
        o = e["o"]
        v = self.ev(e["e"], env)
        if o == "*":
            return v.get() if isinstance(v, ElemRef) else v
        if o == "!":
            if isinstance(v, bool):
                return not v
            r = self.dom.unop(self, "!", v)
            if r is None:
                raise Unrecognised("! on %r" % (v,))
            return r
        if o == "-":
            if isinstance(v, (int, float)):
                return -v
            r = self.dom.unop(self, "-", v)
            if r is None:
                raise Unrecognised("- on %r" % (v,))
            return r
        raise Unrecognised("unary %s" % o)

    def ev_bin(self, e, env):
        o = e["o"]
        if o == "&&":
            return self.cond(e["l"], env) and self.cond(e["r"], env)
        if o == "||":
            l = self.ev(e["l"], env)
            if l is True:
                return True
            return self.ev(e["r"], env)
        l = self.ev(e["l"], env)
        r = self.ev(e["r"], env)
        if o in ("==", "!="):
            eq = self.values_equal(l, r)
            return eq if o == "==" else not eq
        if o in ("<", "<=", ">", ">="):
            c = self.dom.compare(self, l, r)  # -1, 0, 1
            if c is None:
                raise Unrecognised("cannot order %r and %r" % (l, r))
            return {"<": c < 0, "<=": c <= 0, ">": c > 0, ">=": c >= 0}[o]
        if isinstance(l, int) and isinstance(r, int) and not isinstance(l, bool):
            if o == "+":
                return l + r
            if o == "-":
                return l - r
            if o == "*":
                return l * r
            if o == "&":
                return l & r
            if o == "|":
                return l | r
            if o == "^":
                return l ^ r
            if o == "<<":
                return l << r
            if o == ">>":
                return l >> r
            if o in ("/", "%"):
                if r == 0:
                    raise Panic("division by zero")
                q = abs(l) // abs(r) * (1 if (l >= 0) == (r >= 0) else -1)    # truncating, as in Rust
                return q if o == "/" else l - q * r
        if isinstance(l, bool) and isinstance(r, bool):
            if o == "^":
                return l != r
            if o == "&":
                return l and r
            if o == "|":
                return l or r
            if o == "^":
                return l != r
        res = self.dom.binop(self, o, l, r)
        if res is None:
            raise Unrecognised("binary %s on %r, %r" % (o, l, r))
        return res

    def ev_call(self, e, env):
        f = e["f"]
        if f["k"] == "path":
            res = f.get("res")
            if res == "ctor":
                args = [self.ev(a, env) for a in e["a"]]
                return Enum(f.get("did") or f["n"], args)
            if res == "def" and f.get("dk") in ("Fn", "AssocFn"):
                name = f["n"]
                return self.dom.call(self, name, f, e["a"], env, e)
            if res == "selfctor" and hasattr(self.dom, "self_ctor"):
                return self.dom.self_ctor(self, [self.ev(a, env) for a in e["a"]], env)
            if res == "local":
                fv = env.get(f["n"])
                return self.dom.call_value(self, fv, [self.ev(a, env) for a in e["a"]])
        raise Unrecognised("call of %r" % (f.get("n") or f["k"],))

    def ev_mcall(self, e, env):
        m = e.get("m")
        if m is None:
            raise Unrecognised("unresolved method %s" % e["name"])
        return self.dom.method(self, m, e, env)

    def ev_field(self, e, env):
        v = self.ev(e["e"], env)
        n = e["n"]
        if isinstance(v, tuple) and n.isdigit():
            return v[int(n)]
        if isinstance(v, Enum) and n.isdigit():
            return v.args[int(n)]
        if isinstance(v, StructVal) and n in v.fields:
            return v.fields[n]
        r = self.dom.field(self, v, n)
        if r is None:
            raise Unrecognised("field .%s of %r" % (n, v))
        return r

    def ev_closure(self, e, env):
        return ("closure", e, dict(env))

    def ev_struct(self, e, env):
        if "base" in e:
            raise Unrecognised("struct literal with ..base")
        path = e["p"].get("did") or e["p"].get("n")
        fields = [(name, self.ev(x, env)) for name, x in e["f"]]
        if all(name.isdigit() for name, _ in fields) and fields:
            return Enum(path, [v for _, v in sorted(fields, key=lambda kv: int(kv[0]))])
        return StructVal(path, fields)

    def ev_loop(self, e, env):
        """`loop` / `while` with a bound (opt-in: dom.finite_loops and dom.loop_limit); mutable state lives in `$mut`"""
        limit = getattr(self.dom, "loop_limit", 0)
        if not getattr(self.dom, "finite_loops", False) or not limit:
            raise Beyond("loop")
        own, inner = set(), set()

        def loop_id(x):
            """id of a nested loop, read off the `break` its desugaring contains (for / while); None for a plain `loop`"""
            try:
                if x.get("k") == "match":
                    m2 = x["arms"][0]["b"]["b"]["s"][0]["e"]
                    none = [a for a in m2["arms"] if (a["p"].get("p") or {}).get("n", "").endswith("None")][0]
                    return none["b"].get("to")
                if x.get("src") == "While":
                    return x["b"]["e"]["e"]["s"][0]["e"].get("to")
            except (KeyError, IndexError, TypeError, AttributeError):
                pass
            return None

        def scan(x):
            if isinstance(x, dict):
                if x.get("k") in ("break", "continue") and "to" in x:
                    own.add(x["to"])
                if x.get("k") == "block" and "lbl" in x:
                    inner.add(x["lbl"])
                if x.get("k") == "loop" or (x.get("k") == "match" and str(x.get("src", "")).startswith("ForLoop")):
                    inner.add(loop_id(x))
                for v in x.values():
                    scan(v)
            elif isinstance(x, list):
                for v in x:
                    scan(v)
        scan(e["b"])
        own -= inner
        for _ in range(limit):
            try:
                self.ev(e["b"], env)
            except Continue as c:
                if c.to is None or c.to in own:
                    continue
                raise
            except Break as b:
                if b.to is None or b.to in own:
                    return b.v
                raise
        raise Beyond("loop bound %d exceeded" % limit)

    def ev_assign(self, e, env):
        lhs = e["l"]
        while lhs.get("k") in ("use",):
            lhs = lhs["e"]
        if lhs.get("k") == "index":
            c = self.ev(lhs["e"], env)
            i = self.ev(lhs["i"], env)
            v = self.ev(e["r"], env)
            r = self.dom.index_assign(self, c, i, v) if hasattr(self.dom, "index_assign") else None
            if r is None:
                raise Unrecognised("assignment to an element of %r" % (c,))
            return ()
        self.store(lhs, self.ev(e["r"], env), env)
        return ()

    def store(self, lhs, v, env):
        if lhs.get("k") == "path" and lhs.get("res") == "local":
            mut = env.get("$mut")
            if mut is None or (lhs["n"] not in mut and lhs["n"] not in env):
                raise Unrecognised("assignment to local %s that is not modelled as mutable" % lhs["n"])
            mut[lhs["n"]] = v        # shadows the binding for the rest of the function (a re-binding fails closed)
            return
        if lhs.get("k") == "un" and lhs.get("o") == "*":
            r = self.ev(lhs["e"], env)
            if isinstance(r, ElemRef):
                r.set(v)
                return
        if lhs.get("k") == "field":
            base = self.ev(lhs["e"], env)
            if hasattr(self.dom, "field_assign") and self.dom.field_assign(self, base, lhs["n"], v):
                return
        raise Unrecognised("assignment to %s" % lhs.get("k"))

    def ev_assignop(self, e, env):
        lhs = e["l"]
        while lhs.get("k") in ("use",):
            lhs = lhs["e"]
        o = e["o"].rstrip("=") if isinstance(e.get("o"), str) else None
        if o is None:
            raise Unrecognised("compound assignment operator")
        cur = self.ev(lhs, env)
        r = self.ev(e["r"], env)
        if isinstance(cur, int) and isinstance(r, int) and not isinstance(cur, bool) and o in ("+", "-", "*", "|", "&", "^", "<<", ">>"):
            v = {"+": lambda: cur + r, "-": lambda: cur - r, "*": lambda: cur * r, "|": lambda: cur | r,
                 "&": lambda: cur & r, "^": lambda: cur ^ r, "<<": lambda: cur << r, ">>": lambda: cur >> r}[o]()
        else:
            v = self.dom.binop(self, o, cur, r)
            if v is None:
                raise Unrecognised("compound assignment %s on %r, %r" % (o, cur, r))
        self.store(lhs, v, env)
        return ()

    def ev_index(self, e, env):
        v = self.ev(e["e"], env)
        i = self.ev(e["i"], env)
        if isinstance(v, (tuple, list)) and isinstance(i, int) and not isinstance(i, bool):
            if not 0 <= i < len(v):
                raise Panic("index %r out of bounds" % (i,))
            return v[i]
        if isinstance(v, (tuple, list)) and isinstance(i, StructVal) and str(i.path).rsplit("::", 1)[-1] in ("Range", "RangeTo", "RangeFrom", "RangeFull"):
            lo = i.fields.get("start", 0)
            hi = i.fields.get("end", len(v))
            if not (isinstance(lo, int) and isinstance(hi, int) and 0 <= lo <= hi <= len(v)):
                raise Panic("slice range %r..%r out of bounds (len %d)" % (lo, hi, len(v)))
            return list(v[lo:hi])
        raise Unrecognised("index")

    # ---- helpers used by domains --------------------------------------------------
    def args(self, e, env):
        return [self.ev(a, env) for a in e["a"]]

    def recv(self, e, env):
        return self.ev(e["r"], env)

    def fork(self, key, n, label=""):
        """nondeterministic choice, consistent for equal keys within one run"""
        if key in self.memo:
            return self.memo[key]
        c = self.oracle.choose(n, label)
        self.memo[key] = c
        self.trace.append((label or str(key), c))
        return c


def enumerate_runs(make_interp, run):
    """run `run(interp)` for every oracle path; yields (trace, outcome) where
    outcome is ("ok", value) | ("panic", msg) | ("beyond", what) | ("unrecognised", msg)"""
    oracle = Oracle()
    while True:
        oracle.start()
        it = make_interp(oracle)
        try:
            v = run(it)
            out = ("ok", v)
        except Return as r:
            out = ("ok", r.v)
        except Panic as p:
            out = ("panic", p.msg)
        except Beyond as b:
            out = ("beyond", b.what)
        except Infeasible:
            out = ("infeasible", "")
        except Break:
            out = ("unrecognised", "break out of a block that is not interpreted")
        except Continue:
            out = ("unrecognised", "continue outside an interpreted loop body")
        except Unrecognised as u:
            out = ("unrecognised", str(u))
        yield list(it.trace), out
        if not oracle.next():
            break
