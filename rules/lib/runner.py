"""Check runner: obligations, floors, known findings, evidence, exit protocol."""
import json
import os
import sys
import time
import traceback

from . import facts as factsmod

VERIF = factsmod.VERIF
KNOWN = os.path.join(VERIF, "known_findings.json")


class Ctx:
    def __init__(self, pid, tier, seed):
        self.pid = pid
        self.tier = tier
        self.seed = seed
        self.t0 = time.time()
        self._facts = {}
        self.evaluations = 0
        self.nontrivial = set()
        self.rule_counts = {}      # rule -> [examined, nontrivial]
        self.violations = []       # (rule, key, detail)
        self.samples = []
        self.floors = []           # dicts
        self.notes = []
        self.configs = []
        self.bodies = 0
        self.explanations = []
        self.not_decided = ""
        self.assumptions = []
        self.broken = []           # check-infrastructure failures (fail closed)

    # ---- facts ------------------------------------------------------------
    def facts(self, config="ws"):
        if config not in self._facts:
            f = factsmod.Facts(config)
            self._facts[config] = f
            self.configs.append(config)
            self.bodies += len(f.mir)
        return self._facts[config]

    # ---- recording --------------------------------------------------------
    def explain(self, text):
        self.explanations.append(text)

    def ob(self, rule, key, ok, detail="", nontrivial=True, sample=None, report=True):
        """one examined rule instance. `key` is line-free and stable.
        report=False: count a failing instance but leave the VIOLATION to an aggregated obligation"""
        self.evaluations += 1
        rc = self.rule_counts.setdefault(rule, [0, 0, 0])
        rc[0] += 1
        if nontrivial:
            self.nontrivial.add((rule, key))
            rc[1] += 1
        if not ok:
            rc[2] += 1
            if report:
                self.violations.append((rule, key, detail))
        if sample is not None or (len([s for s in self.samples if s.get("rule") == rule]) < 2):
            if len(self.samples) < 40:
                self.samples.append({"rule": rule, "instance": key, "verdict": "ok" if ok else "VIOLATION",
                                     "detail": (sample if sample is not None else detail)})

    def floor(self, rule, what, count, floor):
        """fail closed when a rule matched fewer instances than were confirmed by hand"""
        ok = count >= floor
        self.floors.append({"rule": rule, "what": what, "count": count, "floor": floor, "ok": ok})
        if not ok:
            self.violations.append((rule, "%s:FLOOR:%s" % (rule, what),
                                    "rule matched %d instance(s) of '%s', fewer than the %d confirmed by hand: "
                                    "an anchor disappeared or the rule no longer recognises the code"
                                    % (count, what, floor)))

    def anchor(self, rule, what, found):
        if not found:
            self.violations.append((rule, "%s:ANCHOR:%s" % (rule, what),
                                    "anchor '%s' not found in the facts (renamed/removed, or not built in this configuration)" % what))
        return found

    def note(self, text):
        self.notes.append(text)


def load_known():
    try:
        with open(KNOWN) as fh:
            return json.load(fh)
    except OSError:
        return {"known": [], "fixed": []}


def finish(ctx, level_text):
    known = load_known()
    kmap = {(k["property"], k["key"]): k for k in known.get("known", [])}
    new = []
    knownhits = []
    seen = set()
    for rule, key, detail in ctx.violations:
        if key in seen:
            continue
        seen.add(key)
        if (ctx.pid, key) in kmap:
            knownhits.append((key, kmap[(ctx.pid, key)]["what"]))
        else:
            new.append((rule, key, detail))
    evpath = os.path.join(os.environ.get("VERIF_EVIDENCE_DIR", os.path.join(VERIF, "evidence")), "%s.json" % ctx.pid)
    ev = {
        "property_id": ctx.pid,
        "tier": ctx.tier,
        "seed": ctx.seed,
        "level": "other",
        "coverage": {
            "explanation": " ".join(ctx.explanations) or level_text,
            "rule": "one evaluation = one rule instance examined in the facts extracted from /repo's current "
                    "source (a function body, call site, match arm, drop terminator, table row or field access); "
                    "non-trivial = the instance carried something to decide (e.g. a drop of an edge-carrying "
                    "type, an arm with a result, a matched call site), distinct by (rule, line-free key)",
            "evaluations": ctx.evaluations,
            "distinct_nontrivial": len(ctx.nontrivial),
            "samples": ctx.samples[:40],
            "exhaustive": True,
            "configs": ctx.configs,
            "bodies_analysed": ctx.bodies,
            "per_rule": {r: {"examined": c[0], "nontrivial": c[1], "violations": c[2]}
                         for r, c in sorted(ctx.rule_counts.items())},
            "floors": ctx.floors,
            "not_decided": ctx.not_decided,
            "notes": ctx.notes,
            "known_findings_hit": [{"key": k, "what": w} for k, w in knownhits],
            "violations": [{"rule": r, "key": k, "detail": d} for r, k, d in new],
        },
        "assumptions": ctx.assumptions + [
            "rustc nightly's HIR/MIR construction, drop elaboration and trait resolution",
            "the classification/idiom tables in /verif/rules (each entry read against the source)",
        ],
        "wall_s": round(time.time() - ctx.t0, 2),
        "violations": len(new),
    }
    os.makedirs(os.path.dirname(evpath), exist_ok=True)
    with open(evpath, "w") as fh:
        json.dump(ev, fh, indent=1)
    for key, what in knownhits:
        print("KNOWN-FINDING: property=%s %s %s" % (ctx.pid, key, what))
    for rule, key, detail in new:
        print("VIOLATION property=%s replay=%s#%s" % (ctx.pid, evpath, key))
        print("  %s" % detail[:600])
    print("%s %s: %d instances examined (%d non-trivial) in %s, %d violation(s), %d known finding(s), %.1fs"
          % (ctx.pid, ctx.tier, ctx.evaluations, len(ctx.nontrivial), "+".join(ctx.configs) or "-",
             len(new), len(knownhits), time.time() - ctx.t0))
    return 1 if new else 0


def broken(pid, tier, seed, msg):
    """the check itself could not run: fail closed, with valid evidence"""
    evpath = os.path.join(os.environ.get("VERIF_EVIDENCE_DIR", os.path.join(VERIF, "evidence")), "%s.json" % pid)
    ev = {"property_id": pid, "tier": tier, "seed": seed, "level": "other",
          "coverage": {"explanation": "CHECK DID NOT RUN: " + msg, "evaluations": 0, "distinct_nontrivial": 0},
          "wall_s": 0.0, "violations": 1}
    os.makedirs(os.path.dirname(evpath), exist_ok=True)
    with open(evpath, "w") as fh:
        json.dump(ev, fh, indent=1)
    print("VIOLATION property=%s replay=%s#CHECK-BROKEN" % (pid, evpath))
    print("  " + msg)
    return 1
