"""Fact database: builds (or reuses) the oxfacts dump of /repo's working tree.

Facts are produced by the rustc_private driver in /verif/oxfacts, which is
injected into `cargo +nightly check` (see oxfacts/run_facts.sh).  Nothing of
OxiDD is executed.  Facts are cached under /verif/.cache keyed by a hash of the
repository sources, the driver binary and the cargo arguments.
"""
import fcntl
import glob
import hashlib
import json
import os
import shutil
import subprocess
import sys
import time

VERIF = os.path.dirname(os.path.dirname(os.path.dirname(os.path.abspath(__file__))))
REPO = os.environ.get("OXIDD_REPO", "/repo")
CACHE = os.path.join(VERIF, ".cache")
DRIVER = os.path.join(VERIF, "oxfacts", "target", "release", "oxfacts")

FEATS_ALL_DD = "bdd,bcdd,mtbdd,zbdd,tdd"
CONFIGS = {
    # default features (index manager, direct-mapped cache, multi-threading) + TDD
    "ws": ["--workspace", "--features", "oxidd/tdd"],
    "ptr": ["-p", "oxidd", "--no-default-features", "--features",
            "manager-pointer,%s,multi-threading,apply-cache-direct-mapped,dddmp,dot-export,visualize" % FEATS_ALL_DD],
    "idx-nocache-st": ["-p", "oxidd", "--no-default-features", "--features", "manager-index,%s" % FEATS_ALL_DD],
    "ptr-nocache-st": ["-p", "oxidd", "--no-default-features", "--features", "manager-pointer,%s" % FEATS_ALL_DD],
    "idx-cache-st": ["-p", "oxidd", "--no-default-features", "--features",
                     "manager-index,%s,apply-cache-direct-mapped" % FEATS_ALL_DD],
    "ptr-cache-st": ["-p", "oxidd", "--no-default-features", "--features",
                     "manager-pointer,%s,apply-cache-direct-mapped" % FEATS_ALL_DD],
    "idx-nocache-mt": ["-p", "oxidd", "--no-default-features", "--features",
                       "manager-index,%s,multi-threading" % FEATS_ALL_DD],
    "ptr-nocache-mt": ["-p", "oxidd", "--no-default-features", "--features",
                       "manager-pointer,%s,multi-threading" % FEATS_ALL_DD],
}


def source_hash():
    h = hashlib.sha256()
    files = []
    for pat in ("Cargo.toml", "Cargo.lock", "crates/*/Cargo.toml", "crates/*/build.rs"):
        files += glob.glob(os.path.join(REPO, pat))
    for root, dirs, fs in os.walk(os.path.join(REPO, "crates")):
        dirs[:] = [d for d in dirs if d not in ("target", ".git")]
        for f in fs:
            if f.endswith(".rs"):
                files.append(os.path.join(root, f))
    for f in sorted(set(files)):
        h.update(os.path.relpath(f, REPO).encode())
        with open(f, "rb") as fh:
            h.update(hashlib.sha256(fh.read()).digest())
    with open(DRIVER, "rb") as fh:
        h.update(hashlib.sha256(fh.read()).digest())
    return h.hexdigest()[:20]


class FactsError(Exception):
    pass


def ensure_facts(config):
    """Return the directory holding the facts for `config`, building them if needed."""
    if not os.path.exists(DRIVER):
        raise FactsError("oxfacts driver is not built; run MANIFEST.setup_cmd")
    os.makedirs(CACHE, exist_ok=True)
    sh = source_hash()
    d = os.path.join(CACHE, sh, config)
    lock = open(os.path.join(CACHE, ".lock-%s-%s" % (sh, config)), "w")
    fcntl.flock(lock, fcntl.LOCK_EX)
    try:
        if os.path.exists(os.path.join(d, "DONE")):
            return d
        if os.path.exists(d):
            shutil.rmtree(d)
        os.makedirs(d)
        t0 = time.time()
        rc = subprocess.call([os.path.join(VERIF, "oxfacts", "run_facts.sh"), d] + CONFIGS[config])
        if rc != 0:
            log = ""
            try:
                log = open(os.path.join(d, "cargo.log")).read()[-3000:]
            except OSError:
                pass
            shutil.rmtree(d, ignore_errors=True)
            raise FactsError("cargo check of %s failed for configuration %s (the tree does not compile?)\n%s"
                             % (REPO, config, log))
        n = len(glob.glob(os.path.join(d, "*.jsonl")))
        if n == 0:
            shutil.rmtree(d, ignore_errors=True)
            raise FactsError("driver produced no fact files for %s (wrapper skipped?)" % config)
        with open(os.path.join(d, "DONE"), "w") as fh:
            fh.write("%.1f\n" % (time.time() - t0))
        _prune()
        return d
    finally:
        fcntl.flock(lock, fcntl.LOCK_UN)
        lock.close()


def _prune(keep=None):
    keep = keep or int(os.environ.get("OXFACTS_CACHE_KEEP", "14"))
    gens = [os.path.join(CACHE, x) for x in os.listdir(CACHE) if not x.startswith(".")]
    gens = [g for g in gens if os.path.isdir(g)]
    gens.sort(key=lambda g: os.path.getmtime(g), reverse=True)
    for g in gens[keep:]:
        shutil.rmtree(g, ignore_errors=True)
    for x in os.listdir(CACHE):
        if x.startswith(".lock-"):
            sh = x.split("-")[1]
            if not os.path.isdir(os.path.join(CACHE, sh)):
                try:
                    os.unlink(os.path.join(CACHE, x))
                except OSError:
                    pass


class Facts:
    """All records of one build configuration, indexed."""

    def __init__(self, config, crates=None):
        self.config = config
        self.dir = ensure_facts(config)
        self.fns = {}      # id -> fn record
        self.mir = {}      # id -> mir record
        self.hir = {}      # id -> hir record
        self.adts = {}     # id -> adt
        self.impls = []
        self.traits = {}
        self.sigs = {}     # id -> declared signature (unexpanded type aliases)
        self.consts = {}   # id -> constant with initialiser HIR
        self.crates = {}
        for f in sorted(glob.glob(os.path.join(self.dir, "*.jsonl"))):
            base = os.path.basename(f)
            cname = base.rsplit("-", 1)[0]
            if cname in ("build_script_build",):
                continue
            if crates is not None and cname not in crates:
                continue
            with open(f) as fh:
                for line in fh:
                    r = json.loads(line)
                    k = r["k"]
                    if k == "crate":
                        # the same crate may be compiled twice (e.g. proc-macro for host); keep first
                        if r["name"] in self.crates:
                            break
                        self.crates[r["name"]] = r
                    elif k == "fn":
                        self.fns[r["id"]] = r
                    elif k == "mir":
                        self.mir[r["id"]] = r
                    elif k == "hir":
                        self.hir[r["id"]] = r
                    elif k == "adt":
                        self.adts[r["id"]] = r
                    elif k == "impl":
                        self.impls.append(r)
                    elif k == "trait":
                        self.traits[r["id"]] = r
                    elif k == "sig":
                        self.sigs[r["id"]] = r
                    elif k == "const":
                        self.consts[r["id"]] = r
        self.by_name = {}
        for i, r in self.fns.items():
            self.by_name.setdefault(r["name"], []).append(i)

    # ---- lookup helpers -------------------------------------------------
    def fn_ids(self, prefix="", suffix=""):
        return [i for i in self.fns if i.startswith(prefix) and i.endswith(suffix)]

    def find_fns(self, pred):
        return [r for r in self.fns.values() if pred(r)]

    def where(self, fid):
        r = self.fns.get(fid)
        if not r:
            return fid
        return "%s:%d" % (r["file"], r["line"])

    def nice(self, fid):
        """Stable, line-free display key of a function: `{impl#N}` segments (which renumber when impls are
        added) are replaced by the impl header"""
        if "{impl#" not in fid:
            return fid
        if not hasattr(self, "_implhdr"):
            self._implhdr = {}
            for r in self.impls:
                tr = r.get("trait")
                self._implhdr[r["id"]] = ("<%s as %s>" % (r["self"], tr)) if tr else ("<%s>" % r["self"])
        parts = fid.split("::")
        out = []
        for i, p in enumerate(parts):
            if p.startswith("{impl#"):
                iid = "::".join(parts[:i + 1])
                out.append(self._implhdr.get(iid, p))
            else:
                out.append(p)
        return "::".join(out)
