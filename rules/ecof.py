"""E-TABLE.cof: the cofactors of a node as seen through an incoming edge.

Every algorithm of the rules crates obtains the operands of its recursive calls through `DiagramRules::cofactors` /
`DiagramRules::cofactor`, and the public accessors `cofactors`, `cofactor_true`, `cofactor_false` go through
`Function::cofactors_node` / `cofactors_edge`.  The step rules (E-TABLE.step) take "the cofactors of a node reached
through an edge with tag t are its children with t applied" as a specified builtin; this rule decides that builtin:

  impl    for every `DiagramRules` impl of the rules crates, `cofactors(tag, node)` (its iterator driven through the
          iterator's own `next`) and `cofactor(tag, node, n)` (override or the trait default `cofactors(..).nth(n)`) are
          interpreted from HIR on a node whose children carry every tag combination, for every incoming tag: the i-th
          result is the i-th child, complemented iff the incoming edge is complemented (kinds without complement edges:
          the child itself);
  access  `BooleanFunction::cofactors_node` / `TVLFunction::cofactors_node` return (cofactor 0, cofactor 1[, cofactor 2])
          in that order with the tag and node they were given, and `cofactors_edge` passes the tag of the edge and
          the node it looked up, answering `None` exactly for terminals.
"""
import itertools

import epick
import ereduce
import tables
from lib.interp import Edge, Enum, Interp, Opaque, Panic, StructVal, Unrecognised, enumerate_runs
from tables import NODE_INNER, NODE_TERMINAL, SOME, NONE

ETAG = "oxidd_rules_bdd::complement_edge::EdgeTag::"
RULE = "E-TABLE.cof"


class CofDomain(epick.PickDomain):
    def __init__(self, F, fid):
        super().__init__(F, fid)
        self.cof_calls = []

    def node_of(self, edge):
        if isinstance(edge, Edge) and edge.node[0] == "N":
            return Enum(NODE_INNER, [Opaque("node " + edge.node[1])])
        return super().node_of(edge)

    def call(self, it, name, f, args_e, env, e):
        did = f.get("did", "")
        if did == "oxidd_core::DiagramRules::cofactors" and getattr(self, "target_cofactors", None):
            return it.call_fn(self.target_cofactors, [it.ev(a, env) for a in args_e])
        if did == "oxidd_core::DiagramRules::cofactor":
            args = [it.ev(a, env) for a in args_e]
            self.cof_calls.append(args)
            return ("cof",) + tuple(args)
        if did.endswith("::cofactors_node") and did.startswith("oxidd_core::function::"):
            args = [it.ev(a, env) for a in args_e]
            return ("cofactors_node",) + tuple(args)
        if did.endswith("::edge_with_tag") or f.get("n", "").endswith("::edge_with_tag"):
            r, tag = [it.ev(a, env) for a in args_e]
            return Edge(r.node, tag)
        return super().call(it, name, f, args_e, env, e)

    def call_value(self, it, fv, args):
        if isinstance(fv, tuple) and fv and fv[0] == "fnref" and (fv[1].get("did") or fv[1].get("n", "")).endswith("DiagramRules::cofactor"):
            self.cof_calls.append(list(args))
            return ("cof",) + tuple(args)
        return super().call_value(it, fv, args)

    def iter_next(self, it, recv):
        if isinstance(recv, ereduce.IterObj):
            if recv.pos < len(recv.items):
                recv.pos += 1
                return Enum(SOME, [recv.items[recv.pos - 1]])
            return Enum(NONE)
        if isinstance(recv, StructVal):
            for r in self.F.fns.values():
                imp = r.get("impl")
                if imp and imp.get("trait") in ("std::iter::Iterator", "core::iter::Iterator") and r["id"].endswith("::next") \
                        and imp["self"].split("<")[0] == recv.path:
                    return it.call_fn(r["id"], [recv])
        raise Unrecognised("next() on %r" % (recv,))

    def method(self, it, m, e, env):
        name = m.rsplit("::", 1)[-1]
        if m.endswith("Iterator::next") or m.endswith("Iterator::nth"):
            recv = it.recv(e, env)
            if name == "next":
                return self.iter_next(it, recv)
            (k,) = it.args(e, env)
            r = Enum(NONE)
            for _ in range(k + 1):
                r = self.iter_next(it, recv)
                if r.path == NONE:
                    break
            return r
        if m.endswith("Borrowed::<'a, E>::edge_with_tag"):
            r = it.recv(e, env)
            (tag,) = it.args(e, env)
            return Edge(r.node, tag)
        return super().method(it, m, e, env)

    def field(self, it, v, n):
        return super().field(it, v, n)


def rules_impls(F):
    """{crate-ish label: {"cofactors": fid, "cofactor": fid or None, arity, tagged}}"""
    out = {}
    for fid, r in F.fns.items():
        imp = r.get("impl") or {}
        if imp.get("trait") != "oxidd_core::DiagramRules":
            continue
        nm = fid.rsplit("::", 1)[-1]
        if nm not in ("cofactors", "cofactor"):
            continue
        if not fid.startswith("oxidd_rules_"):
            continue
        label = imp["self"].split("<")[0]
        out.setdefault(label, {})[nm] = fid
    return out


def expected(kids, tagged, flip):
    return [epick.ctag(c, flip) if tagged else c for c in kids]


def run(ctx, F, rule=RULE, only=None):
    impls = rules_impls(F)
    if not ctx.anchor(rule, "DiagramRules::cofactors impls of the rules crates", len(impls) >= 4):
        return 0
    default_cofactor = "oxidd_core::DiagramRules::cofactor"
    n = 0
    for label, fns in sorted(impls.items()):
        short = label.rsplit("::", 1)[-1]
        if only and not any(o in label for o in only):
            continue
        if not ctx.anchor(rule, "%s::cofactors" % short, "cofactors" in fns):
            continue
        tagged = "complement_edge" in label
        arity = 3 if "tdd" in label.split("::")[0] else 2
        tagsets = [Enum(ETAG + "None"), Enum(ETAG + "Complemented")] if tagged else [None]
        fails = []
        for intag in tagsets:
            for ktags in itertools.product(tagsets, repeat=arity):
                kids = tuple(Edge(("N", "c%d" % i), t) for i, t in enumerate(ktags))
                node = epick.SNode("n", 5, kids)
                want = expected(kids, tagged, tagged and intag.short == "Complemented")
                sit = "incoming tag %s, children %r" % (intag.short if tagged else "-", list(kids))
                # cofactors(): drive the iterator
                holder = {}

                def mk(oracle):
                    holder["d"] = CofDomain(F, fns["cofactors"])
                    holder["d"].target_cofactors = fns["cofactors"]
                    return Interp(F, holder["d"], oracle)

                def go(it):
                    itobj = it.call_fn(fns["cofactors"], [intag, node])
                    got = []
                    for _ in range(arity + 1):
                        r = holder["d"].iter_next(it, itobj)
                        if r.path == NONE:
                            break
                        got.append(r.args[0])
                    return got
                for trace, (status, res) in enumerate_runs(mk, go):
                    n += 1
                    if status != "ok":
                        fails.append("cofactors, %s: %s %s" % (sit, status, res))
                    elif res != want:
                        fails.append("cofactors, %s: yields %r, expected %r" % (sit, res, want))
                # cofactor(tag, node, k)
                cf = fns.get("cofactor") or default_cofactor
                for k in range(arity):
                    def go2(it):
                        return it.call_fn(cf, [intag, node, k])
                    for trace, (status, res) in enumerate_runs(mk, go2):
                        n += 1
                        if status != "ok":
                            fails.append("cofactor(%d), %s: %s %s" % (k, sit, status, res))
                        elif res != want[k]:
                            fails.append("cofactor(%d), %s: yields %r, expected %r" % (k, sit, res, want[k]))
        ctx.ob(rule, "%s:%s" % (rule, short), not fails,
               "%s (%s): %s" % (short, F.where(fns["cofactors"]),
                                "%d situation(s) wrong; first: %s" % (len(fails), " || ".join(fails[:3])) if fails else
                                "cofactors / cofactor yield the children with the incoming tag applied"))
    return n


def check_accessors(ctx, F, rule=RULE + ".access"):
    n = 0
    for trait, arity in (("oxidd_core::function::BooleanFunction", 2), ("oxidd_core::function::PseudoBooleanFunction", 2),
                         ("oxidd_core::function::TVLFunction", 3)):
        short = trait.rsplit("::", 1)[-1]
        node_fid = trait + "::cofactors_node"
        edge_fid = trait + "::cofactors_edge"
        if node_fid not in F.hir and edge_fid not in F.hir:
            if short == "PseudoBooleanFunction":
                continue
        if not ctx.anchor(rule, "%s::cofactors_node / cofactors_edge" % short, node_fid in F.hir and edge_fid in F.hir):
            continue
        fails = []
        node = epick.SNode("n", 5, tuple(Edge(("N", "c%d" % i)) for i in range(arity)))
        tag = Opaque("tag")
        holder = {}

        def mk(oracle):
            holder["d"] = CofDomain(F, node_fid)
            return Interp(F, holder["d"], oracle)
        for trace, (status, res) in enumerate_runs(mk, lambda it: it.call_fn(node_fid, [tag, node])):
            n += 1
            want = tuple(("cof", tag, node, k) for k in range(arity))
            if status != "ok" or not (isinstance(res, tuple) and len(res) == arity and
                                      all(r[0] == "cof" and r[1] is tag and r[2] is node and r[3] == k
                                          for k, r in enumerate(res) if isinstance(r, tuple) and len(r) == 4) and
                                      all(isinstance(r, tuple) and len(r) == 4 for r in res)):
                fails.append("cofactors_node: %s %r, expected (cofactor 0, .., cofactor %d) of the given tag and node"
                             % (status, res, arity - 1))
        # cofactors_edge on an inner node and on a terminal
        etag = Enum(ETAG + "Complemented")
        inner = Edge(("S", node), etag)
        term = Edge(("T", Enum("oxidd_rules_bdd::simple::BDDTerminal::True")), etag)

        def mk2(oracle):
            holder["d"] = CofDomain(F, edge_fid)
            return Interp(F, holder["d"], oracle)
        for trace, (status, res) in enumerate_runs(mk2, lambda it: it.call_fn(edge_fid, [Opaque("manager"), inner])):
            n += 1
            ok = status == "ok" and isinstance(res, Enum) and res.path == SOME and isinstance(res.args[0], tuple) \
                and res.args[0][0] == "cofactors_node" and res.args[0][1] == etag and res.args[0][2] is node
            if not ok:
                fails.append("cofactors_edge on an inner node: %s %r, expected Some(cofactors_node(tag of the edge, its node))"
                             % (status, res))
        for trace, (status, res) in enumerate_runs(mk2, lambda it: it.call_fn(edge_fid, [Opaque("manager"), term])):
            n += 1
            if not (status == "ok" and isinstance(res, Enum) and res.path == NONE):
                fails.append("cofactors_edge on a terminal: %s %r, expected None" % (status, res))
        ctx.ob(rule, "%s:%s" % (rule, short), not fails,
               "%s (%s): %s" % (short, F.where(node_fid), " || ".join(fails[:3]) if fails else
                                "cofactors_node / cofactors_edge hand out cofactor 0, 1[, 2] of the edge's tag and node in order"))
    return n
