"""E-SLOT.bound: an index handed to `get_unchecked` that the same function compares with the slice length is in bounds.

The slot allocators of the index-based manager bump an `allocated` mark through a boxed slice of slots and hand out
`&mut *slots.get_unchecked(index)`; the only thing between the mark and a write past the end of the allocation is the
comparison of `index` with `slots.len()` a few lines above.  Rule (MIR, per function): for every call
`get_unchecked(s, i)` / `get_unchecked_mut(s, i)` whose index `i` derives (through copies and integer casts) from a local
`x` that the function also compares with `s.len()`, the call is unreachable from the entry once every CFG edge that
establishes `x < s.len()` is removed.  Establishing edges: the true edge of `x < len` / `x + k < len` / `x + k <= len`
(k > 0), the false edge of `x >= len` / `x + k >= len` / `x + k > len` (k > 0), and their mirrored forms.  `x <= len` or
a flipped test establishes nothing.  Calls whose index is never compared with a length in the function rely on a data
structure invariant (ids handed out by the allocator) and are not judged here.
"""
from lib import cfg

RULE = "E-SLOT.bound"


def _defs(m):
    d = {}
    for bi, b in enumerate(m["blocks"]):
        for s in b["s"]:
            if isinstance(s.get("lhs"), int):
                d.setdefault(s["lhs"], []).append(("s", bi, s["rv"]))
        t = b["t"]
        if t["k"] == "call" and isinstance(t.get("d"), int):
            d.setdefault(t["d"], []).append(("c", bi, t))
    return d


def _origin(defs, op, depth=0):
    """(base local, positive offset added?, is length of <base>?) for an operand"""
    if isinstance(op, dict) and "c" in op:
        return ("const", cfg.const_int(op)), False
    p = cfg.op_place(op)
    if p is None:
        return None, False
    if not isinstance(p, int):
        return ("place", cfg.place_local(p), tuple(str(x) for x in cfg.place_proj(p))), False
    ds = defs.get(p, [])
    if len(ds) != 1 or depth > 12:
        return ("local", p), False
    kind, bi, rv = ds[0]
    if kind == "c":
        name = cfg.callee_name(rv) or ""
        if name.endswith("::len") and rv.get("a"):
            base, _ = _origin(defs, rv["a"][0], depth + 1)
            return ("len", base), False
        if name.endswith("::deref") or name.endswith("::deref_mut") or name.endswith("::as_ref") or name.endswith("::borrow"):
            return _origin(defs, rv["a"][0], depth + 1)
        return ("local", p), False
    k = rv.get("k")
    if k == "use":
        return _origin(defs, rv["op"], depth + 1)
    if k == "cast" and rv.get("ck") == "IntToInt":
        return _origin(defs, rv["op"], depth + 1)
    if k == "ref":
        q = rv["p"]
        if isinstance(q, int):
            return _origin(defs, {"cp": q}, depth + 1)
        if cfg.place_proj(q) == ["*"]:
            return _origin(defs, {"cp": cfg.place_local(q)}, depth + 1)
        return ("place", cfg.place_local(q), tuple(str(x) for x in cfg.place_proj(q))), False
    if k == "un" and rv.get("o") == "PtrMetadata":
        base, _ = _origin(defs, rv["a"], depth + 1)
        return ("len", base), False
    if k == "bin" and rv.get("o") == "Add":
        a, pa = _origin(defs, rv["a"], depth + 1)
        b, pb = _origin(defs, rv["b"], depth + 1)
        if b and b[0] == "const" and (b[1] or 0) >= 0:
            return a, pa or (b[1] or 0) > 0
        if a and a[0] == "const" and (a[1] or 0) >= 0:
            return b, pb or (a[1] or 0) > 0
    return ("local", p), False


def run(ctx, F, crates=("oxidd_manager_index", "oxidd_manager_pointer", "linear_hashtbl"), rule=RULE):
    n = 0
    for fid, m in sorted(F.mir.items()):
        if not fid.startswith(tuple(c + "::" for c in crates)):
            continue
        B = cfg.Body(m)
        blocks = m["blocks"]
        gets = [(i, t) for i, t in B.calls() if (cfg.callee_name(t) or "").split("::")[-1] in ("get_unchecked", "get_unchecked_mut")
                and not blocks[i]["c"] and len(t.get("a") or []) == 2]
        if not gets:
            continue
        defs = _defs(m)
        # comparisons against a length
        est = {}          # base -> list of (switch block, establishing successor, other successor, slice origin, text)
        weak = {}         # base -> comparisons that establish nothing
        for i in sorted(B.reach):
            b = blocks[i]
            t = b["t"]
            if t["k"] != "switch" or b["c"]:
                continue
            d = cfg.op_place(t["d"])
            if not isinstance(d, int):
                continue
            src = [s for s in b["s"] if s.get("lhs") == d and (s.get("rv") or {}).get("k") == "bin" and s["rv"].get("o") in ("Lt", "Le", "Gt", "Ge")]
            if not src:
                continue
            rv = src[-1]["rv"]
            (oa, pa), (ob, pb) = _origin(defs, rv["a"]), _origin(defs, rv["b"])
            o = rv["o"]
            if ob and ob[0] == "len" and oa and oa[0] != "len":
                x, plus, sl = oa, pa, ob[1]
            elif oa and oa[0] == "len" and ob and ob[0] != "len":
                x, plus, sl = ob, pb, oa[1]
                o = {"Lt": "Gt", "Le": "Ge", "Gt": "Lt", "Ge": "Le"}[o]
            else:
                continue
            zero = [blk for v, blk in t["t"] if int(v) == 0]
            if len(zero) != 1:
                continue
            tr, fa = t["o"], zero[0]
            # normalised: x[+k] o len
            if o == "Lt" or (o == "Le" and plus):
                est.setdefault(x, []).append((i, tr, sl))
            elif o == "Ge" or (o == "Gt" and plus):
                est.setdefault(x, []).append((i, fa, sl))
            else:
                weak.setdefault(x, []).append((i, o))
        for gi, t in gets:
            (ix, _), (sl, _) = _origin(defs, t["a"][1]), _origin(defs, t["a"][0])
            if ix is None or (ix not in est and ix not in weak):
                continue
            n += 1
            edges = {(s, to) for s, to, sl2 in est.get(ix, []) if sl2 is None or sl is None or sl2 == sl}
            seen, todo = {0}, [0]
            while todo:
                x = todo.pop()
                for y in B.succ[x]:
                    if (x, y) not in edges and y not in seen:
                        seen.add(y)
                        todo.append(y)
            ok = gi not in seen
            ctx.ob(rule, "%s:%s:%d" % (rule, F.nice(fid), [g for g, _ in gets].index(gi)), ok,
                   "%s (%s): %s" % (F.nice(fid), F.where(fid),
                                    "get_unchecked #%d is reached only over an edge that establishes index < len" % [g for g, _ in gets].index(gi) if ok else
                                    "get_unchecked #%d can be reached without `index < len` having been established (the function compares the "
                                    "index with the length, but not strictly / not on this path): an index equal to the length reads or writes "
                                    "past the end of the slot array" % [g for g, _ in gets].index(gi)))
    return n
