"""E-TABLE.i64: the extended-integer terminal type of MTBDDs (oxidd_rules_mtbdd::terminal::i64::I64).

`Add/Sub/Mul/Div for I64` are interpreted from HIR over the abstract domain
{NaN, -inf, +inf, Num(negative), Num(zero), Num(positive)}^2.  `checked_add/sub/mul` answer `None` exactly for the
sign pairs for which the exact result can leave the i64 range; on that path the code may only look at the
operands through comparisons with 0, so its result is decided by the sign classes and must be the infinity of
the exact result's sign.  All non-finite cases are compared with IEEE semantics (inf - inf = NaN, 0 * inf = NaN,
x / 0 = +-inf by the sign of x, 0 / 0 = NaN, n / inf = 0)."""
import itertools
import re
import math

import tables
from lib.interp import Enum, Interp, Opaque, Panic, Return, Unrecognised, enumerate_runs
from tables import DDDomain, SOME, NONE

I64 = "oxidd_rules_mtbdd::terminal::i64::I64"


class AbsInt:
    def __init__(self, sign, big=False):
        self.sign = sign
        self.big = big   # may be i64::MIN / i64::MAX

    def __repr__(self):
        return {-1: "neg", 0: "zero", 1: "pos"}[self.sign]

    def __eq__(self, o):
        return isinstance(o, AbsInt) and o.sign == self.sign

    def __hash__(self):
        return hash(self.sign)


# sign pairs for which the exact result can overflow, and the sign of the exact result then
OVERFLOW = {
    "checked_add": {(1, 1): 1, (-1, -1): -1},
    "checked_sub": {(1, -1): 1, (0, -1): 1, (-1, 1): -1},
    "checked_mul": {(1, 1): 1, (-1, -1): 1, (1, -1): -1, (-1, 1): -1},
}


class I64Domain(DDDomain):
    def __init__(self, F):
        super().__init__(F, tables.MTBDD)
        self.overflow = None   # (op, expected sign) when the checked op answered None on this run

    def equal(self, it, a, b):
        if isinstance(a, AbsInt) and isinstance(b, int):
            if b == 0:
                return a.sign == 0
            if (b > 0) != (a.sign > 0) or a.sign == 0:
                return False
            # comparison with a non-zero constant (i64::MIN, -1): unknown
            return it.fork(("eq", id(a), b), 2, "%r==%d?" % (a, b)) == 0
        if isinstance(b, AbsInt) and isinstance(a, int):
            return self.equal(it, b, a)
        return super().equal(it, a, b)

    def compare(self, it, a, b):
        if isinstance(a, AbsInt) and isinstance(b, int) and b == 0:
            return a.sign
        if isinstance(b, AbsInt) and isinstance(a, int) and a == 0:
            return -b.sign
        if isinstance(a, AbsInt) and isinstance(b, AbsInt):
            raise Unrecognised("the overflow arm compares the two operands with each other")
        return super().compare(it, a, b)

    def const(self, it, e):
        n = e.get("n", "")
        if n.endswith("::MIN"):
            return -(2 ** 63)
        if n.endswith("::MAX"):
            return 2 ** 63 - 1
        return None

    def method(self, it, m, e, env):
        name = m.rsplit("::", 1)[-1]
        recv = it.recv(e, env)
        if isinstance(recv, AbsInt):
            if name in OVERFLOW:
                (b,) = it.args(e, env)
                if not isinstance(b, AbsInt):
                    raise Unrecognised("%s with %r" % (name, b))
                exp = OVERFLOW[name].get((recv.sign, b.sign))
                if exp is not None and it.fork(("ovf", name), 2, "%s overflows?" % name) == 1:
                    self.overflow = (name, exp)
                    return Enum(NONE)
                return Enum(SOME, [Opaque("exact result")])
            if name == "signum":
                return recv.sign
            if name == "cmp":
                (b,) = it.args(e, env)
                if isinstance(b, int) and b == 0:
                    return Enum("core::cmp::Ordering::" + {-1: "Less", 0: "Equal", 1: "Greater"}[recv.sign])
            if name in ("wrapping_div", "checked_div", "div"):
                return Opaque("exact result")
        if name == "unwrap" and isinstance(recv, Enum) and recv.path == SOME:
            return recv.args[0]
        if name == "signum" and isinstance(recv, Enum) and recv.path.startswith(I64):
            fid = [f for f in self.F.hir if f.startswith("oxidd_rules_mtbdd::terminal::i64::") and f.endswith("::signum")]
            if fid:
                return it.call_fn(fid[0], [recv])
        return super().method(it, m, e, env)

    def binop(self, it, o, l, r):
        if o in ("/", "%", "+", "-", "*") and (isinstance(l, AbsInt) or isinstance(r, AbsInt)):
            return Opaque("exact result")
        return None


def to_float(v):
    s = v.short
    if s == "NaN":
        return math.nan
    if s == "MinusInf":
        return -math.inf
    if s == "PlusInf":
        return math.inf
    return float(v.args[0].sign)


def spec(op, a, b):
    fa, fb = to_float(a), to_float(b)
    if op == "add":
        return fa + fb
    if op == "sub":
        return fa - fb
    if op == "mul":
        return tables._mul(fa, fb)
    return tables._div(fa, fb)


def classify(r):
    """result -> 'nan' | 'inf+' | 'inf-' | 'num'"""
    if isinstance(r, Enum) and r.path.startswith(I64):
        return {"NaN": "nan", "PlusInf": "inf+", "MinusInf": "inf-", "Num": "num"}[r.short]
    return None


def run(ctx, F, rule="E-TABLE.i64"):
    U = [Enum(I64 + "::NaN"), Enum(I64 + "::MinusInf"), Enum(I64 + "::PlusInf")] + \
        [Enum(I64 + "::Num", [AbsInt(s)]) for s in (-1, 0, 1)]
    n = 0
    for tr, op in (("Add", "add"), ("Sub", "sub"), ("Mul", "mul"), ("Div", "div")):
        fids = [fid for fid, r in F.fns.items() if (r.get("impl") or {}).get("trait") == "std::ops::" + tr
                and (r.get("impl") or {}).get("self") == I64 and (r.get("impl") or {}).get("trait_args", [None, None])[1:] == [I64]
                and fid.endswith("::" + op)]
        if not ctx.anchor(rule, "<I64 as %s>::%s" % (tr, op), len(fids) == 1):
            continue
        fid = fids[0]
        fails = []
        for a, b in itertools.product(U, U):
            holder = {}

            def mk(oracle):
                d = I64Domain(F)
                holder["d"] = d
                return Interp(F, d, oracle)
            for trace, (status, val) in enumerate_runs(mk, lambda it: it.call_fn(fid, [a, b])):
                n += 1
                sit = "%r %s %r%s" % (a, op, b, (" [" + ", ".join("%s=%s" % x for x in trace) + "]") if trace else "")
                key = "%s:%s:%r,%r" % (rule, op, a, b)
                if status != "ok":
                    fails.append("%s: %s %s" % (sit, status, val))
                    ctx.ob(rule + ".case", key, False, "", report=False)
                    continue
                got = classify(val)
                d = holder["d"]
                if d.overflow:
                    want = "inf+" if d.overflow[1] > 0 else "inf-"
                    okc = got == want
                    why = "the exact result does not fit into i64 and is %s" % ("positive" if d.overflow[1] > 0 else "negative")
                else:
                    both_num = a.short == "Num" and b.short == "Num"
                    w = spec(op, a, b)
                    if both_num and not (op == "div" and b.args[0].sign == 0) and got == "num":
                        okc, why = True, ""
                    elif both_num and op == "div" and got == "inf+" and a.args[0].sign == -1 and b.args[0].sign == -1:
                        okc, why = True, ""   # i64::MIN / -1
                    else:
                        want = "nan" if math.isnan(w) else ("inf+" if w == math.inf else "inf-" if w == -math.inf else "num")
                        okc = got == want
                        why = "extended-real arithmetic gives %s" % want
                if okc and got == "num" and a.short == "Num" and b.short in ("PlusInf", "MinusInf") and op == "div":
                    lit = val.args[0] if val.args else None
                    if not (isinstance(lit, int) and not isinstance(lit, bool) and lit == 0):
                        okc, why = False, "a finite number divided by an infinity is exactly 0"
                ctx.ob(rule + ".case", key, okc, "%s -> %s" % (sit, val), report=False)
                if not okc:
                    fails.append("%s yields %r but %s" % (sit, val, why))
        ctx.ob(rule, "%s:%s" % (rule, op), not fails,
               ("<I64 as %s>::%s (%s): %d abstract case(s) disagree with exact arithmetic saturated to +-inf; first: %s"
                % (tr, op, F.where(fid), len(fails), " || ".join(fails[:3]))) if fails else "all sign-class cases agree")
    # the constants of NumberBase
    for nm, want in (("zero", ("Num", 0)), ("one", ("Num", 1)), ("nan", ("NaN", None))):
        fids = [fid for fid, r in F.fns.items() if (r.get("impl") or {}).get("trait") == "oxidd_core::function::NumberBase"
                and (r.get("impl") or {}).get("self") == I64 and fid.endswith("::" + nm)]
        if not ctx.anchor(rule, "<I64 as NumberBase>::%s" % nm, len(fids) == 1):
            continue

        def mk2(oracle):
            return Interp(F, I64Domain(F), oracle)
        for trace, (status, val) in enumerate_runs(mk2, lambda it: it.call_fn(fids[0], [])):
            n += 1
            ok = status == "ok" and isinstance(val, Enum) and val.short == want[0] and \
                (want[1] is None or (val.args and val.args[0] == want[1] and not isinstance(val.args[0], bool)))
            ctx.ob(rule, "%s:%s" % (rule, nm), ok, "<I64 as NumberBase>::%s (%s) yields %r%s" %
                   (nm, F.where(fids[0]), val, "" if ok else ", expected %s%s" % (want[0], "" if want[1] is None else "(%d)" % want[1])))
    return n


def check_f64_constructors(ctx, F, rule="E-NUM.f64"):
    """`F64` keeps its values normalised (one zero, one NaN) so that structural equality of terminals is numeric
    equality.  The normalisation lives in `From<f64>`; every other place that builds an `F64` must do so from a
    constant or go through `From` -- a raw `F64(x)` of a computed / parsed value admits `-0.0` and signed NaNs as
    additional, unequal terminals."""
    from lib import cfg
    n = 0
    bad = []
    for fid, m in sorted(F.mir.items()):
        if not fid.startswith("oxidd_rules_mtbdd::"):
            continue
        for b in m["blocks"]:
            if b["c"]:
                continue
            for s in b["s"]:
                rv = s.get("rv") or {}
                if rv.get("k") == "aggr" and str(rv.get("adt", "")).endswith("::terminal::f64::F64"):
                    n += 1
                    op = rv["ops"][0]
                    if "c" not in op and not re.search(r"F64 as (std|core)::convert::From(<f64>)?>::from$", F.nice(fid)):
                        bad.append(F.nice(fid))
    ctx.ob(rule, rule + ":constructors", not bad and n >= 4,
           ("F64 is built from a non-constant value outside From<f64> in %s: the value is not normalised (-0.0, signed NaN)"
            % sorted(set(bad))) if bad else "%d constructions of F64: constants or From<f64>" % n)
    return n
