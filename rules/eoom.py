"""E-OOM: out-of-memory must surface as `Err(OutOfMemory)`, not as a panic or an abort (DESIGN 4 C14).

  unwrap   `Result<_, OutOfMemory>::unwrap/expect` is only applied to `get_terminal` of a manager whose terminals are
           static (BDD, BCDD, ZBDD, TDD terminals always exist); everywhere else the error must be propagated;
  abort    `std::process::abort` is only reachable through the reviewed sites (AbortOnDrop, reference-count overflow
           guards).  The two sites that abort on out-of-memory by design are recorded as known findings."""
import re

from lib import cfg
from efreelist import origins

CRATES = ("oxidd_rules_", "oxidd_reorder", "oxidd_dump", "oxidd_manager_", "oxidd_core", "oxidd_cache", "oxidd::")
STATIC_TERMINAL_CRATES = ("oxidd_rules_bdd", "oxidd_rules_zbdd", "oxidd_rules_tdd")
ABORT_OK = {
    "AbortOnDrop<'_> as std::ops::Drop>::drop": "the purpose of AbortOnDrop (a panic inside a critical section)",
    "NodeBase>::retain": "reference-count overflow guard (like Arc)",
    "AtomicRefCounted>::retain": "reference-count overflow guard (like Arc)",
    "terminal_manager::dynamic::retain": "reference-count overflow guard",
}


def run(ctx, F, rule="E-OOM"):
    nun = nab = 0
    for fid, m in sorted(F.mir.items()):
        if not fid.startswith(CRATES):
            continue
        B = cfg.Body(m)
        nice = re.sub(r"::\{closure#\d+\}", "", F.nice(fid))   # closure numbers are not stable
        k = 0
        for i, t in B.calls():
            if m["blocks"][i]["c"]:
                continue
            cn = cfg.callee_name(t) or ""
            if cn.endswith("process::abort"):
                nab += 1
                ok = any(nice.endswith(s) for s in ABORT_OK)
                ctx.ob(rule + ".abort", "%s.abort:%s" % (rule, nice), ok,
                       "%s (%s) calls std::process::abort on a non-unwind path: an operation that runs out of memory "
                       "here takes the whole process down instead of returning Err(OutOfMemory)" % (nice, F.where(fid)))
            if re.search(r"Result::<T, E>::(unwrap|expect)$", cn) and any("OutOfMemory" in str(g) for g in t["f"].get("ga", [])):
                nun += 1
                k += 1
                org = [cfg.callee_name(o[1]) or cfg.callee_decl(o[1]) or "?" for o in origins(B, m, t["a"][:1]) if o[0] == "call"]
                from_terminal = bool(org) and all(o.endswith("::get_terminal") for o in org)
                ok = from_terminal and fid.startswith(STATIC_TERMINAL_CRATES)
                ctx.ob(rule + ".unwrap", "%s.unwrap:%s#%d" % (rule, nice, k), ok,
                       "%s (%s, line %s) unwraps an AllocResult produced by %s: an out-of-memory condition becomes a "
                       "panic instead of Err(OutOfMemory)" % (nice, F.where(fid), t.get("ln"), [o.rsplit("::", 1)[-1] for o in org] or "?"))
    ctx.floor(rule + ".unwrap", "AllocResult unwrap sites classified", nun, 40)
    ctx.floor(rule + ".abort", "abort sites classified", nab, 4)
