"""E-FFI: handle typestate and naming across the C boundary (DESIGN 3.7)"""
import re

from lib import cfg
from lib import hirutil as H

DDS = ("bdd", "bcdd", "zbdd")

# C symbol suffix -> Rust item it must call (only where the names differ), with reason
ALIAS = {
    "true": "t", "false": "f",                       # C keywords-ish names for the constants
    "ref": "clone", "manager_ref": "clone",          # reference counting = Clone
    "unref": "from_raw", "manager_unref": "from_raw",  # drop(from_raw(..))
    "manager_new": "new_manager",
    "containing_manager": "manager_ref",
    "manager_num_inner_nodes": "num_inner_nodes", "manager_approx_num_inner_nodes": "approx_num_inner_nodes",
    "manager_run_in_worker_pool": "run_in_worker_pool",
    "manager_with_var_name": "var_name",
    "manager_add_named_vars_iter": "add_named_vars", "manager_dump_all_dot_path": "dump_all",
    "manager_dump_all_dot_path_iter": "dump_all", "manager_export_dddmp": "export", "manager_export_dddmp_iter": "export",
    "manager_export_dddmp_with_names_iter": "export_with_names", "manager_import_dddmp": "import",
    "manager_visualize": "visualize", "manager_visualize_iter": "visualize", "manager_visualize_with_names_iter": "visualize",
    "manager_num_vars": "num_vars", "sat_count_double": "sat_count", "node_level": "level", "node_var": "level_to_var",
    "cofactor_true": "cofactor_true", "substitution_new": "new_substitution_id", "substitution_add_pair": "push",
    "substitution_free": "from_raw", "print_stats": "print_stats", "substitute": "substitute",
    "pick_cube": "pick_cube", "manager_name_to_var": "name_to_var",
}


ZBDD_SET_ALIAS = {"false": "empty"}   # oxidd_zbdd_false is documented as equivalent to oxidd_zbdd_empty


def called_items(h):
    out = set()
    for c in H.calls(h["body"]):
        n = H.callee(c)
        out.add(n.rsplit("::", 1)[-1])
        if c["k"] == "call":
            for a in c["a"]:
                p = H.fn_path_arg(a)
                if p:
                    out.add(p.rsplit("::", 1)[-1])
    # method/function paths passed as values
    for n in H.walk(h["body"]):
        p = H.fn_path_arg(n)
        if p:
            out.add(p.rsplit("::", 1)[-1])
    return out


def run(ctx, F, rule="E-FFI"):
    ext = {fid: r for fid, r in F.fns.items() if fid.startswith("oxidd_ffi_c::") and r.get("no_mangle")}
    ctx.floor(rule, "exported C entry points", len(ext), 200)
    per_dd = {d: set() for d in DDS}
    # ---- names -------------------------------------------------------------------------------------------
    for fid, r in sorted(ext.items()):
        sym = fid.rsplit("::", 1)[1]
        m = re.match(r"oxidd_(bdd|bcdd|zbdd)_(.+)$", sym)
        if not m:
            continue
        dd, name = m.groups()
        per_dd[dd].add(name)
        h = F.hir.get(fid)
        if h is None:
            continue
        items = called_items(h)
        want = ALIAS.get(name, name[len("manager_"):] if name.startswith("manager_") else name)
        io = re.match(r"manager_(dump|export|import|visualize)", name)
        if io:
            # file/GUI helpers delegate to util::* functions named after the same verb
            ok = any(io.group(1) in x for x in items)
        else:
            ok = want in items or (want + "_edge") in items or ("oxidd_%s_%s" % (dd, ZBDD_SET_ALIAS.get(name, "\0"))) in items
        ctx.ob(rule + ".name", "%s.name:%s" % (rule, sym), ok,
               "%s (%s) does not call `%s` (it calls %s): a C entry point must be wired to the Rust operation it is "
               "named for" % (sym, F.where(fid), want, sorted(x for x in items if not x.startswith("{"))[:12]))
        # operand order for the op* helpers
        pn = H.param_names(h)
        for c in H.calls(h["body"]):
            n = H.callee(c)
            if re.search(r"::util::op[0-9]", n):
                roots = [H.root_local(a) for a in c["a"]]
                named = [x for x in roots if x in pn]
                okp = named == pn
                ctx.ob(rule + ".operands", "%s.operands:%s" % (rule, sym), okp,
                       "%s (%s) passes its operands as %s, declared order is %s" % (sym, F.where(fid), named, pn))
    # ---- the three files export the same operations for shared traits --------------------------------------
    common = per_dd["bdd"] & per_dd["bcdd"]
    ctx.ob(rule + ".siblings", rule + ".siblings:bdd=bcdd", per_dd["bdd"] == per_dd["bcdd"],
           "bdd.rs and bcdd.rs export different operation sets: only in bdd %s, only in bcdd %s"
           % (sorted(per_dd["bdd"] - per_dd["bcdd"]), sorted(per_dd["bcdd"] - per_dd["bdd"])))
    missing = {x for x in common if x not in per_dd["zbdd"] and not x.startswith(("forall", "exists", "unique", "apply_", "substitut", "restrict"))}
    ctx.ob(rule + ".siblings", rule + ".siblings:zbdd", not missing,
           "zbdd.rs lacks the operations %s that bdd.rs and bcdd.rs export" % sorted(missing))
    # ---- handle typestate: from_raw only under ManuallyDrop::new or in *_unref/free (dropped) ------------------
    nfr = 0
    for fid, h in sorted(F.hir.items()):
        if not fid.startswith("oxidd_ffi_c::"):
            continue
        sym = fid.rsplit("::", 1)[1]
        for node in H.walk(h["body"]):
            if node.get("k") != "call":
                continue
            for a in node["a"]:
                inner = a
                while isinstance(inner, dict) and inner.get("k") in ("block", "use") and (inner.get("e") is not None) \
                        and not inner.get("s"):
                    inner = inner["e"]
                if isinstance(inner, dict) and inner.get("k") == "call" and inner["f"].get("k") == "path" \
                        and (inner["f"].get("n") or "").endswith("::from_raw") \
                        and ("Function" in inner["f"]["n"] or "ManagerRef" in inner["f"]["n"]):
                    nfr += 1
                    outer = node["f"].get("n", "")
                    is_get = sym == "get"
                    is_unref = sym.endswith("_unref")
                    ok = (is_get and outer.endswith("ManuallyDrop::<T>::new")) or (is_unref and outer.endswith("mem::drop"))
                    ctx.ob(rule + ".from_raw", "%s.from_raw:%s" % (rule, F.nice(fid)), ok,
                           "%s (%s): from_raw re-materialises an owned handle from the C struct; it may only appear "
                           "as the argument of ManuallyDrop::new inside `get()` (borrow) or of drop() inside `*_unref` "
                           "(release); here it is passed to `%s`" % (F.nice(fid), F.where(fid), outer))
    # any other from_raw on handle types?
    total = 0
    for fid, h in F.hir.items():
        if fid.startswith("oxidd_ffi_c::"):
            for c in H.calls(h["body"]):
                n = H.callee(c)
                if n.endswith("::from_raw") and ("Function" in n or "ManagerRef" in n):
                    total += 1
    ctx.ob(rule + ".from_raw", rule + ".from_raw:all-accounted", total == nfr,
           "%d of %d from_raw call sites on handle types are not direct arguments of ManuallyDrop::new / drop" % (total - nfr, total))
    ctx.floor(rule + ".from_raw", "from_raw sites", nfr, 12)
    # ---- consuming entry points: ManuallyDrop::into_inner/take/drop only where documented -------------------------
    for fid, h in sorted(F.hir.items()):
        if not fid.startswith("oxidd_ffi_c::"):
            continue
        sym = fid.rsplit("::", 1)[1]
        cons = [H.callee(c) for c in H.calls(h["body"]) if re.search(r"ManuallyDrop::<T>::(into_inner|take|drop)$", H.callee(c))]
        for c in H.walk(h["body"]):
            p = H.fn_path_arg(c)
            if p and re.search(r"ManuallyDrop::<T>::(into_inner|take|drop)$", p):
                cons.append(p)
        if cons:
            ctx.ob(rule + ".consume", "%s.consume:%s" % (rule, F.nice(fid)), sym == "oxidd_zbdd_make_node",
                   "%s (%s) takes ownership of a borrowed C handle (%s); only oxidd_zbdd_make_node is documented to "
                   "consume its arguments: every other entry point must leave the caller's reference untouched"
                   % (F.nice(fid), F.where(fid), sorted(set(x.rsplit("::", 1)[1] for x in cons))))
    # ---- the one consuming entry point takes ownership unconditionally ------------------------------------------
    fid = "oxidd_ffi_c::zbdd::oxidd_zbdd_make_node"
    m = F.mir.get(fid)
    if ctx.anchor(rule, fid, m is not None):
        B = cfg.Body(m)
        takes = []
        for i, t in B.calls():
            cn = cfg.callee_name(t) or ""
            if cn.endswith("Result::<T, E>::map") and len(t["a"]) > 1:
                fi = cfg.fn_item_of(t["a"][1]) or ""
                if fi.endswith("ManuallyDrop::<T>::into_inner"):
                    takes.append(i)
            elif cn.endswith("ManuallyDrop::<T>::into_inner"):
                takes.append(i)

        def control_deps(b):
            out = []
            for s_ in B.reach:
                succ = B.succ[s_]
                if len(succ) > 1 and any(x == b or B.postdominates(b, x) for x in succ) and not B.postdominates(b, s_):
                    out.append(s_)
            return out
        # unconditional, or conditional only on the validity of the handle being converted (one switch)
        uncond = [i for i in takes if len(control_deps(i)) <= 1]
        ok = len(uncond) == 2 and len(takes) == 2
        ctx.ob(rule + ".consume", rule + ".consume:make_node-unconditional", ok,
               "oxidd_zbdd_make_node (%s) is documented to take ownership of `hi` and `lo`: both handles must be "
               "converted into owned values on every path (found %d unconditional conversions); a conversion that "
               "only happens after another argument was validated leaks the reference when that argument is invalid"
               % (F.where(fid), len(uncond)))
    # ---- error mapping: From<AllocResult<F>> / get() ---------------------------------------------------------
    nmap = 0
    for fid, r in sorted(F.fns.items()):
        if not fid.startswith("oxidd_ffi_c::"):
            continue
        imp = r.get("impl") or {}
        if imp.get("trait") == "std::convert::From" and fid.endswith("::from") and re.search(r"::(bdd|bcdd|zbdd)_t$", imp.get("self", "")):
            targs = imp.get("trait_args", [])
            src = targs[1] if len(targs) > 1 else ""
            if "Result<" in src or "Option<" in src:
                nmap += 1
                h = F.hir.get(fid)
                txt = " ".join(n.get("n", "") for n in H.walk(h["body"]) if n.get("k") == "path")
                ctx.ob(rule + ".errmap", "%s.errmap:%s" % (rule, F.nice(fid)), "INVALID" in txt and "into_raw" in " ".join(H.callee(c) for c in H.calls(h["body"])),
                       "%s (%s) must map the error/None case to the INVALID handle and the success case to into_raw"
                       % (F.nice(fid), F.where(fid)))
        if fid.endswith("::get") and imp.get("trait") == "oxidd_ffi_c::util::CFunction":
            nmap += 1
            h = F.hir.get(fid)
            calls = [H.callee(c) for c in H.calls(h["body"])]
            has_null = any(c.endswith("::is_null") for c in calls)
            has_err = any(n.get("k") == "path" and (n.get("n") or "").endswith("OutOfMemory") for n in H.walk(h["body"]))
            ctx.ob(rule + ".errmap", "%s.errmap:%s" % (rule, F.nice(fid)), has_null and has_err,
                   "%s (%s) must test the handle for null and yield Err(OutOfMemory) for an invalid handle"
                   % (F.nice(fid), F.where(fid)))
    ctx.floor(rule + ".errmap", "error-mapping conversions", nmap, 9)
    # ---- the op helpers route every operand through get() ----------------------------------------------------------
    for name, nops in (("op1", 1), ("op2", 2), ("op3", 3), ("op3_combined", 3), ("op2_var", 1)):
        fid = "oxidd_ffi_c::util::" + name
        h = F.hir.get(fid)
        if not ctx.anchor(rule, fid, h is not None):
            continue
        gets = [c for c in H.calls(h["body"]) if H.callee(c).endswith("CFunction::get")]
        ctx.ob(rule + ".ops", "%s.ops:%s" % (rule, name), len(gets) == nops,
               "util::%s (%s) validates %d operand(s) through get(), expected %d: an invalid (out-of-memory) handle must "
               "yield an invalid handle, not a crash" % (name, F.where(fid), len(gets), nops))


# ---- fresh handles ------------------------------------------------------------------------------------------------
HANDLE_TYPES = re.compile(r"^oxidd_ffi_c::\w+::(bdd_t|bcdd_t|zbdd_t|\w+_manager_t)$|^oxidd_ffi_c::\w+::\w+_t$")


def check_fresh_handles(ctx, F, rule="E-FFI.fresh"):
    """An exported function that returns a function / manager handle returns a handle that owns its own reference:
    the caller unrefs every returned handle exactly once.  From MIR: the return place is never a copy of a handle
    parameter, except in the `*_ref` functions, where a clone of the underlying reference is forgotten (= the
    reference count is incremented) on the way."""
    n = 0
    for fid, r in sorted(F.fns.items()):
        if not (fid.startswith("oxidd_ffi_c::") and r.get("no_mangle") and fid in F.mir):
            continue
        out = r.get("output") or ""
        if not HANDLE_TYPES.match(out) or out not in (r.get("inputs") or []):
            continue
        m = F.mir[fid]
        B = cfg.Body(m)
        argc = len(r.get("inputs") or [])
        params = {i for i in range(1, argc + 1) if (m["locals"][i].get("ty") or "") == out}
        # locals that hold a plain copy of such a parameter
        copies = set(params)
        ch = True
        while ch:
            ch = False
            for bi in B.reach:
                for st in B.blocks[bi]["s"]:
                    rv = st.get("rv") or {}
                    if rv.get("k") == "use" and isinstance(st.get("lhs"), int) and st["lhs"] not in copies:
                        o = rv["op"]
                        src = o.get("cp", o.get("mv"))
                        if isinstance(src, int) and src in copies:
                            copies.add(st["lhs"])
                            ch = True
        sites = [bi for bi in sorted(B.reach) if not B.blocks[bi]["c"] and
                 any(st.get("lhs") == 0 and (st.get("rv") or {}).get("k") == "use" and
                     isinstance((st["rv"]["op"].get("cp", st["rv"]["op"].get("mv"))), int) and
                     st["rv"]["op"].get("cp", st["rv"]["op"].get("mv")) in copies for st in B.blocks[bi]["s"])]
        n += 1
        if not sites:
            ctx.ob(rule, "%s:%s" % (rule, fid), True, "%s: never returns one of its argument handles" % fid, nontrivial=False)
            continue
        # allowed only if every such site is dominated by mem::forget of a clone (reference count incremented)
        forgets = [bi for bi in B.reach if (B.blocks[bi].get("t") or {}).get("k") == "call" and
                   (cfg.callee_name(B.blocks[bi]["t"]) or "").endswith("mem::forget")]
        clones = [bi for bi in B.reach if (B.blocks[bi].get("t") or {}).get("k") == "call" and
                  re.search(r"Clone>?::clone$", cfg.callee_name(B.blocks[bi]["t"]) or "")]
        # the reference-taking entry points (`*_ref`): every path to the return passes the clone + forget, except the
        # null-handle path of the manager variants (nothing to own)
        is_ref = fid.endswith("_ref")
        ok = is_ref and bool(forgets) and bool(clones) and all(
            all(any(B.dominates(c_, f_) for c_ in clones) for f_ in forgets) and
            (any(B.dominates(f_, s) for f_ in forgets) or
             any((cfg.callee_name(B.blocks[b2]["t"]) or "").endswith("is_null") for b2 in B.reach
                 if (B.blocks[b2].get("t") or {}).get("k") == "call"))
            for s in sites)
        ctx.ob(rule, "%s:%s" % (rule, fid), ok,
               "%s (%s): %s" % (fid, F.where(fid),
                                "returns its argument handle after taking an extra reference (clone + forget)" if ok else
                                "returns one of its argument handles without taking a reference of its own: the caller "
                                "will unref both the argument and the result, releasing one reference twice"))
    return n


def check_zip_before_filter(ctx, F, rule="E-FFI.zip"):
    """Parallel C arrays (handles and their names, variables and their values) are paired by position.  The pairing
    (`zip`) must happen before elements are dropped from either side: `a.filter(..).zip(b)` pairs the survivors of
    `a` with the *unfiltered* `b`, shifting every later pair."""
    n = 0
    SHRINK = ("filter", "filter_map", "skip_while", "take_while", "flat_map", "flatten", "skip", "step_by")
    for fid, h in sorted(F.hir.items()):
        if not fid.startswith("oxidd_ffi_c::"):
            continue
        for c in H.walk(h["body"]):
            if c.get("k") == "mcall" and c.get("name") == "zip":
                n += 1
                bad = None
                for side, e in (("receiver", c["r"]), ("argument", c["a"][0] if c.get("a") else None)):
                    x = e
                    while isinstance(x, dict):
                        if x.get("k") == "mcall":
                            if x.get("name") in SHRINK:
                                bad = (side, x["name"])
                                break
                            x = x["r"]
                        elif x.get("k") in ("ref", "use", "cast"):
                            x = x["e"]
                        else:
                            break
                ctx.ob(rule, "%s:%s" % (rule, re.sub(r"\{closure#\d+\}", "{closure}", F.nice(fid))), bad is None,
                       "%s (%s, line %s): %s" % (F.nice(fid), F.where(fid), c.get("ln"),
                                                 "parallel sequences are zipped before any element is filtered out" if bad is None else
                                                 "the %s of `zip` has already been shortened by `%s`: later elements are paired "
                                                 "with the wrong partner" % bad))
    return n


THIN_EXCEPTIONS = {
    # exported function (closure numbers stripped) -> reason for its own data-dependent branch
    "oxidd_ffi_c::bdd::oxidd_bdd_manager_name_to_var": "maps the name bookkeeping's Option<VarNo> to the C sentinel",
    "oxidd_ffi_c::bcdd::oxidd_bcdd_manager_name_to_var": "maps the name bookkeeping's Option<VarNo> to the C sentinel",
    "oxidd_ffi_c::zbdd::oxidd_zbdd_manager_name_to_var": "maps the name bookkeeping's Option<VarNo> to the C sentinel",
    "oxidd_ffi_c::bdd::oxidd_bdd_manager_set_var_order": "chooses the sequential / concurrent reordering variant",
    "oxidd_ffi_c::bcdd::oxidd_bcdd_manager_set_var_order": "chooses the sequential / concurrent reordering variant",
    "oxidd_ffi_c::zbdd::oxidd_zbdd_manager_set_var_order": "chooses the sequential / concurrent reordering variant",
    "oxidd_ffi_c::zbdd::oxidd_zbdd_make_node::{closure}": "the documented ownership-taking entry point",
}


def check_thin_wrappers(ctx, F, rule="E-FFI.thin"):
    """The C entry points are thin: besides null-pointer checks and the propagation of Option / Result values they have
    no decisions of their own, so every call behaves like the Rust method it wraps.  A data-dependent branch in an
    exported function (or in a closure defined in it) -- a fast path, a special case for empty input -- is where the C
    API starts to differ from the Rust API.  Reviewed exceptions are listed with their reason."""
    n = 0
    for fid, m in sorted(F.mir.items()):
        base = fid.split("::{closure")[0]
        if not (fid.startswith("oxidd_ffi_c::") and (F.fns.get(base) or {}).get("no_mangle")):
            continue
        B = cfg.Body(m)
        own = []
        for i in sorted(B.reach):
            b = m["blocks"][i]
            t = b["t"]
            if b["c"] or t["k"] != "switch":
                continue
            d = t["d"].get("mv", t["d"].get("cp"))
            dl = d if isinstance(d, int) else (d.get("l") if isinstance(d, dict) else None)
            ok = False
            for bb in m["blocks"]:
                for s in bb["s"]:
                    if s.get("lhs") == dl and (s.get("rv") or {}).get("k") == "discr":
                        ok = True
                tt = bb["t"]
                if tt.get("k") == "call" and tt.get("d") == dl and \
                        re.search(r"is_null$|::is_some$|::is_none$|::is_ok$|::is_err$", cfg.callee_name(tt) or ""):
                    ok = True
            if not ok:
                own.append(i)
        n += 1
        key = re.sub(r"\{closure#\d+\}", "{closure}", fid)
        if own and key in THIN_EXCEPTIONS:
            ctx.ob(rule, "%s:%s" % (rule, key), True, "reviewed exception: %s" % THIN_EXCEPTIONS[key])
        elif own:
            ctx.ob(rule, "%s:%s" % (rule, key), False,
                   "%s (%s): the exported function takes %d data-dependent decision(s) of its own (not a null check, not the "
                   "propagation of an Option/Result): on that path the C call no longer behaves like the Rust method it wraps"
                   % (fid, F.where(fid), len(own)))
        else:
            ctx.ob(rule, "%s:%s" % (rule, key), True, "thin", nontrivial=False)
    return n


# ---- sibling agreement of the three C modules --------------------------------------------------------------------
SIBLING_EXCEPTIONS = {
    # (function suffix, kind) -> why this member legitimately differs from its siblings
    ("false", "zbdd"): "the ZBDD constant false is the empty family: delegates to oxidd_zbdd_empty",
}
_DROP = ("ln", "lid", "exp", "lbl", "to", "ga", "rty", "hty", "ty")


def _norm_hir(h, kind, F=None):
    import json
    names = {}

    def walk(x):
        if isinstance(x, dict):
            # a crate-local constant is the same program as its initialiser (`assignment_t::EMPTY` vs. the literal)
            if F is not None and x.get("k") == "path" and str(x.get("did", "")).startswith("oxidd_ffi_c::") \
                    and "body" in (F.consts.get(x.get("did")) or {}):
                return walk(F.consts[x["did"]]["body"])
            out = {}
            for k, v in x.items():
                if k in _DROP:
                    continue
                out[k] = walk(v)
            # alpha-rename locals in order of first appearance
            if x.get("k") == "bind" or (x.get("k") == "path" and x.get("res") == "local"):
                out["n"] = names.setdefault(x.get("n"), "v%d" % len(names))
            return out
        if isinstance(x, list):
            return [walk(v) for v in x]
        return x
    s = json.dumps(walk({"params": h.get("params"), "body": h.get("body")}), sort_keys=True)
    K = kind.upper()
    for a, b in (("oxidd_%s_" % kind, "oxidd_K_"), ("::%s_" % kind, "::K_"), ("%s_t" % kind, "K_t"), ("::%s::" % kind, "::K::"),
                 (K + "Function", "KFunction"), (K + "ManagerRef", "KManagerRef"), (K + "Manager", "KManager"),
                 ("oxidd_rules_bdd::simple", "RULES"), ("oxidd_rules_bdd::complement_edge", "RULES"), ("oxidd_rules_zbdd", "RULES")):
        s = s.replace(a, b)
    return re.sub(r"\{impl#\d+\}", "{impl}", s)


def check_siblings(ctx, F, rule="E-FFI.siblings"):
    """`bdd.rs`, `bcdd.rs` and `zbdd.rs` of the C interface export the same functions for three diagram kinds; a
    function `oxidd_<kind>_<name>` must be the same program as its siblings up to the kind's names (type-checked HIR
    with kind names, local names, generic arguments and line numbers normalised).  A member that deviates does
    something its siblings -- and the Rust API they all wrap -- do not (state kept across calls, an argument
    dropped, a different callee); reviewed deviations are listed in SIBLING_EXCEPTIONS."""
    mods = {"bdd": "oxidd_ffi_c::bdd::", "bcdd": "oxidd_ffi_c::bcdd::", "zbdd": "oxidd_ffi_c::zbdd::"}
    by = {}
    for fid, h in F.hir.items():
        for k, m in mods.items():
            if fid.startswith(m) and fid.count("::") == 2:
                name = fid[len(m):]
                if not name.startswith("oxidd_%s_" % k):
                    continue
                by.setdefault(name[len("oxidd_%s_" % k):], {})[k] = (fid, _norm_hir(h, k, F))
    # the handle conversions (`CFunction::get`, `From<Function>`, ...) and associated constants of the three modules
    def knorm(t, k):
        K = k.upper()
        for a, b in (("::%s::" % k, "::K::"), ("%s_t" % k, "K_t"), ("%s_manager_t" % k, "K_manager_t"), (K + "Function", "KFunction"),
                     (K + "ManagerRef", "KManagerRef")):
            t = t.replace(a, b)
        return t
    for fid, h in F.hir.items():
        for k, m in mods.items():
            im = (F.fns.get(fid) or {}).get("impl") or {}
            if fid.startswith(m + "{impl#") and fid.count("::") == 3 and im.get("trait"):
                key = "<%s>::%s" % (knorm("%s<%s>" % (im["trait"], ", ".join(im.get("trait_args") or [])), k), fid.rsplit("::", 1)[-1])
                by.setdefault(key, {})[k] = (fid, _norm_hir(h, k, F))
    for cid, c in F.consts.items():
        for k, m in mods.items():
            if cid.startswith(m + "{impl#") and "body" in c:
                key = "const <%s as %s>::%s" % (knorm(c.get("impl_self", ""), k), c.get("impl_trait"), cid.rsplit("::", 1)[-1])
                by.setdefault(key, {})[k] = (cid, _norm_hir({"params": [], "body": c["body"]}, k, None))
    n = 0
    used = set()
    for suf, d in sorted(by.items()):
        members = {k: v for k, v in d.items() if (suf, k) not in SIBLING_EXCEPTIONS}
        used |= {(suf, k) for k in d if (suf, k) in SIBLING_EXCEPTIONS}
        if len(members) < 2:
            continue
        n += 1
        groups = {}
        for k, (fid, s) in members.items():
            groups.setdefault(s, []).append(k)
        ok = len(groups) == 1
        detail = "oxidd_*_%s: %s agree" % (suf, "/".join(sorted(members)))
        if not ok:
            big = max(groups.values(), key=len)
            odd = sorted(k for g in groups.values() if g is not big for k in g)
            if len(big) == 1:
                odd = sorted(members)
            detail = "%s differ%s from %s beyond the kind's names: the C functions of the three kinds are meant to be the same " \
                     "wrapper of the same Rust API call" % (
                         ", ".join("%s (%s)" % (F.nice(members[k][0]), F.where(members[k][0])) for k in odd),
                         "" if len(odd) > 1 else "s",
                         "each other" if len(big) == 1 else "/".join("oxidd_%s_%s" % (k, suf) for k in sorted(big)))
        ctx.ob(rule, "%s:%s" % (rule, suf), ok, detail)
    for key, why in SIBLING_EXCEPTIONS.items():
        ctx.ob(rule + ".exception", "%s.exception:%s:%s" % (rule, key[1], key[0]), key in used,
               "reviewed deviation oxidd_%s_%s: %s%s" % (key[1], key[0], why, "" if key in used else " -- no longer exists"),
               nontrivial=False)
    return n


def check_empty_consts(ctx, F, rule="E-FFI.empty"):
    """The `EMPTY` / `INVALID` / `NONE` constants of the C interface are what an operation hands out when there is no
    result; C callers test `len == 0` / `_p == NULL`.  Every length / capacity field of such a constant is the
    literal 0 and a pointer field of an `INVALID` handle is null: otherwise the C side reads through a dangling pointer."""
    n = 0
    for cid, c in sorted(F.consts.items()):
        if not (cid.startswith("oxidd_ffi_c::") and cid.rsplit("::", 1)[-1] in ("EMPTY", "INVALID") and (c.get("body") or {}).get("k") == "struct"):
            continue
        n += 1
        bad = []
        for fn, fv in c["body"]["f"]:
            if fn in ("len", "_cap", "cap") and not (fv.get("k") == "lit" and fv.get("v") == "0"):
                bad.append("field `%s` is not 0" % fn)
            if fn in ("_p", "data") and cid.endswith("INVALID") or (fn == "data" and "assignment_t" in c.get("name", "")):
                if not (fv.get("k") == "call" and str((fv.get("f") or {}).get("did", "")).startswith("core::ptr::null")):
                    bad.append("pointer field `%s` is not null" % fn)
        ctx.ob(rule, "%s:%s" % (rule, c.get("name", cid)), not bad, "%s: %s" % (c.get("name", cid), "; ".join(bad) if bad else "null pointer / zero length"))
    ctx.anchor(rule, "EMPTY / INVALID constants of the C interface (5 confirmed by reading)", n >= 5)
    return n


_DEREF = re.compile(r"::(from_raw_parts|from_raw_parts_mut|from_raw|from_ptr|as_ref|as_mut|read|write|write_unaligned|read_unaligned|"
                    r"copy_to_nonoverlapping|copy_from_nonoverlapping|drop_in_place|offset|add)$")


def check_null_guards(ctx, F, rule="E-FFI.null"):
    """Where a C-facing function tests one of its raw pointers with `is_null()`, everything that dereferences or takes
    ownership through a pointer (`from_raw_parts`, `Box::from_raw`, `CStr::from_ptr`, `read` / `write`, ...) lies on the
    `false` edge of a null test only: a flipped test frees / reads through NULL and skips the real work for valid
    pointers.  (Functions without a null test document their pointers as non-null and are not judged here.)"""
    n = 0
    for fid, m in sorted(F.mir.items()):
        if not fid.startswith("oxidd_ffi_c::"):
            continue
        B = cfg.Body(m)
        blocks = m["blocks"]
        tests = [i for i, t in B.calls() if re.search(r"ptr::(mut_ptr|const_ptr)::<impl \*(mut|const) T>::is_null$|::is_null$",
                                                      cfg.callee_name(t) or "") and not blocks[i]["c"]]
        if not tests:
            continue
        derefs = [i for i, t in B.calls() if _DEREF.search(cfg.callee_name(t) or "") and not blocks[i]["c"]
                  and re.search(r"ptr::|slice::from_raw|Vec::<|Box::<|boxed::Box|CStr::|NonNull", cfg.callee_name(t) or "")]
        if not derefs:
            continue
        null_reach = set()
        judged = False
        for c in tests:
            t = blocks[c]["t"]
            dest, nxt = t.get("d"), t.get("t")
            if not isinstance(dest, int) or nxt is None:
                continue
            neg, cur = None, nxt
            for _ in range(4):
                b = blocks[cur]
                for st in b["s"]:
                    rv = st.get("rv") or {}
                    if rv.get("k") == "un" and rv.get("o") == "Not" and cfg.op_place(rv.get("a", rv.get("op"))) == dest:
                        neg = st.get("lhs")
                tt = b["t"]
                if tt["k"] == "switch":
                    d = cfg.op_place(tt.get("d"))
                    zero = [blk for v, blk in tt["t"] if str(v) == "0"]
                    true_e = None
                    if d == dest:
                        true_e = [tt.get("o")]
                    elif neg is not None and d == neg:
                        true_e = zero
                    if true_e is not None:
                        judged = True
                        # blocks reachable only on the null edge: reachable from the null edge but not from the other one
                        others = zero if true_e != zero else [tt.get("o")]
                        rt, ro = set(), set()
                        for x in true_e:
                            if x is not None:
                                rt |= B.reachable_from(x, avoid=(cur,))
                        for x in others:
                            if x is not None:
                                ro |= B.reachable_from(x, avoid=(cur,))
                        null_reach |= (rt - ro)
                    break
                if tt["k"] == "goto" and isinstance(tt.get("t"), int):
                    cur = tt["t"]
                else:
                    break
        if not judged:
            continue
        n += 1
        bad = [i for i in derefs if i in null_reach]
        ctx.ob(rule, "%s:%s" % (rule, F.nice(fid)), not bad,
               "%s (%s): %s" % (F.nice(fid), F.where(fid),
                                "pointer operations lie on the non-null edge of the null test" if not bad else
                                "%s is reached only when the pointer IS null (the test is inverted)" %
                                ", ".join(sorted({(cfg.callee_name(blocks[i]["t"]) or "").rsplit("::", 1)[-1] for i in bad}))))
    return n


def check_status_results(ctx, F, rule="E-FFI.status"):
    """C functions that report success as a `bool` after `handle_err_or_init(result, error)`: the constant `false` is
    returned only on the `None` (error) side of the match on that call's result and the constant `true` only on the `Some`
    side; `handle_err_or_init` itself maps `Ok(v)` to `Some(v)` (writing error_t::NONE) and `Err(e)` to `None`."""
    from lib import hirutil as H
    n = 0
    for fid, m in sorted(F.mir.items()):
        if not fid.startswith("oxidd_ffi_c::") or m["locals"][0].get("ty") != "bool":
            continue
        B = cfg.Body(m)
        blocks = m["blocks"]
        calls = [(i, t) for i, t in B.calls() if (cfg.callee_name(t) or "").endswith("::handle_err_or_init") and not blocks[i]["c"]]
        consts = []
        for i in sorted(B.reach):
            if blocks[i]["c"]:
                continue
            for s in blocks[i]["s"]:
                if s.get("lhs") == 0 and (s.get("rv") or {}).get("k") == "use" and cfg.const_int(s["rv"]["op"]) is not None:
                    consts.append((i, cfg.const_int(s["rv"]["op"])))
        if not calls or not consts:
            continue
        for ci, t in calls:
            d = t.get("d")
            sw = None
            for j in sorted(B.reach):
                b = blocks[j]
                if b["t"]["k"] == "switch" and any(s.get("rv", {}).get("k") == "discr" and s["rv"].get("p") == d and
                                                   s.get("lhs") == cfg.op_place(b["t"]["d"]) for s in b["s"]):
                    sw = j
            if sw is None:
                continue
            n += 1
            tt = blocks[sw]["t"]
            some = [blk for v, blk in tt["t"] if int(v) == 1]
            none = [blk for v, blk in tt["t"] if int(v) == 0]
            some_side = some[0] if some else tt["o"]
            none_side = none[0] if none else tt["o"]
            r_some = B.reachable_from(some_side, avoid=(sw,))
            r_none = B.reachable_from(none_side, avoid=(sw,))
            bad = [(i, c) for i, c in consts if (c == 0 and i in r_some and i not in r_none) or (c == 1 and i in r_none and i not in r_some)]
            ctx.ob(rule, "%s:%s" % (rule, F.nice(fid)), not bad and some_side != none_side,
                   "%s (%s): %s" % (F.nice(fid), F.where(fid), "false on the error side, true on the success side of handle_err_or_init" if not bad else
                                    "the constant %s is returned on the %s side of handle_err_or_init: the C caller is told the opposite of what happened"
                                    % ("false" if bad[0][1] == 0 else "true", "success" if bad[0][1] == 0 else "error")))
    hid = "oxidd_ffi_c::util::handle_err_or_init"
    h = F.hir.get(hid)
    if ctx.anchor(rule, hid, h is not None):
        import tables
        from lib.interp import Enum, Interp, Opaque, enumerate_runs
        from tables import OK, ERR, SOME, NONE

        class Ptr:
            def __init__(self, null):
                self.null, self.written = null, []

        class D(tables.DDDomain):
            def __init__(self):
                super().__init__(F, tables.BDD)

            def const(self, it, e):
                if (e.get("n") or "").endswith("error_t::NONE"):
                    return Opaque("error_t::NONE")
                return super().const(it, e)

            def method(self, it, m_, e, env):
                name = m_.rsplit("::", 1)[-1]
                recv = it.recv(e, env)
                if isinstance(recv, Ptr):
                    if name == "is_null":
                        return recv.null
                    if name == "write":
                        recv.written.append(it.args(e, env)[0])
                        return ()
                if isinstance(recv, Enum) and name == "ok":
                    return Enum(SOME, [recv.args[0]]) if recv.path == OK else Enum(NONE)
                if isinstance(recv, Opaque) and name == "into":
                    return Opaque("raw:" + recv.what)
                return super().method(it, m_, e, env)
        fails = []
        for res, null in ((Enum(OK, [Opaque("v")]), True), (Enum(OK, [Opaque("v")]), False), (Enum(ERR, [Opaque("e")]), True), (Enum(ERR, [Opaque("e")]), False)):
            tgt = Ptr(null)
            for trace, (status, val) in enumerate_runs(lambda o: Interp(F, D(), o), lambda it: it.call_fn(hid, [res, tgt])):
                n += 1
                want = Enum(SOME, [res.args[0]]) if res.path == OK else Enum(NONE)
                if status != "ok" or val != want:
                    fails.append("%s with a %s error target yields %s %r, expected %r" % (res.path.rsplit("::", 1)[-1], "null" if null else "valid", status, val, want))
                wrote = [getattr(w, "what", w) for w in tgt.written]
                if wrote != ([] if null else ["error_t::NONE"] if res.path == OK else ["raw:e"]):
                    fails.append("%s with a %s error target writes %r" % (res.path.rsplit("::", 1)[-1], "null" if null else "valid", wrote))
        ctx.ob(rule, rule + ":handle_err_or_init", not fails, "handle_err_or_init (%s): %s" % (F.where(hid), " || ".join(fails[:2]) if fails else
               "Ok -> Some (error_t::NONE written), Err -> None (the error written), nothing written through a null target"))
    return n
