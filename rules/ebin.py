"""E-DDDMP.bincodes: writer/reader agreement of the binary node records.

In binary mode every node record is a code byte followed by up to three 7-bit-encoded numbers; the code of each field
says how the number is to be read (absolute, relative to the node id / to the child's support-variable index, "one
less", terminal).  The writer's choice and the reader's decoding are two separate pieces of code that no test of the
repository connects.  Both are interpreted from HIR over a small exhaustive domain:

  ids     `bin_idx` (closure of `export_common`) maps (child id c, node id n) to (code, payload); `import_bin::idx` maps
          (n, code, payload) back: for all 2 <= n <= 9 and 1 <= c < n the reader yields the 0-based index c - 1, and a
          terminal child yields index 0;
  vars    the writer's variable-code selection maps (support-variable index v, index m of the topmost child's variable,
          or "children are terminals") to (code, payload); the reader's two `vid` computations map it back to v, for all
          0 <= v < m <= 6 and for terminal children;
  payload the three payload numbers are written exactly for the codes AbsoluteID / RelativeID (the reader consumes one
          number exactly for these), in the order variable, then, else;
  mode    `binary_supported` is ARITY == 2 && one terminal; ASCII mode is chosen iff requested or binary is unsupported;
          `is_complemented` is `tag != default`.
"""
import tables
from lib import hirutil as H
from lib.interp import Continue, Edge, Enum, Interp, Opaque, Panic, Return, StructVal, Unrecognised, enumerate_runs
from tables import NODE_INNER, NODE_TERMINAL, OK, ERR, SOME, NONE

RULE = "E-DDDMP.bincodes"
CODE = "oxidd_dump::dddmp::Code::"
EXP = "oxidd_dump::dddmp::export::export_common"
IMP = "oxidd_dump::dddmp::import::import_bin"


class BinDomain(tables.DDDomain):
    finite_loops = True

    def __init__(self, F):
        super().__init__(F, tables.BDD)
        self.child_idx = None
        self.payloads = []
        self.written = []

    def node_of(self, edge):
        if isinstance(edge, Edge) and edge.node[0] == "T":
            return Enum(NODE_TERMINAL, [edge.node[1]])
        return Enum(NODE_INNER, [Opaque("node")])

    def const(self, it, e):
        n = e.get("n") or ""
        if n.endswith("LevelNo::MAX") or n.endswith("u32::MAX") or n.endswith("<impl u32>::MAX"):
            return 2 ** 32 - 1
        return super().const(it, e)

    def iterate(self, it, v):
        return list(v) if isinstance(v, (list, tuple)) else None

    def call(self, it, name, f, args_e, env, e):
        n = f.get("n", "")
        if n.endswith("::decode_7bit"):
            [it.ev(a, env) for a in args_e]
            if not self.payloads:
                raise Panic("the reader decodes a number the writer did not emit")
            return Enum(OK, [self.payloads.pop(0)])
        if n.endswith("::encode_7bit"):
            args = [it.ev(a, env) for a in args_e]
            self.written.append(args[1])
            return Enum(OK, [()])
        if n.endswith("::err"):
            [it.ev(a, env) for a in args_e]
            return Enum(ERR, [Opaque("io error")])
        if n.endswith("Default::default"):
            return None
        if n.endswith("cmp::min"):
            a, b = [it.ev(x, env) for x in args_e]
            return min(a, b)
        return super().call(it, name, f, args_e, env, e)

    def method(self, it, m, e, env):
        name = m.rsplit("::", 1)[-1]
        recv = it.recv(e, env)
        if name == "level" and isinstance(recv, Enum) and recv.path in (NODE_INNER, NODE_TERMINAL):
            return 3 if recv.path == NODE_INNER else 2 ** 32 - 1
        if name == "level" and isinstance(recv, Opaque):
            return 3
        if name == "get" and isinstance(recv, Opaque) and recv.what == "map":
            it.args(e, env)
            return Enum(SOME, [self.child_idx])
        if name == "checked_sub" and isinstance(recv, int):
            (b,) = it.args(e, env)
            return Enum(SOME, [recv - b]) if recv >= b else Enum(NONE)
        if name == "len" and isinstance(recv, (list, tuple)):
            return len(recv)
        if name == "get" and isinstance(recv, (list, tuple)):
            (i,) = it.args(e, env)
            return Enum(SOME, [recv[i]]) if isinstance(i, int) and 0 <= i < len(recv) else Enum(NONE)
        if name in ("with_tag", "borrowed"):
            it.args(e, env)
            return recv
        return super().method(it, m, e, env)

    def try_(self, it, v):
        if isinstance(v, Enum) and v.path == ERR:
            raise Return(v)
        return super().try_(it, v)


def code(n):
    return Enum(CODE + n)


def find_closure(F, fid, name):
    for n in H.walk(F.hir[fid]["body"]):
        if n.get("k") == "slet" and (n.get("p") or {}).get("n") == name and (n.get("e") or {}).get("k") == "closure":
            return n["e"]
    return None


def run(ctx, F, rule=RULE):
    n = 0
    if not ctx.anchor(rule, "export_common / import_bin", EXP in F.hir and IMP in F.hir):
        return 0
    # ---- ids --------------------------------------------------------------------------------------------------------------
    clo = find_closure(F, EXP, "bin_idx")
    rid = IMP + "::idx"
    if ctx.anchor(rule, "bin_idx closure and import_bin::idx", clo is not None and rid in F.hir):
        fails = []
        cases = [(nid, c) for nid in range(2, 10) for c in range(1, nid)] + [(nid, None) for nid in (2, 5)]
        for nid, c in cases:
            holder = {}

            def mk(oracle):
                holder["d"] = BinDomain(F)
                holder["d"].child_idx = c
                return Interp(F, holder["d"], oracle)

            def go(it):
                d = holder["d"]
                env = {"$consts": {}, "$fn": EXP, "$mut": {}, "manager": Opaque("manager"),
                       "node_map": [(0, Opaque("map"))] * 8}
                child = Edge(("N", "child")) if c is not None else Edge(("T", Enum("T")))
                ps = clo.get("params", [])
                if len(ps) != 2 or not it.match(ps[0], child, env) or not it.match(ps[1], nid, env):
                    raise Unrecognised("bin_idx parameters")
                try:
                    res = it.ev(clo["body"], env)
                except Return as r:
                    res = r.v
                if not (isinstance(res, tuple) and len(res) == 2):
                    raise Unrecognised("bin_idx result %r" % (res,))
                cd, payload = res
                d2 = BinDomain(F)
                wants_payload = isinstance(cd, Enum) and cd.short in ("AbsoluteID", "RelativeID")
                d2.payloads = [payload] if wants_payload else []
                it2 = Interp(F, d2, it.oracle)
                try:
                    back = it2.call_fn(rid, [Opaque("input"), nid, cd])
                except Return as r:
                    back = r.v
                return cd, payload, back, list(d2.payloads)
            for trace, (status, val) in enumerate_runs(mk, go):
                n += 1
                sit = "node %d, child %s" % (nid, "terminal" if c is None else c)
                if status != "ok":
                    fails.append("%s: %s %s" % (sit, status, val))
                    continue
                cd, payload, back, left = val
                want = 0 if c is None else c - 1
                if not (isinstance(back, Enum) and back.path == OK and back.args[0] == want) or left:
                    fails.append("%s: written as (%r, %r), read back as %r, expected index %d" % (sit, cd, payload, back, want))
        ctx.ob(rule, rule + ":ids", not fails, "binary child ids (%s / %s): %s" % (F.where(EXP), F.where(rid),
               "%d case(s) wrong; first: %s" % (len(fails), " || ".join(fails[:3])) if fails else "the reader inverts the writer's id codes"))
    # ---- payload presence and order (writer) ----------------------------------------------------------------------------------
    fails = []
    sites = []
    for x in H.walk(F.hir[EXP]["body"]):
        if x.get("k") == "if" and "e" not in x:
            enc = [y for y in H.walk(x["t"]) if y.get("k") == "call" and (y["f"].get("n") or "").endswith("encode_7bit")]
            if len(enc) == 1 and any(H.root_local(z) for z in [x["c"]]) is not None:
                c = x["c"]
                names = sorted({y.get("n") for y in H.walk(c) if y.get("k") == "path" and y.get("res") == "local"})
                variants = sorted({(y.get("n") or "").rsplit("::", 1)[-1] for y in H.walk(c)
                                   if y.get("k") == "path" and (y.get("n") or "").startswith("oxidd_dump::dddmp::Code::")})
                ops = [y.get("o") for y in H.walk(c) if y.get("k") == "bin"]
                arg = enc[0]["a"][1] if len(enc[0].get("a", [])) > 1 else None
                sites.append((x.get("ln"), names, variants, ops, H.root_local(arg) if arg else None))
    n += 1
    want_order = ["var", "t_", "e_"]
    if len(sites) != 3:
        fails.append("expected three guarded payload writes (variable, then, else), found %d" % len(sites))
    else:
        for (ln, names, variants, ops, arg), pre in zip(sorted(sites), want_order):
            if len(names) != 1 or not names[0].startswith(pre) or variants != ["AbsoluteID", "RelativeID"] or sorted(ops) != ["==", "==", "||"]:
                fails.append("line %s: the payload is written under `%s` (codes %s, operators %s), expected `<%scode> == AbsoluteID || .. == "
                             "RelativeID`" % (ln, names, variants, ops, pre))
            elif not (arg or "").startswith(pre):
                fails.append("line %s: under the %s code the number written is `%s`" % (ln, pre, arg))
    ctx.ob(rule, rule + ":payload", not fails, "binary payloads (%s): %s" % (F.where(EXP), " || ".join(fails[:3]) if fails else
           "variable / then / else numbers are written exactly for AbsoluteID / RelativeID, in that order"))
    # ---- mode selection, complement flag --------------------------------------------------------------------------------------
    fails = []
    n += 1
    bs = [f for f in F.hir if f.startswith("oxidd_dump::dddmp::export::") and f.endswith("::binary_supported")]
    if len(bs) != 1:
        fails.append("binary_supported not found")
    else:
        b = F.hir[bs[0]]["body"]
        while b.get("k") == "block" and not b.get("s") and "e" in b:
            b = b["e"]
        ok = b.get("k") == "bin" and b.get("o") == "&&" and all(y.get("k") == "bin" and y.get("o") == "==" for y in (b["l"], b["r"])) \
            and {str(y.get("v")) for y in H.walk(b) if y.get("k") == "lit"} == {"2", "1"}
        if not ok:
            fails.append("binary_supported is not `ARITY == 2 && num_terminals() == 1`")
    asc = None
    for x in H.walk(F.hir[EXP]["body"]):
        if x.get("k") == "slet" and (x.get("p") or {}).get("n") == "ascii":
            asc = x.get("e")
    ok = isinstance(asc, dict) and asc.get("k") == "bin" and asc.get("o") == "||" and asc["l"].get("k") == "field" and asc["l"].get("n") == "ascii" \
        and asc["r"].get("k") == "un" and asc["r"].get("o") == "!" and (asc["r"]["e"].get("f") or {}).get("n", "").endswith("binary_supported")
    if not ok:
        fails.append("ASCII mode is not selected by `settings.ascii || !binary_supported(manager)`")
    ic = "oxidd_dump::dddmp::export::is_complemented"
    b = (F.hir.get(ic) or {}).get("body") or {}
    while b.get("k") == "block" and not b.get("s") and "e" in b:
        b = b["e"]
    if not (b.get("k") == "bin" and b.get("o") == "!=" and b["l"].get("k") == "mcall" and b["l"].get("name") == "tag"):
        fails.append("is_complemented is not `edge.tag() != Default::default()`")
    ctx.ob(rule, rule + ":mode", not fails, "mode selection / complement flag of the exporter: %s" % (" || ".join(fails) if fails else
           "binary only for binary single-terminal diagrams unless ASCII is requested; complement = non-default tag"))
    return n


def _block_with(F, fid, name):
    """the block whose statements contain `let [mut] <name> = ..` (first occurrence) -> (block, index)"""
    for x in H.walk(F.hir[fid]["body"]):
        if x.get("k") == "block":
            for i, st in enumerate(x.get("s", [])):
                if st.get("k") == "slet" and (st.get("p") or {}).get("k") == "bind" and st["p"].get("n") == name:
                    return x, i
    return None, None


def check_var_codes(ctx, F, rule=RULE + ".vars"):
    """writer's variable-code selection vs. the reader's `vid` computations (see module doc)"""
    wb, wi = _block_with(F, EXP, "var_code")
    rb, ri = _block_with(F, IMP, "vid")
    if not ctx.anchor(rule, "variable-code fragments of export_common / import_bin", wb is not None and rb is not None):
        return 0
    # writer statements: from `let mut var_code` up to the statement that binds (t_code, t_idx)
    wstmts = []
    for st in wb["s"][wi:]:
        if st.get("k") == "slet" and (st.get("p") or {}).get("k") == "tup":
            break
        wstmts.append(st)
    # reader statements: the two `let vid = match var_code ..`
    rstmts = [st for st in rb["s"] if st.get("k") == "slet" and (st.get("p") or {}).get("n") == "vid"]
    if not ctx.anchor(rule, "two `vid` computations in import_bin", len(rstmts) == 2 and len(wstmts) >= 3):
        return 0
    MAXL = 2 ** 32 - 1
    L = 4
    fails = []
    n = 0
    cases = [(v, m) for v in range(0, 6) for m in range(v + 1, 7)] + [(v, None) for v in (0, 3)]
    for v, m in cases:
        holder = {}

        def mk(oracle):
            holder["d"] = BinDomain(F)
            return Interp(F, holder["d"], oracle)

        def go(it):
            lvl = L if m is not None else MAXL
            node_map = [(99, Opaque("map"))] * 8
            if m is not None:
                node_map[L] = (m, Opaque("map"))
            env = {"$consts": {}, "$fn": EXP, "$mut": {}, "manager": Opaque("manager"), "node_map": node_map,
                   "var_idx": v, "t_lvl": lvl, "e_lvl": MAXL if m is None else L + 1, "node_id": 5}
            it.ev({"k": "block", "s": wstmts}, env)
            mut = env["$mut"]
            # `let mut var_code / var_idx` are bound inside the block: read them back through a trailing expression
            res = it.ev({"k": "block", "s": wstmts, "e": {"k": "tup", "a": [
                {"k": "path", "res": "local", "n": "var_code"}, {"k": "path", "res": "local", "n": "var_idx"}]}},
                {**env, "$mut": {}})
            cd, payload = res
            d2 = BinDomain(F)
            d2.payloads = [payload] if isinstance(cd, Enum) and cd.short in ("AbsoluteID", "RelativeID") else []
            it2 = Interp(F, d2, it.oracle)
            lsm = [50] * 8
            if m is not None:
                lsm[L] = m
            renv = {"$consts": {}, "$fn": IMP, "$mut": {}, "input": Opaque("input"), "var_code": cd, "nodes": [], "manager": Opaque("manager"),
                    "t_level": lvl, "e_level": MAXL if m is None else L + 1, "level_suppvar_map": lsm, "suppvar_level_map": list(range(8)),
                    "terminal": Edge(("T", Enum("T")))}
            try:
                out = it2.ev({"k": "block", "s": rstmts, "e": {"k": "path", "res": "local", "n": "vid"}}, renv)
            except Return as r:
                out = r.v
            except Continue:
                out = "continue (treated as a terminal record)"
            return cd, payload, out, list(d2.payloads)
        for trace, (status, val) in enumerate_runs(mk, go):
            n += 1
            sit = "support variable %d, %s" % (v, "children are terminals" if m is None else "topmost child variable %d" % m)
            if status != "ok":
                fails.append("%s: %s %s" % (sit, status, val))
                continue
            cd, payload, out, left = val
            if out != v or left:
                fails.append("%s: written as (%r, %r), read back as %r" % (sit, cd, payload, out))
    ctx.ob(rule, rule, not fails, "binary variable codes (%s / %s): %s" % (F.where(EXP), F.where(IMP),
           "%d case(s) wrong; first: %s" % (len(fails), " || ".join(fails[:3])) if fails else "the reader inverts the writer's variable codes"))
    return n


def check_ascii_writer(ctx, F, rule="E-DDDMP.ascii"):
    """Structure of the ASCII part of the exporter that the reader depends on:
      ranges    every loop over the manager's variables / levels in `export_common` ranges over `0..nvars` (a loop that starts
                at 1 drops variable 0 from `.ids`, `.permids` and the name lists);
      terminal  a terminal's node line ends in ` 0 0` (the reader recognises terminals by a 0 among the children);
      start     the node counter starts at 0 and the per-level placeholders at 0 (ids are assigned by pre-increment);
      rootids   a complemented root is written as the negated id (the reader complements negative ids)."""
    if not ctx.anchor(rule, EXP, EXP in F.hir):
        return 0
    body = F.hir[EXP]["body"]
    fails = []
    n = 0
    # ranges
    rng = [x for x in H.walk(body) if x.get("k") == "struct" and (x["p"].get("n") or "").endswith("ops::Range")]
    bad = []
    cnt = 0
    for r in rng:
        f = dict(r["f"])
        end = f.get("end") or {}
        if end.get("k") == "path" and end.get("n") == "nvars":
            cnt += 1
            st = f.get("start") or {}
            if not (st.get("k") == "lit" and str(st.get("v")) == "0"):
                bad.append(r.get("ln"))
    n += 1
    if bad or cnt < 5:
        fails.append("ranges over the variables: %d found, %s" % (cnt, "line(s) %s do not start at 0" % bad if bad else "expected >= 5"))
    # terminal line
    tmpls = []
    for x in H.walk(body):
        if x.get("k") == "mcall" and x.get("name") == "write_fmt":
            t = "".join(str(y.get("v") or "") for y in H.walk(x["a"][0]) if y.get("k") == "lit" and y.get("t") in ("str", "bstr"))
            tmpls.append(t)
    n += 1
    if not any(" 0 0\n" in t for t in tmpls):
        fails.append("no node line template ending in ` 0 0` (terminal records)")
    # counter start
    n += 1
    starts = {}
    for x in H.walk(body):
        if x.get("k") == "slet" and (x.get("p") or {}).get("n") in ("nnodes",) and (x.get("e") or {}).get("k") == "lit":
            starts[x["p"]["n"]] = str(x["e"].get("v"))
    if starts.get("nnodes") != "0":
        fails.append("the node counter starts at %s, expected 0" % starts.get("nnodes"))
    # root ids: closure `idx` negates for complemented edges
    clo = find_closure(F, EXP, "idx")
    n += 1
    ok = False
    if clo is not None:
        for x in H.walk(clo["body"]):
            if x.get("k") == "if" and (x["c"].get("f") or {}).get("n", "").endswith("is_complemented") and "e" in x:
                t, e2 = x["t"], x["e"]
                neg = any(y.get("k") == "un" and y.get("o") == "-" for y in H.walk(t))
                pos = not any(y.get("k") == "un" and y.get("o") == "-" for y in H.walk(e2))
                ok = neg and pos
    if not ok:
        fails.append("the ASCII edge index is not `if is_complemented(e) { -idx } else { idx }`")
    ctx.ob(rule, rule, not fails, "ASCII part of export_common (%s): %s" % (F.where(EXP), " || ".join(fails) if fails else
           "variable loops from 0, terminal lines ` 0 0`, counter from 0, complemented edges negated"))
    return n


def check_reader_structure(ctx, F, rule="E-DDDMP.reader"):
    """Reader-side counterparts that keep *valid* files accepted and read correctly:
      lengths   every comparison of a header list's length with a header count (`DumpHeader::load`) is `!=` / `>` and
                leads to the error on its `true` edge -- equal lengths pass (an `==` rejects every well-formed file);
      roots     a root id r is the node r.unsigned_abs() - 1, complemented exactly for r < 0 (`if root > 0 { e } else {
                complement(e) }`, the writer negates complemented roots);
      end       the error for a missing `.end` is raised on the `!reads_expected(..)` edge."""
    n = 0
    fails = []
    load = [f for f in F.hir if f.startswith("oxidd_dump::dddmp::import::") and f.endswith("::load")]
    if not ctx.anchor(rule, "DumpHeader::load", len(load) >= 1):
        return 0
    lens = 0
    for fid in load:
        for x in H.walk(F.hir[fid]["body"]):
            if x.get("k") == "bin" and x.get("o") in ("==", "!=", "<", "<=", ">", ">="):
                def is_len(y):
                    while isinstance(y, dict) and y.get("k") in ("cast", "use", "ref"):
                        y = y["e"]
                    return isinstance(y, dict) and y.get("k") == "mcall" and y.get("name") == "len"
                if is_len(x["l"]) or is_len(x["r"]):
                    lens += 1
                    if x["o"] not in ("!=", ">", "<"):
                        fails.append("line %s: a header list length is compared with `%s` (expected `!=`): lists of the right length "
                                     "are rejected" % (x.get("ln"), x["o"]))
    n += 1
    if lens < 6:
        fails.append("only %d length validations found in DumpHeader::load (expected >= 6)" % lens)
    # roots
    imp = "oxidd_dump::dddmp::import::import"
    ok_root = ok_end = False
    if imp in F.hir:
        for x in H.walk(F.hir[imp]["body"]):
            if x.get("k") == "if" and "e" in x and x["c"].get("k") == "bin" and H.root_local(x["c"]["l"]) == "root":
                c = x["c"]
                pos_plain = c["o"] == ">" and c["r"].get("k") == "lit" and str(c["r"].get("v")) == "0"
                then_plain = not any((y.get("f") or {}).get("n") == "complement" or (y.get("k") == "call" and y["f"].get("res") == "local" and y["f"].get("n") == "complement")
                                     for y in H.walk(x["t"]))
                else_compl = any(y.get("k") == "call" and y["f"].get("res") == "local" and y["f"].get("n") == "complement" for y in H.walk(x["e"]))
                ok_root = pos_plain and then_plain and else_compl
            if x.get("k") == "if" and "e" not in x and x["c"].get("k") == "un" and x["c"].get("o") == "!":
                inner = x["c"]["e"]
                if any((y.get("f") or {}).get("n", "").endswith("reads_expected") for y in H.walk(inner) if y.get("k") == "call"):
                    ok_end = any(y.get("k") == "ret" for y in H.walk(x["t"]))
    n += 2
    if not ok_root:
        fails.append("a root is not read as `if root > 0 { node } else { complement(node) }`")
    if not ok_end:
        fails.append("the `.end` check is not `if !reads_expected(..) { return err(..) }`")
    ctx.ob(rule, rule, not fails, "DDDMP reader structure: %s" % (" || ".join(fails[:3]) if fails else
           "%d length validations use `!=`, roots complemented for negative ids, `.end` required" % lens))
    return n


def _is_err_branch(x):
    """the `then` branch of `x` returns the importer's error"""
    return any(y.get("k") == "ret" and any((z.get("f") or {}).get("n", "").endswith("import::err") for z in H.walk(y) if z.get("k") == "call")
               for y in H.walk(x.get("t") or {}))


def _for_var(m):
    """bound names of a desugared for loop `match into_iter(..) { mut iter => loop { match next() { Some(pat) => .. } } }`"""
    try:
        m2 = m["arms"][0]["b"]["b"]["s"][0]["e"]
        some = [a for a in m2["arms"] if (a["p"].get("p") or {}).get("n", "").endswith("Some")][0]
        return {y["n"]: y.get("lid") for y in H.walk(some["p"]) if y.get("k") == "bind"}, some["b"]
    except (KeyError, IndexError, TypeError):
        return {}, None


def check_node_records(ctx, F, rule="E-DDDMP.noderec"):
    """Per-node validation of the two node readers (none of it is reached by the repository's tests):
      arity     `import_ascii` rejects a line exactly when `children.len() != ARITY` (error on the `!=` edge); `import_bin`
                asserts `ARITY == 2` at compile time;
      terminal  `import_ascii` recognises a terminal by `children.contains(&0)` (the writer ends terminal lines in ` 0 0`,
                E-DDDMP.ascii): the `true` branch parses the terminal, the `false` branch reduces an inner node;
      earlier   a child id is compared with the id of the node being read (the counter of the `1..=nnodes` loop) before
                `nodes[child - 1]` is read, and the error is raised exactly for `child >= node_id` (at that point `nodes`
                holds node_id - 1 entries);
      binids    `import_bin::idx`, interpreted: an absolute id of 0, of node_id or beyond, a relative offset of 0 or beyond
                node_id yield Err (the writer never produces these, so the inversion check above cannot see them)."""
    n = 0
    fails = []
    ia = "oxidd_dump::dddmp::import::import_ascii"
    ib = "oxidd_dump::dddmp::import::import_bin"
    if not ctx.anchor(rule, "import_ascii / import_bin", ia in F.hir and ib in F.hir):
        return 0
    body = F.hir[ia]["body"]
    # the node loop and its counter
    loops = []
    for x in H.walk(body):
        if x.get("k") == "match" and (x.get("src") or "").startswith("ForLoopDesugar"):
            src = x["e"]["a"][0] if x["e"].get("k") == "call" and x["e"].get("a") else x["e"]
            if any(y.get("k") == "field" and y.get("n") == "nnodes" for y in H.walk(src)):
                loops.append(x)
    if not ctx.anchor(rule, "import_ascii: the loop over 1..=header.nnodes", len(loops) == 1):
        return 0
    rng = loops[0]["e"]["a"][0]
    starts_at_one = any(y.get("k") == "lit" and str(y.get("v")) == "1" for y in H.walk(rng)) and \
        any((y.get("p") or {}).get("n", "").endswith("RangeInclusive") or (y.get("f") or {}).get("n", "").endswith("RangeInclusive::<Idx>::new")
            for y in H.walk(rng) if y.get("k") in ("struct", "call"))
    n += 1
    if not starts_at_one:
        fails.append("the node loop does not range over 1..=header.nnodes (node ids are 1-based)")
    names, lbody = _for_var(loops[0])
    ctr = next(iter(names), None)
    # arity
    n += 1
    ar = [x for x in H.walk(body) if x.get("k") == "if" and x["c"].get("k") == "bin" and
          any(y.get("k") == "path" and y.get("item") == "ARITY" for y in H.walk(x["c"])) and
          any(y.get("k") == "mcall" and y.get("name") == "len" for y in H.walk(x["c"]))]
    if len(ar) != 1 or ar[0]["c"]["o"] != "!=" or not _is_err_branch(ar[0]):
        fails.append("import_ascii does not reject a node line exactly when `children.len() != ARITY`")
    cb = [x for x in H.walk(F.hir[ib]["body"]) if x.get("k") == "constblock"]
    asserts = [y for x in cb for y in H.walk(x) if y.get("k") == "bin" and any(z.get("item") == "ARITY" for z in H.walk(y))]
    n += 1
    if not (len(asserts) == 1 and asserts[0]["o"] == "==" and {str(z.get("v")) for z in H.walk(asserts[0]) if z.get("k") == "lit"} == {"2"}):
        fails.append("import_bin does not assert `ARITY == 2` at compile time")
    # terminal
    n += 1
    tm = [x for x in H.walk(body) if x.get("k") == "if" and "e" in x and x["c"].get("k") == "mcall" and x["c"].get("name") == "contains"]
    ok = False
    if len(tm) == 1:
        arg = tm[0]["c"]["a"][0]
        while arg.get("k") in ("ref", "use"):
            arg = arg["e"]
        then_term = any(y.get("k") == "mcall" and y.get("name") == "get_terminal" for y in H.walk(tm[0]["t"]))
        else_inner = any((y.get("k") in ("call", "mcall")) and ((y.get("f") or {}).get("item") == "reduce" or y.get("name") == "reduce"
                                                                or (y.get("f") or {}).get("n", "").endswith("::reduce")) for y in H.walk(tm[0]["e"]))
        ok = arg.get("k") == "lit" and str(arg.get("v")) == "0" and then_term and else_inner and H.root_local(tm[0]["c"]["r"]) is not None
    if not ok:
        fails.append("import_ascii does not recognise terminals by `children.contains(&0)` (true: terminal, false: inner node)")
    # earlier
    n += 1
    cmps = []
    if ctr is not None and lbody is not None:
        for x in H.walk(lbody):
            if x.get("k") == "if" and x["c"].get("k") == "bin" and x["c"]["o"] in ("<", "<=", ">", ">="):
                l, r = x["c"]["l"], x["c"]["r"]
                sides = [(s.get("k") == "path" and s.get("res") == "local" and s.get("n") == ctr and s.get("lid") == names[ctr]) for s in (l, r)]
                if any(sides):
                    op = x["c"]["o"] if sides[1] else {"<": ">", "<=": ">=", ">": "<", ">=": "<="}[x["c"]["o"]]
                    cmps.append((x, op, (l if sides[1] else r)))
    idx_lines = [y.get("ln") for y in H.walk(lbody or {}) if y.get("k") == "index" and H.root_local(y["e"]) == "nodes"]
    if len(cmps) != 1:
        fails.append("import_ascii: expected one range check of a child id against the id of the node being read, found %d" % len(cmps))
    else:
        x, op, other = cmps[0]
        if op != ">=" or not _is_err_branch(x):
            fails.append("import_ascii (line %s): the child-id check is `child %s node_id` -> error, expected `child >= node_id`: `nodes` "
                         "holds node_id - 1 entries when `nodes[child - 1]` is read" % (x.get("ln"), op))
        if not idx_lines or min(idx_lines) <= (x.get("ln") or 0):
            fails.append("import_ascii: `nodes[..]` is read (line %s) before the child id was checked (line %s)" % (min(idx_lines or [0]), x.get("ln")))
    ctx.ob(rule, rule + ":ascii", not fails, "node records of the ASCII reader (%s): %s" % (F.where(ia), " || ".join(fails[:3]) if fails else
           "arity, terminal recognition and child-id range checks as the format demands"))
    # binids: reject cases of import_bin::idx
    fails = []
    rid = ib + "::idx"
    if ctx.anchor(rule, "import_bin::idx", rid in F.hir):
        cases = []
        for nid in (1, 2, 5):
            cases += [(nid, "AbsoluteID", 0), (nid, "AbsoluteID", nid), (nid, "AbsoluteID", nid + 1),
                      (nid, "RelativeID", 0), (nid, "RelativeID", nid), (nid, "RelativeID", nid + 3)]
        cases += [(1, "Relative1", None), (1, "Terminal", None)]
        for nid, cd, payload in cases:
            holder = {}

            def mk(oracle):
                d = BinDomain(F)
                d.payloads = [payload] if payload is not None else []
                holder["d"] = d
                return Interp(F, d, oracle)
            for trace, (status, val) in enumerate_runs(mk, lambda it: it.call_fn(rid, [Opaque("input"), nid, code(cd)])):
                n += 1
                sit = "node %d, code %s%s" % (nid, cd, "" if payload is None else ", number %d" % payload)
                if status == "panic" and "debug" not in str(val):
                    fails.append("%s: the reader panics (%s)" % (sit, val))
                elif status != "ok":
                    fails.append("%s: %s %s" % (sit, status, val))
                elif not (isinstance(val, Enum) and val.path == ERR):
                    fails.append("%s: accepted as %r although the id is not an earlier node" % (sit, val))
    ctx.ob(rule, rule + ":binids", not fails, "out-of-range child ids of the binary reader (%s): %s" % (F.where(rid) if rid in F.hir else ib,
           " || ".join(fails[:3]) if fails else "rejected with an error"))
    return n
