"""E-TABLE.shortcut: the terminal / shortcut prefix of the recursive algorithms.

apply_ite (BDD, BCDD, TDD-style kinds) and the ZBDD set operations begin with a block of shortcuts (equal
operands, constant operands, delegation to a binary operator) before they look into the apply cache and
recurse.  That prefix is interpreted from HIR for all operand tuples over {constants of the kind, opaque
functions x, y, z}; interpretation stops (no verdict) at the cache lookup.  A shortcut that returns must return
a term that denotes the operation of the function's name (delegations `apply_bin::<OP>` count as OP)."""
import itertools

import ewrap
import tables
from ewrap import WrapDomain, fedge, term_of, ev_term, same, show, ALG_BOOL, W
from lib.interp import Beyond, Edge, Enum, Interp, Opaque, Panic, Return, Unrecognised, enumerate_runs
from tables import OK, NODE_INNER, NODE_TERMINAL


class ShortcutDomain(WrapDomain):
    def __init__(self, F, alg, mod, op_enum, terminal_enum, consts):
        super().__init__(F, alg, mod, op_enum)
        self.terminal_enum = terminal_enum
        self.const_names = consts        # value -> variant name, e.g. {0: "False", 1: "True"}

    def node_of(self, edge):
        t = term_of(edge)
        if t[0] == "const":
            return Enum(NODE_TERMINAL, [Enum("%s::%s" % (self.terminal_enum, self.const_names[t[1]]))])
        if t[0] == "atom" and t[1] in self.const_names.values():
            return Enum(NODE_TERMINAL, [Enum("%s::%s" % (self.terminal_enum, t[1]))])
        return Enum(NODE_INNER, [Opaque("node of " + show(t))])

    def terminal_edge(self, tv):
        for v, nm in self.const_names.items():
            if isinstance(tv, Enum) and tv.short == nm:
                return fedge(("const", v)) if isinstance(v, int) else fedge(("atom", nm))
        raise Unrecognised("terminal %r" % (tv,))

    def compare(self, it, a, b):
        if isinstance(a, Edge) and isinstance(b, Edge):
            if a == b:
                return 0
            c = it.fork(("ord", repr(a), repr(b)) if repr(a) < repr(b) else ("ord", repr(b), repr(a)), 2, "order")
            lo_first = repr(a) < repr(b)
            return -1 if (c == 0) == lo_first else 1
        return super().compare(it, a, b)

    def method(self, it, m, e, env):
        if m.endswith("::should_switch_to_sequential"):
            it.recv(e, env)
            return False
        if m.endswith("HasApplyCache::apply_cache") or m.endswith("::apply_cache"):
            raise Beyond("apply cache lookup")
        if m == "oxidd_core::Manager::get_node":
            it.recv(e, env)
            (x,) = it.args(e, env)
            return self.node_of(x)
        if m == "oxidd_core::Manager::get_terminal":
            it.recv(e, env)
            (tv,) = it.args(e, env)
            return Enum(OK, [self.terminal_edge(tv)])
        if m.endswith("::level") and "Node" in m:
            raise Beyond("level comparison")
        if m == "oxidd_core::HasLevel::level":
            raise Beyond("level comparison")
        return super().method(it, m, e, env)

    def call(self, it, name, f, args_e, env, e):
        did = f.get("did", "")
        if did == env.get("$fn") and it.depth >= 1:
            # `return f(manager, SequentialRecursor, ..)` under should_switch_to_sequential: unreachable here
            raise Beyond("self call")
        return super().call(it, name, f, args_e, env, e)


def check_fn(ctx, F, rule, fid, atoms, consts_edges, mk_domain, spec, alg, label):
    """atoms/consts_edges: operand universe (list of (name, Edge)); spec(terms) -> expected term"""
    if not ctx.anchor(rule, fid, fid in F.hir):
        return 0
    h = F.hir[fid]
    nparams = len(h["params"])
    r = F.fns.get(fid, {})
    pn = [p.get("n") for p in h["params"]]
    has_rec = len(pn) > 1 and pn[1] == "rec"
    U = consts_edges + atoms
    arity = nparams - 1 - (1 if has_rec else 0)
    n = 0
    fails = []
    decided = 0
    for combo in itertools.product(U, repeat=arity):
        args = [Opaque("manager")] + ([Opaque("rec")] if has_rec else []) + [e for _, e in combo]

        def mk(oracle):
            return Interp(F, mk_domain(), oracle, max_depth=4)
        for trace, (status, val) in enumerate_runs(mk, lambda it: it.call_fn(fid, args)):
            n += 1
            sit = "%s(%s)" % (label, ", ".join(nm for nm, _ in combo))
            key = "%s:%s:%s" % (rule, label, ",".join(nm for nm, _ in combo))
            if status == "beyond":
                ctx.ob(rule + ".case", key, True, "%s: no shortcut (recursion)" % sit, nontrivial=False, report=False)
                continue
            if status != "ok":
                fails.append("%s: %s %s" % (sit, status, val))
                ctx.ob(rule + ".case", key, False, "", report=False)
                continue
            if isinstance(val, Enum) and val.path == OK:
                val = val.args[0]
            try:
                got = term_of(val)
                want = spec([term_of(e) for _, e in combo])
                names = sorted({nm for nm, e in U if term_of(e)[0] == "atom"})
                bad = None
                for vals in itertools.product(list(itertools.product(alg.values, repeat=W)), repeat=len(names)):
                    valn = dict(zip(names, vals))
                    if not same(ev_term(alg, got, valn), ev_term(alg, want, valn)):
                        bad = valn
                        break
            except Unrecognised as u:
                fails.append("%s: UNRECOGNISED-SHAPE %s" % (sit, u))
                continue
            decided += 1
            ctx.ob(rule + ".case", key, bad is None, "%s -> %s" % (sit, show(got)), report=False)
            if bad is not None:
                fails.append("%s returns %s, expected %s (differs for %s)" % (sit, show(got), show(want), bad))
    nice = F.nice(fid)
    ctx.ob(rule, "%s:%s" % (rule, nice), not fails and decided > 0,
           ("%s (%s): %d shortcut situation(s) wrong; first: %s" % (nice, F.where(fid), len(fails), " || ".join(fails[:3])))
           if fails else ("%s: %d shortcut situations agree with the specification" % (nice, decided) if decided else
                          "%s: no shortcut situation was decided (shape not recognised?)" % nice))
    return n


def ite_spec(ts):
    return ("ite", ts[0], ts[1], ts[2])


def run(ctx, F, rule="E-TABLE.shortcut", kinds=("bdd", "tdd", "zbdd")):
    n = 0

    def check(ctx, F, rule, fid, atoms, consts, mk, spec, alg, label):
        if label.split()[0] not in kinds:
            return 0
        return check_fn(ctx, F, rule, fid, atoms, consts, mk, spec, alg, label)
    X = [("x", fedge(("atom", "x"))), ("y", fedge(("atom", "y"))), ("z", fedge(("atom", "z")))]
    # BDD apply_ite
    C = [("F", fedge(("const", 0))), ("T", fedge(("const", 1)))]
    mod = "oxidd_rules_bdd::simple::apply_rec"
    n += check(ctx, F, rule, mod + "::apply_ite", X, C,
               lambda: ShortcutDomain(F, ALG_BOOL, mod, "oxidd_rules_bdd::simple::BDDOp", "oxidd_rules_bdd::simple::BDDTerminal",
                                      {0: "False", 1: "True"}), ite_spec, ALG_BOOL, "bdd apply_ite")
    # TDD apply_ite_rec: decision list of property C11, pointwise
    from ewrap import ALG_TVL, ALG_NUM
    mod = "oxidd_rules_tdd::apply_rec"
    TC = [("F", fedge(("const", 0))), ("U", fedge(("const", 1))), ("T", fedge(("const", 2)))]
    n += check(ctx, F, rule, mod + "::apply_ite_rec", X, TC,
               lambda: ShortcutDomain(F, ALG_TVL, mod, "oxidd_rules_tdd::TDDOp", "oxidd_rules_tdd::TDDTerminal",
                                      {0: "False", 1: "Unknown", 2: "True"}), ite_spec, ALG_TVL, "tdd apply_ite_rec")
    # ZBDD set operations: Empty = constant 0 of the membership view, Base is an opaque family
    mod = "oxidd_rules_zbdd::apply_rec"
    ZC = [("Empty", fedge(("const", 0))), ("Base", fedge(("atom", "Base")))]
    ZX = X[:2]

    def zd():
        return ShortcutDomain(F, ALG_BOOL, mod, "oxidd_rules_zbdd::ZBDDOp", "oxidd_rules_zbdd::ZBDDTerminal",
                              {0: "Empty", "b": "Base"})
    for fn, sp in (("apply_union", lambda t: ("bin", "Or", t[0], t[1])),
                   ("apply_intsec", lambda t: ("bin", "And", t[0], t[1])),
                   ("apply_diff", lambda t: ("bin", "ImpStrict", t[1], t[0])),
                   ("apply_symm_diff", lambda t: ("bin", "Xor", t[0], t[1]))):
        n += check(ctx, F, rule, mod + "::" + fn, ZX, ZC, zd, sp, ALG_BOOL, "zbdd " + fn)
    return n
