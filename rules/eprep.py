"""E-TABLE.prep: `substitute_prepare` builds the per-level replacement table that E-TABLE.step assumes.

The recursive step of `substitute` (E-TABLE.step) reads `subst[level]` as "the function that replaces the variable at
`level`".  `substitute_prepare` (BDD and BCDD) builds that table in two loops, each interpreted for one iteration:

  fill      for a pair (v, r) and a table of every relevant length (shorter than, equal to, longer than the level of v):
            afterwards the table is at least level+1 long, entry `var_to_level(v)` is Some(r), every other old entry is
            unchanged and every new entry is None;
  complete  for (level, Some(e)) the result gets a clone of e; for (level, None) it gets the variable's own function, a
            node created at `level` (view level = node level) with children (true, false) -- for BCDDs (T, !T) --;
            the loop enumerates the table in order (`into_iter().enumerate()`), so position = level.
"""
import ereduce
import tables
from lib.interp import Continue, Edge, Enum, Interp, Opaque, Unrecognised, enumerate_runs
from tables import OK, SOME, NONE

RULE = "E-TABLE.prep"
ETAG = "oxidd_rules_bdd::complement_edge::EdgeTag::"
LEVEL = 2


class PrepDomain(ereduce.ReduceDomain):
    def __init__(self, F, kind, crate):
        super().__init__(F, kind)
        self.crate = crate

    def default_tag(self):
        return Enum(ETAG + "None") if self.kind is ereduce.BCDD_KIND else None

    def terminal_edge(self, tv):
        return Edge(("T", tv), self.default_tag())

    def call(self, it, name, f, args_e, env, e):
        did = f.get("did", "")
        if did in self.F.hir and did.startswith(self.crate + "::"):
            return it.call_fn(did, [it.ev(a, env) for a in args_e])
        return super().call(it, name, f, args_e, env, e)

    def call_value(self, it, fv, args):
        if isinstance(fv, tuple) and fv and fv[0] == "closure":
            _, ce, cenv = fv
            env = dict(cenv)
            for p, a in zip(ce.get("params", []), args):
                it.match(p, a, env)
            return it.ev(ce["body"], env)
        return super().call_value(it, fv, args)

    def index_assign(self, it, c, i, v):
        if isinstance(c, list) and isinstance(i, int) and not isinstance(i, bool):
            if not 0 <= i < len(c):
                from lib.interp import Panic
                raise Panic("index %d out of bounds (len %d)" % (i, len(c)))
            c[i] = v
            return True
        return None

    def method(self, it, m, e, env):
        name = m.rsplit("::", 1)[-1]
        if m == "oxidd_core::Manager::var_to_level":
            it.recv(e, env)
            it.args(e, env)
            return LEVEL
        if name in ("len", "push", "resize_with", "is_none", "is_some"):
            r = it.recv(e, env)
            if isinstance(r, list):
                if name == "len":
                    return len(r)
                if name == "push":
                    (x,) = it.args(e, env)
                    r.append(x)
                    return ()
                if name == "resize_with":
                    nlen, clo = it.args(e, env)
                    if not isinstance(nlen, int):
                        raise Unrecognised("resize_with(%r)" % (nlen,))
                    del r[nlen:]
                    while len(r) < nlen:
                        r.append(self.call_value(it, clo, []))
                    return ()
            if isinstance(r, Enum) and name in ("is_none", "is_some"):
                return (r.path == NONE) == (name == "is_none")
        if m == "oxidd_core::LevelView::get_or_insert":
            r = it.recv(e, env)
            (node,) = it.args(e, env)
            return Enum(OK, [self.insert(r, node)])
        return super().method(it, m, e, env)


def for_loops(body):
    return [s["e"] for s in body.get("s", []) if s["k"] in ("expr", "semi") and s["e"].get("k") == "match"
            and s["e"].get("src", "").startswith("ForLoopDesugar")]


def loop_parts(loop):
    m2 = loop["arms"][0]["b"]["b"]["s"][0]["e"]
    some = [a for a in m2["arms"] if (a["p"].get("p") or {}).get("n", "").endswith("Some")][0]
    it_expr = loop["e"]["a"][0]
    while it_expr.get("k") in ("use",):
        it_expr = it_expr["e"]
    return it_expr, some["p"]["f"][0][1], some["b"]


def run(ctx, F, rule=RULE):
    n = 0
    bt = "oxidd_rules_bdd::simple::BDDTerminal::"
    bc = Enum("oxidd_rules_bdd::complement_edge::BCDDTerminal")
    none, comp = Enum(ETAG + "None"), Enum(ETAG + "Complemented")
    specs = [("bdd", "oxidd_rules_bdd::simple::apply_rec::substitute_prepare", tables.BDD,
              (Edge(("T", Enum(bt + "True"))), Edge(("T", Enum(bt + "False")))), None),
             ("bcdd", "oxidd_rules_bdd::complement_edge::apply_rec::substitute_prepare", ereduce.BCDD_KIND,
              (Edge(("T", bc), none), Edge(("T", bc), comp)), none)]
    for kname, fid, kind, var_children, tag0 in specs:
        if not ctx.anchor(rule, fid, fid in F.hir):
            continue
        body = F.hir[fid]["body"]
        loops = for_loops(body)
        lets = [s["p"]["n"] for s in body.get("s", []) if s["k"] == "slet" and s["p"].get("k") == "bind"]
        fails = []
        if len(loops) != 2 or len(lets) < 2:
            ctx.ob(rule, "%s:%s" % (rule, kname), False, "%s (%s): expected the fill loop and the completion loop" % (fid, F.where(fid)))
            continue
        tname, rname = lets[0], lets[1]

        def mk(oracle, kind=kind):
            return Interp(F, PrepDomain(F, kind, "oxidd_rules_bdd"), oracle)
        # ---- fill -----------------------------------------------------------------------------------------------------
        it_expr, pat, arm = loop_parts(loops[0])
        r = Edge(("N", "r"), tag0)
        other = Enum(SOME, [Edge(("N", "o"), tag0)])
        for old in ([], [other], [other, Enum(NONE)], [other, Enum(NONE), Enum(NONE)], [other, Enum(NONE), Enum(NONE), other]):
            table = list(old)

            def go(it):
                env = {"$consts": {}, "$fn": fid, "manager": Opaque("manager"), tname: table, "$mut": {}}
                if not it.match(pat, (("var",), r), env):
                    raise Unrecognised("loop pattern")
                try:
                    it.ev(arm, env)
                except Continue:
                    pass
            for trace, (status, val) in enumerate_runs(mk, go):
                n += 1
                sit = "fill with a table of length %d" % len(old)
                if status != "ok":
                    fails.append("%s: %s %s" % (sit, status, val))
                    continue
                want = list(old) + [Enum(NONE)] * max(0, LEVEL + 1 - len(old))
                want[LEVEL] = Enum(SOME, [r])
                if table != want:
                    fails.append("%s: table becomes %r, expected %r (entry var_to_level(v) = Some(r), the rest untouched / None)"
                                 % (sit, table, want))
        # ---- complete -------------------------------------------------------------------------------------------------
        it_expr, pat, arm = loop_parts(loops[1])
        ok_enum = it_expr.get("k") == "mcall" and it_expr.get("name") == "enumerate" and \
            it_expr["r"].get("k") == "mcall" and it_expr["r"].get("name") == "into_iter" and \
            (it_expr["r"]["r"].get("n") == tname)
        if not ok_enum:
            fails.append("the completion loop does not enumerate the table in order (`%s.into_iter().enumerate()`): the position "
                         "of an entry must be its level" % tname)
        for entry in (Enum(SOME, [r]), Enum(NONE)):
            res = []

            def go2(it):
                env = {"$consts": {}, "$fn": fid, "manager": Opaque("manager"), rname: res, "$mut": {}}
                if not it.match(pat, (5, entry), env):
                    raise Unrecognised("loop pattern")
                try:
                    it.ev(arm, env)
                except Continue:
                    pass
            for trace, (status, val) in enumerate_runs(mk, go2):
                n += 1
                sit = "completion of entry %r at position 5" % (entry,)
                if status != "ok":
                    fails.append("%s: %s %s" % (sit, status, val))
                    continue
                if len(res) != 1:
                    fails.append("%s: %d results pushed (expected one)" % (sit, len(res)))
                    continue
                v = res[0]
                if entry.path == SOME:
                    if v != r:
                        fails.append("%s: pushes %r, expected a clone of the replacement" % (sit, v))
                else:
                    okn = isinstance(v, Edge) and v.node[0] == "NEW" and v.node[1] == 5 and v.node[2] == 5 and \
                        tuple(v.node[3]) == var_children and (tag0 is None or v.tag == tag0)
                    if not okn:
                        fails.append("%s: pushes %r, expected the variable's own function node(5; %r, %r)"
                                     % (sit, v, var_children[0], var_children[1]))
        ctx.ob(rule, "%s:%s" % (rule, kname), not fails,
               "%s (%s): %s" % (fid, F.where(fid), "%d situation(s) wrong; first: %s" % (len(fails), " || ".join(fails[:3])) if fails
                                else "fills entry var_to_level(v) and completes unmapped levels with the variable's own function"))
    return n
