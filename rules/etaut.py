"""E-TAUT: the ZBDD tautology chain.

The Boolean-function view of ZBDDs needs, for every level l, the family of all subsets of the variables at levels
l.. (a chain of don't-care nodes).  `ZBDDCache` keeps that chain; `var`, `t`, `not`, `restrict` read it through
`ZBDDCache::tautology(level)`.  Interpreted from HIR:

  lookup   `tautology(level)` on a chain [Base, T(n-1), .., T(0)] (bottom entry first) returns the entry that covers
           exactly the levels level..n-1 for every level in 0..=n+1 (the Base terminal from n on);
  build    `post_reorder_mut` starts its vector with the Base terminal, walks the levels bottom-up
           (`manager.levels().rev()`), and one iteration of its loop, interpreted on a vector ending in `prev` and the
           view of level L, appends node(L; prev, prev) inserted into that very view; the finished vector is stored in
           the cache.
"""
import ereduce
import tables
from lib.interp import Continue, Edge, Enum, Interp, Opaque, Unrecognised, enumerate_runs
from tables import OK, SOME, NONE

RULE = "E-TAUT"
MOD = "oxidd_rules_zbdd::"


class TautDomain(ereduce.ReduceDomain):
    def __init__(self, F):
        super().__init__(F, tables.ZBDD)

    def call(self, it, name, f, args_e, env, e):
        did = f.get("did", "")
        if did in ("core::cmp::min", "std::cmp::min"):
            a, b = [it.ev(x, env) for x in args_e]
            if isinstance(a, int) and isinstance(b, int):
                return min(a, b)
        return super().call(it, name, f, args_e, env, e)

    def field(self, it, v, n):
        if isinstance(v, dict) and n in v:
            return v[n]
        return super().field(it, v, n)

    def method(self, it, m, e, env):
        name = m.rsplit("::", 1)[-1]
        if name in ("len", "last", "push") and ("Vec" in m or "slice" in m or "[T]" in m):
            r = it.recv(e, env)
            if isinstance(r, list):
                if name == "len":
                    return len(r)
                if name == "last":
                    return Enum(SOME, [r[-1]]) if r else Enum(NONE)
                (x,) = it.args(e, env)
                r.append(x)
                return ()
        if name == "level_no":
            r = it.recv(e, env)
            if isinstance(r, tuple) and r and r[0] == "levelview":
                return r[1]
        if m == "oxidd_core::LevelView::get_or_insert":
            r = it.recv(e, env)
            (node,) = it.args(e, env)
            return Enum(OK, [self.insert(r, node)])
        if m in ("std::cmp::Ord::min", "core::cmp::Ord::min"):
            a = it.recv(e, env)
            (b,) = it.args(e, env)
            if isinstance(a, int) and isinstance(b, int):
                return min(a, b)
        return super().method(it, m, e, env)


def run(ctx, F, rule=RULE):
    n = 0
    # ---- lookup ------------------------------------------------------------------------------------------------------
    fids = [f for f in F.hir if f.startswith(MOD) and f.endswith("::tautology") and "{impl#" in f]
    if ctx.anchor(rule, "ZBDDCache::tautology", len(fids) == 1):
        fid = fids[0]
        fails = []
        NL = 3
        chain = [Edge(("T", Enum("oxidd_rules_zbdd::ZBDDTerminal::Base")))] + [Edge(("N", "taut%d" % l)) for l in range(NL - 1, -1, -1)]
        # chain[0] = Base, chain[1] = taut2 (bottom level only), .., chain[3] = taut0 (all levels)
        for level in range(0, NL + 3):
            want = chain[NL - level] if level <= NL else chain[0]

            def mk(oracle):
                return Interp(F, TautDomain(F), oracle)
            for trace, (status, val) in enumerate_runs(mk, lambda it: it.call_fn(fid, [{"tautologies": chain}, level])):
                n += 1
                if status != "ok" or val is not want:
                    fails.append("tautology(%d) with %d levels yields %s %r, expected %r" % (level, NL, status, val, want))
        ctx.ob(rule, rule + ":lookup", not fails,
               "ZBDDCache::tautology (%s): %s" % (F.where(fid), " || ".join(fails[:3]) if fails else
                                                  "returns the chain entry covering exactly the levels from `level` down"))
    # ---- build -------------------------------------------------------------------------------------------------------
    fids = [f for f in F.hir if f.startswith(MOD) and f.endswith("::post_reorder_mut")]
    if ctx.anchor(rule, "ZBDDCache::post_reorder_mut", len(fids) == 1):
        fid = fids[0]
        body = F.hir[fid]["body"]
        fails = []
        lets = [s for s in body.get("s", []) if s["k"] == "slet" and s["p"].get("k") == "bind"]
        loop = [s["e"] for s in body.get("s", []) if s["k"] in ("expr", "semi") and s["e"].get("k") == "match"
                and s["e"].get("src", "").startswith("ForLoopDesugar")]
        vec = [l for l in lets if ((l.get("e") or {}).get("f") or {}).get("n", "").endswith("with_capacity")
               or ((l.get("e") or {}).get("f") or {}).get("n", "").endswith("Vec::new")]
        if not (len(vec) == 1 and len(loop) == 1):
            fails.append("cannot identify the chain vector and the loop over the levels")
        else:
            vname = vec[0]["p"]["n"]
            # statements between the let and the loop: the initial push of Base
            pre = [s for s in body["s"] if s["k"] in ("expr", "semi") and s["e"].get("k") == "mcall" and s["e"].get("name") == "push"]
            store = []
            BASE = Edge(("T", Enum("oxidd_rules_zbdd::ZBDDTerminal::Base")))

            def mk(oracle):
                return Interp(F, TautDomain(F), oracle)
            for s in pre:
                for trace, (status, val) in enumerate_runs(
                        mk, lambda it: it.ev(s["e"], {"$consts": {}, "$fn": fid, "manager": Opaque("manager"), vname: store})):
                    n += 1
                    if status != "ok":
                        fails.append("initial push: %s %s" % (status, val))
            if store != [BASE]:
                fails.append("the chain starts with %r, expected the Base terminal" % (store,))
            # iteration order: manager.levels().rev()
            it_expr = loop[0]["e"]["a"][0]
            while it_expr.get("k") in ("use",):
                it_expr = it_expr["e"]
            ok_order = it_expr.get("k") == "mcall" and it_expr.get("name") == "rev" and it_expr["r"].get("k") == "mcall" \
                and it_expr["r"].get("name") == "levels"
            if not ok_order:
                fails.append("the loop does not walk `manager.levels().rev()` (bottom-up): every entry must be built from the "
                             "entry of the level below")
            try:
                m2 = loop[0]["arms"][0]["b"]["b"]["s"][0]["e"]
                some = [a for a in m2["arms"] if (a["p"].get("p") or {}).get("n", "").endswith("Some")][0]
                pat, arm = some["p"]["f"][0][1], some["b"]
            except (KeyError, IndexError):
                pat = arm = None
                fails.append("loop shape not recognised")
            if arm is not None:
                prev = Edge(("N", "prev"))
                chain = [BASE, prev]

                def go(it):
                    env = {"$consts": {}, "$fn": fid, "manager": Opaque("manager"), vname: chain, "$mut": {}}
                    if not it.match(pat, ("levelview", 5), env):
                        raise Unrecognised("loop pattern")
                    try:
                        it.ev(arm, env)
                    except Continue:
                        pass
                    return None
                for trace, (status, val) in enumerate_runs(mk, go):
                    n += 1
                    if status != "ok":
                        fails.append("loop body: %s %s" % (status, val))
                        continue
                    new = chain[-1] if len(chain) == 3 else None
                    okn = isinstance(new, Edge) and new.node[0] == "NEW" and new.node[1] == 5 and new.node[2] == 5 \
                        and tuple(new.node[3]) == (prev, prev) and chain[:2] == [BASE, prev]
                    if not okn:
                        fails.append("one iteration at level 5 on [.., prev] leaves %r, expected [.., prev, node(5; prev, prev)]"
                                     % (chain,))
            # final store into the cache
            tail = [s for s in body["s"] if s["k"] in ("expr", "semi") and s["e"].get("k") == "assign"]
            ok_store = any(t["e"]["r"].get("k") == "path" and t["e"]["r"].get("n") == vname and
                           (t["e"]["l"].get("k") == "field" and t["e"]["l"].get("n") == "tautologies") for t in tail)
            if not ok_store:
                fails.append("the finished chain is not stored in the cache's `tautologies`")
        ctx.ob(rule, rule + ":build", not fails,
               "ZBDDCache::post_reorder_mut (%s): %s" % (F.where(fid), " || ".join(fails[:3]) if fails else
                                                         "Base first, then bottom-up one don't-care node per level on top of the previous entry"))
    return n


def check_restrict_base_loop(ctx, F, rule="E-TABLE.step.zbase.iter"):
    """ZBDD `restrict_base`: when the cube skips the levels level..node_level-1 (don't-care positions), the result for
    the levels below gets one don't-care node per skipped level.  The loop must range over `(level..node_level)` and
    one iteration on `res` at level l must produce node(l; res, res) in the view of l."""
    import eprep
    fid = next((f for f in F.hir if f.startswith("oxidd_rules_zbdd::apply_rec::restrict::restrict_base")), None)
    if not ctx.anchor(rule, "oxidd_rules_zbdd::apply_rec::restrict::restrict_base", fid is not None):
        return 0
    loops = []

    def walk(x):
        if isinstance(x, dict):
            if x.get("k") == "match" and x.get("src", "").startswith("ForLoopDesugar") and \
                    ((x.get("e") or {}).get("f") or {}).get("n", "").endswith("into_iter"):
                loops.append(x)
            for v in x.values():
                walk(v)
        elif isinstance(x, list):
            for v in x:
                walk(v)
    walk(F.hir[fid]["body"])
    fails = []
    n = 0
    if len(loops) != 1:
        ctx.ob(rule, rule, False, "%s (%s): expected exactly one loop over the skipped levels, found %d" % (fid, F.where(fid), len(loops)))
        return 1
    it_expr, pat, arm = eprep.loop_parts(loops[0])
    rng = it_expr
    if rng.get("k") == "mcall" and rng.get("name") == "rev":
        rng = rng["r"]
    while rng.get("k") in ("use",):
        rng = rng["e"]
    # evaluate the range with the `level` parameter = 2 and the cube node's level = 6
    h = F.hir[fid]
    pnames = [p.get("n") for p in h["params"]]
    nl = []

    def find_lets(x):
        if isinstance(x, dict):
            if x.get("k") == "slet" and x["p"].get("k") == "bind" and (x.get("e") or {}).get("k") == "mcall" \
                    and x["e"].get("name") == "level":
                nl.append(x["p"]["n"])
            for v in x.values():
                find_lets(v)
        elif isinstance(x, list):
            for v in x:
                find_lets(v)
    find_lets(h["body"])
    ok_rng = False
    if len(pnames) == 3 and len(nl) == 1 and rng.get("k") == "struct":
        def mk0(oracle):
            return Interp(F, TautDomain(F), oracle)
        for trace, (status, val) in enumerate_runs(mk0, lambda it: it.ev(rng, {"$consts": {}, "$fn": fid, pnames[2]: 2, nl[0]: 6})):
            n += 1
            fl = getattr(val, "fields", None) or {}
            ok_rng = status == "ok" and fl.get("start") == 2 and fl.get("end") == 6 and getattr(val, "path", "").endswith("Range")
    if not ok_rng:
        fails.append("the loop does not range over `level..node_level` (exactly the levels skipped by the cube)")
    res0 = Edge(("N", "res"))

    class D(TautDomain):
        def method(self, it, m, e, env):
            if m in ("oxidd_core::Manager::level", "oxidd_core::Manager::level_unchecked"):
                it.recv(e, env)
                (lvl,) = it.args(e, env)
                return ("levelview", lvl)
            return super().method(it, m, e, env)

    def mk(oracle):
        return Interp(F, D(F), oracle)

    def go(it):
        env = {"$consts": {}, "$fn": fid, "manager": Opaque("manager"), "$mut": {"res": res0}}
        if not it.match(pat, 4, env):
            raise Unrecognised("loop pattern")
        it.ev(arm, env)
        return env["$mut"]["res"]
    for trace, (status, val) in enumerate_runs(mk, go):
        n += 1
        okn = status == "ok" and isinstance(val, Edge) and val.node[0] == "NEW" and val.node[1] == 4 and val.node[2] == 4 \
            and tuple(val.node[3]) == (res0, res0)
        if not okn:
            fails.append("one iteration at level 4 yields %s %r, expected node(4; res, res)" % (status, val))
    ctx.ob(rule, rule, not fails, "%s (%s): %s" % (fid, F.where(fid), " || ".join(fails[:3]) if fails else
                                                  "one don't-care node per skipped level"))
    return n
