"""E-PERM: the in-place permutation loop of `set_var_order_common` keeps its invariant.

The second step of `set_var_order` moves whole levels (`LevelView::swap`) until `target_order[k] == k` for every
position: a cycle-following loop over a position counter `i`.  Its correctness rests on the invariant "all positions
before `i` already hold their final level", which is preserved only if the counter advances on no other path than
the one on which the element at the current position was found to be in place (`target_order[i] == i`).  A counter
that also advances after a swap is right for fixed points and cycles of length <= 3 and wrong for longer cycles.
From MIR of the closure:
  guard     every increment of the position counter is reachable from the loop head only through the "equal" edge
            of a comparison between the counter and the element loaded for the current position;
  swap3     on the other edge the level views, `to_pre` and `target_order` are swapped at the same pair of
            positions (the three tables stay in step).
This decides the loop-invariant shape, not the permutation arithmetic itself.
"""
import re

from lib import cfg

FN_PREFIX = "oxidd_reorder::set_var_order::set_var_order_common::{closure#"


def find_body(F):
    for fid in sorted(F.mir):
        if fid.startswith(FN_PREFIX) and fid.count("{closure#") == 1:
            names = [l.get("n") for l in F.mir[fid]["locals"]]
            if "i" in names and "j" in names and "to_pre" in names:
                return fid
    return None


def _loc(op):
    v = op.get("cp", op.get("mv")) if isinstance(op, dict) else None
    return v if isinstance(v, int) else (v.get("l") if isinstance(v, dict) and not v.get("p") else None)


def run(ctx, F, rule="E-PERM"):
    fid = find_body(F)
    if not ctx.anchor(rule, "set_var_order_common: closure with the level-permutation loop", fid is not None):
        return 0
    m = F.mir[fid]
    B = cfg.Body(m)
    where = F.where(fid)
    names = {i: l.get("n") for i, l in enumerate(m["locals"])}
    # the position counter of the while-loop is the *last* local named `i` (the for-loop above binds another `i`)
    i_locals = [k for k, n in names.items() if n == "i"]
    j_locals = [k for k, n in names.items() if n == "j"]
    # copies of i / j
    def closure_of(seed):
        s = set(seed)
        ch = True
        while ch:
            ch = False
            for bi in B.reach:
                for st in B.blocks[bi]["s"]:
                    rv = st.get("rv") or {}
                    if rv.get("k") in ("use", "cast") and isinstance(st.get("lhs"), int):
                        src = _loc(rv["op"])
                        if src in s and st["lhs"] not in s and names.get(st["lhs"]) is None:
                            s.add(st["lhs"])
                            ch = True
        return s
    # increments: `i = Add(i, 1)` (possibly through a checked add tuple)
    incs = []
    for bi in sorted(B.reach):
        b = B.blocks[bi]
        if b["c"]:
            continue
        for st in b["s"]:
            rv = st.get("rv") or {}
            if rv.get("k") in ("bin", "checked") and rv.get("o") in ("Add", "AddWithOverflow", "AddUnchecked"):
                a, bb = rv.get("a"), rv.get("b")
                if _loc(a) in i_locals and cfg.const_int(bb) == 1:
                    incs.append((bi, _loc(a)))
    ok = bool(incs)
    # comparisons between (copies of) the counter and (copies of) j
    problems = []
    n = 0
    for bi, il in incs:
        Ic, Jc = closure_of([il]), closure_of(j_locals)
        tests = []
        for ti in sorted(B.reach):
            b = B.blocks[ti]
            t = b.get("t") or {}
            if t.get("k") != "switch":
                continue
            d = _loc(t["d"])
            for st in b["s"]:
                rv = st.get("rv") or {}
                if st.get("lhs") == d and rv.get("k") == "bin" and rv.get("o") in ("Eq", "Ne"):
                    la, lb = _loc(rv["a"]), _loc(rv["b"])
                    if (la in Ic and lb in Jc) or (la in Jc and lb in Ic):
                        # switch: targets [[value, block]], otherwise
                        tv = {int(v): blk for v, blk in t["t"]}
                        other = t["o"]
                        if rv["o"] == "Eq":
                            eq_blk = other if 0 in tv else tv.get(1)
                            ne_blk = tv.get(0, other)
                        else:
                            eq_blk = tv.get(0, other)
                            ne_blk = other if 0 in tv else tv.get(1)
                        tests.append((ti, eq_blk, ne_blk))
        n += 1
        if not tests:
            problems.append("the increment of the position counter (bb%d) is not guarded by a comparison with the element "
                            "at the current position" % bi)
            continue
        for ti, eq_blk, ne_blk in tests:
            # from the "not equal" edge the increment must not be reachable without returning to the test
            if ne_blk is not None and bi in B.reachable_from(ne_blk, avoid=(ti,)):
                problems.append("the position counter is incremented (bb%d) on a path that leaves the test `j == i` through "
                                "its not-equal edge (after a swap): positions are skipped although the element that arrived "
                                "may still be out of place (wrong for permutation cycles longer than 3)" % bi)
            if eq_blk is None or not (bi == eq_blk or bi in B.reachable_from(eq_blk, avoid=(ti,))):
                problems.append("the increment (bb%d) is not on the equal edge of the test" % bi)
    ctx.ob(rule + ".guard", rule + ".guard:set_var_order_common", ok and not problems,
           "%s (%s): %s" % (F.nice(fid), where, "; ".join(problems) if problems else
                            ("%d increment(s) of the position counter, each only on the `element in place` edge" % len(incs)
                             if ok else "no increment of the position counter found")))
    # the three swaps in one block chain
    swaps = [cfg.callee_name(B.blocks[bi]["t"]) or "" for bi in sorted(B.reach)
             if (B.blocks[bi].get("t") or {}).get("k") == "call" and not B.blocks[bi]["c"]]
    kinds = {"levels": any(re.search(r"LevelView::swap$|::swap$", s) and "LevelView" in s for s in swaps),
             "slices": sum(1 for s in swaps if re.search(r"slice::<impl \[T\]>::swap$|\[T\]>::swap$|::swap$", s) and "LevelView" not in s)}
    ok3 = kinds["levels"] and kinds["slices"] >= 2
    ctx.ob(rule + ".swap3", rule + ".swap3:set_var_order_common", ok3,
           "%s (%s): the level views, `to_pre` and `target_order` are swapped together (%s)" % (F.nice(fid), where, kinds))
    check_blocked(ctx, F)
    return n + 1

# ---- E-PERM.blocked: position-blocking protocol of the concurrent bubble sort -----------------------------------------
CBS = "oxidd_reorder::set_var_order::concurrent_bubble_sort::{closure#"


def check_blocked(ctx, F, rule="E-PERM.blocked"):
    """`concurrent_bubble_sort` lets several workers swap adjacent levels at once; a worker that swaps positions i and
    i+1 holds both in the shared `blocked` set, a queued task at j holds j and j+1.  From MIR of the worker closure,
    every acyclic path through the body of the inner swap loop is followed by a typestate analysis (abstract state: the
    set of held positions, as offsets from
    the loop-head value of `i`; branch decisions on one named flag are kept consistent): starting with {i, i+1} held,
    after the inserts / removes of the path and after handing {j, j+1} to every pushed task, the worker must hold
    exactly {i', i'+1} when it continues with i' = i +/- 1, and nothing when it fetches a new task, waits or returns.
    A position that stays blocked (or is released while still needed) makes a neighbouring swap impossible or lets
    two workers restructure the same level."""
    fids = [f for f in F.mir if f.startswith(CBS) and f.count("{closure#") == 1]
    if not ctx.anchor(rule, "worker closure of concurrent_bubble_sort", len(fids) == 1):
        return 0
    fid = fids[0]
    m = F.mir[fid]
    B = cfg.Body(m)
    blocks = m["blocks"]
    names = {i: l.get("n") for i, l in enumerate(m["locals"])}
    calls = {i: t for i, t in B.calls()}

    def cname(i):
        return cfg.callee_name(calls[i]) or ""
    swaps = [i for i in calls if cname(i).endswith("slice::<impl [T]>::swap") or cname(i).endswith("[T]>::swap")]
    if not ctx.anchor(rule, "seq.swap(i, i + 1) in the worker loop", len(swaps) == 1):
        return 0
    # the inner loop head: the block of the level swap call `swap(manager, i)` that dominates seq.swap and is reachable from it
    heads = [i for i in sorted(B.reach) if not blocks[i]["c"] and B.dominates(i, swaps[0]) and B.can_reach(swaps[0], i)
             and len([p for p in B.reach if i in B.succ[p]]) >= 2]
    if not ctx.anchor(rule, "head of the inner swap loop", bool(heads)):
        return 0
    # innermost loop around seq.swap: the candidate that every other candidate dominates
    head = [h for h in heads if all(B.dominates(o, h) for o in heads)]
    if not ctx.anchor(rule, "innermost loop head around seq.swap", len(head) == 1):
        return 0
    head = head[0]
    i_local = [k for k, n in names.items() if n == "i"]
    # the `i` of the inner loop is the one read in the head's region: pick the local copied into seq.swap's index
    def base_of(op, off, depth=0):
        return None
    results = []
    npaths = [0]

    def run(blk, off, held, given, flags, seen, ivar):
        """off: local -> offset relative to head-i (ints) ; held: frozenset ; ivar: current offset of `i`"""
        if npaths[0] > 4000:
            return
        b = blocks[blk]
        if b["c"]:
            return
        off = dict(off)
        for s in b["s"]:
            rv = s.get("rv") or {}
            lhs = s.get("lhs")
            if not isinstance(lhs, int):
                continue
            k = rv.get("k")
            val = None
            if k in ("use", "cast"):
                o = rv["op"]
                src = o.get("cp", o.get("mv"))
                if isinstance(src, int) and src in off:
                    val = off[src]
                elif isinstance(src, int) and src in ivar_locals:
                    val = ivar
            elif k in ("bin", "checked") and str(rv.get("o", ""))[:3] in ("Add", "Sub"):
                a, bb = rv.get("a"), rv.get("b")
                la = a.get("cp", a.get("mv")) if isinstance(a, dict) else None
                c = cfg.const_int(bb)
                base = off.get(la) if isinstance(la, int) and la in off else (ivar if la in ivar_locals else None)
                if base is not None and c is not None:
                    val = base + c if str(rv["o"]).startswith("Add") else base - c
            if lhs in ivar_locals:
                if val is not None:
                    ivar = val
                else:
                    ivar = ("new",)      # i = new_i
            elif val is not None:
                off[lhs] = val
            elif lhs in off:
                del off[lhs]
        t = b["t"]
        kind = t["k"]
        if kind == "call":
            cn = cname(blk) if blk in calls else ""
            args = t.get("a") or []

            def aoff(a):
                l = a.get("cp", a.get("mv")) if isinstance(a, dict) else None
                if isinstance(l, int):
                    if l in off:
                        return off[l]
                    if l in ivar_locals and not isinstance(ivar, tuple):
                        return ivar
                return None
            if cn.endswith("FixedBitSet::insert") and len(args) == 2:
                k2 = aoff(args[1])
                if k2 is None:
                    results.append(("?", "insert of an unrecognised position", blk))
                    return
                held = held | {k2}
            elif cn.endswith("FixedBitSet::remove") and len(args) == 2:
                k2 = aoff(args[1])
                if k2 is None:
                    results.append(("?", "remove of an unrecognised position", blk))
                    return
                if k2 not in held:
                    results.append(("bad", "releases position i%+d which it does not hold" % k2, blk))
                    return
                held = held - {k2}
            elif cn.endswith("Vec::<T, A>::push") and len(args) == 2:
                k2 = aoff(args[1])
                if k2 is None:
                    results.append(("?", "push of an unrecognised task", blk))
                    return
                if not {k2, k2 + 1} <= held:
                    results.append(("bad", "queues a task at i%+d without holding i%+d and i%+d" % (k2, k2, k2 + 1), blk))
                    return
                held = held - {k2, k2 + 1}
            elif cn.endswith("Vec::<T, A>::pop"):
                # fetching a new task: everything must have been released
                if isinstance(ivar, tuple) or True:
                    if held:
                        results.append(("bad", "fetches a new task while still holding %s" % _fmt(held), blk))
                        return
                    results.append(("ok", "released everything before fetching a new task", blk))
                    npaths[0] += 1
                    return
            d = t.get("d")
            if isinstance(d, int) and d in off:
                del off[d]
            nxt = t.get("t")
            if nxt is None:
                return
            succs = [nxt]
        elif kind == "switch":
            d = t["d"].get("mv", t["d"].get("cp"))
            flag = None
            # decisions on (copies of) a named bool local stay consistent
            src = d
            for s in b["s"]:
                if s.get("lhs") == d and (s.get("rv") or {}).get("k") == "use":
                    o = s["rv"]["op"]
                    src = o.get("cp", o.get("mv"))
                if s.get("lhs") == d and (s.get("rv") or {}).get("k") == "un":
                    o = s["rv"].get("op") or s["rv"].get("a") or {}
                    src = ("not", o.get("cp", o.get("mv")))
            neg = False
            if isinstance(src, tuple):
                neg, src = True, src[1]
            if isinstance(src, int) and names.get(src):
                flag = src
            succs = []
            for v, tb in t["t"]:
                succs.append((tb, int(v) != 0))
            succs.append((t["o"], True if all(int(v) == 0 for v, _ in t["t"]) else None))
            outs = []
            for tb, truth in succs:
                if flag is not None and truth is not None:
                    tv = (not truth) if neg else truth
                    if flag in flags and flags[flag] != tv:
                        continue
                    f2 = dict(flags)
                    f2[flag] = tv
                else:
                    f2 = flags
                outs.append((tb, f2))
            for tb, f2 in outs:
                step(tb, off, held, given, f2, seen, ivar)
            return
        elif kind == "return":
            if held:
                results.append(("bad", "returns while still holding %s" % _fmt(held), blk))
            else:
                results.append(("ok", "returns holding nothing", blk))
            npaths[0] += 1
            return
        elif kind in ("goto", "drop", "assert"):
            succs = [t.get("t")]
        else:
            return
        for nb in succs:
            if nb is not None:
                step(nb, off, held, given, flags, seen, ivar)

    def step(nb, off, held, given, flags, seen, ivar):
        if nb == head:
            npaths[0] += 1
            if isinstance(ivar, tuple):
                # continues with a freshly popped task: it brings its own two positions
                if held:
                    results.append(("bad", "continues with a new task while still holding %s" % _fmt(held), nb))
                else:
                    results.append(("ok", "new task", nb))
            elif held == frozenset({ivar, ivar + 1}):
                results.append(("ok", "continues at i%+d holding exactly its two positions" % ivar, nb))
            else:
                results.append(("bad", "continues at i%+d holding %s instead of {i%+d, i%+d}" % (ivar, _fmt(held), ivar, ivar + 1), nb))
            return
        if nb in seen or nb not in B.reach:
            return
        # leaving the inner loop towards the outer loop (wait for a new task)
        if not B.can_reach(nb, head) or (not B.dominates(head, nb)):
            npaths[0] += 1
            if held:
                results.append(("bad", "leaves the swap loop while still holding %s" % _fmt(held), nb))
            else:
                results.append(("ok", "leaves the swap loop holding nothing", nb))
            return
        run(nb, off, held, given, flags, seen | {nb}, ivar)

    # locals named `i` that are live in the inner loop: those read in blocks dominated by the head
    ivar_locals = set()
    for k in i_local:
        for bi in B.reach:
            if B.dominates(head, bi) and k in _mentioned(blocks[bi]):
                ivar_locals.add(k)
    if not ctx.anchor(rule, "position variable of the swap loop", len(ivar_locals) >= 1):
        return 0
    run(head, {}, frozenset({0, 1}), frozenset(), {}, frozenset({head}), 0)
    bad = [r for r in results if r[0] == "bad"]
    unk = [r for r in results if r[0] == "?"]
    ok = [r for r in results if r[0] == "ok"]
    ctx.ob(rule, rule + ":concurrent_bubble_sort", bool(ok) and not bad and not unk,
           "%s (%s): %s" % (F.nice(fid), F.where(fid),
                            "%d paths through the swap loop keep the blocking invariant" % len(ok) if ok and not bad and not unk else
                            ("on %d of %d path(s) the worker %s" % (len(bad), len(results), bad[0][1]) if bad else
                             ("path analysis incomplete: %s" % unk[0][1] if unk else "no path through the swap loop was found"))))
    return len(results)


def _fmt(held):
    return "{" + ", ".join("i%+d" % k if k else "i" for k in sorted(held)) + "}"


def _mentioned(block):
    out = set()

    def walk(x):
        if isinstance(x, dict):
            for k in ("cp", "mv"):
                if k in x:
                    v = x[k]
                    out.add(v if isinstance(v, int) else v.get("l"))
            if isinstance(x.get("lhs"), int):
                out.add(x["lhs"])
            for v in x.values():
                walk(v)
        elif isinstance(x, list):
            for v in x:
                walk(v)
    walk(block)
    return out


def check_relabel_worklist(ctx, F, rule="E-PERM.relabel"):
    """After the permutation, `update_levels` (parallel) collects the levels whose nodes still carry a stale level
    number and relabels exactly those.  The work list must hold the numbers of the levels to visit (what
    `LevelView::level_no` / the position in `manager.levels()` says), never the stale number read from `to_pre`:
    the two sets differ as soon as an empty level takes part in the permutation, and then some level keeps nodes whose
    stored level disagrees with the unique table they sit in."""
    from efreelist import origins
    fids = [f for f in F.mir if f.startswith("oxidd_reorder::set_var_order::") and f.endswith("::update_levels")
            or f == "oxidd_reorder::set_var_order::update_levels"]
    if not ctx.anchor(rule, "oxidd_reorder::set_var_order::update_levels", len(fids) == 1):
        return 0
    fid = fids[0]
    m = F.mir[fid]
    B = cfg.Body(m)
    pushes = [(i, t) for i, t in B.calls() if not m["blocks"][i]["c"] and re.search(r"Vec::<T, A>::push$", cfg.callee_name(t) or "")]
    if not ctx.anchor(rule, "work-list push in update_levels", len(pushes) >= 1):
        return 0
    n = 0
    for i, t in pushes:
        org = origins(B, m, [t["a"][1]])
        names = [cfg.callee_name(o[1]) or "" for o in org if o[0] == "call"]
        position = any(re.search(r"::level_no$|Enumerate<.*::next$", x) for x in names)
        stale = [x for x in names if re.search(r"into_inner$|::load$|::get_mut$", x)]
        ok = position and not stale
        n += 1
        ctx.ob(rule, "%s:push#%d" % (rule, n), ok,
               "%s (%s): %s" % (F.nice(fid), F.where(fid),
                                "the relabel work list receives the level's own number" if ok else
                                "the value pushed onto the relabel work list derives from %s, not from the position of the level "
                                "(LevelView::level_no): levels are selected by the stale number their nodes carry"
                                % (sorted({x.rsplit('::', 2)[-2] + '::' + x.rsplit('::', 1)[-1] for x in names}) or "no call")))
    # the closure run by the workers relabels the level it looked up with the work-list element
    clos = [f for f in F.mir if f.startswith(fid + "::{closure")]
    for c in clos:
        mc = F.mir[c]
        Bc = cfg.Body(mc)
        ups = [(i, t) for i, t in Bc.calls() if (cfg.callee_name(t) or "").endswith("::update_level_no")]
        for i, t in ups:
            org = origins(Bc, mc, [t["a"][1]])
            names = [cfg.callee_name(o[1]) or "" for o in org if o[0] == "call"]
            ok = any(re.search(r"::level_unchecked$|::level$", x) for x in names)
            ctx.ob(rule, "%s:closure" % rule, ok,
                   "%s (%s): %s" % (F.nice(c), F.where(c), "relabels the level view looked up from the work-list element" if ok
                                    else "update_level_no is not applied to the level looked up from the work-list element"))
            n += 1
    return n


def check_acquire_guard(ctx, F, rule="E-PERM.acquire"):
    """In the worker loop of `concurrent_bubble_sort` a position is taken for a further swap (`blocked.insert(p)`) only
    when nobody holds it: every insert is dominated by a `blocked.contains(..)` test and lies on its `false` edge only.
    Taking a position that another worker holds lets two level swaps restructure a common level at the same time."""
    fids = [f for f in F.mir if f.startswith(CBS) and f.count("{closure#") == 1]
    if not ctx.anchor(rule, "worker closure of concurrent_bubble_sort", len(fids) == 1):
        return 0
    fid = fids[0]
    m = F.mir[fid]
    B = cfg.Body(m)
    blocks = m["blocks"]
    ins = [i for i, t in B.calls() if (cfg.callee_name(t) or "").endswith("FixedBitSet::insert") and not blocks[i]["c"]]
    cons = [i for i, t in B.calls() if (cfg.callee_name(t) or "").endswith("FixedBitSet::contains") and not blocks[i]["c"]]
    if not ctx.anchor(rule, "blocked.insert / blocked.contains in the worker loop", len(ins) >= 2 and len(cons) >= 2):
        return 0

    def true_successors(c):
        """blocks entered when contains() returned true"""
        t = blocks[c]["t"]
        dest, nxt = t.get("d"), t.get("t")
        if not isinstance(dest, int) or nxt is None:
            return None
        neg = None
        cur = nxt
        for _ in range(3):
            b = blocks[cur]
            for s in b["s"]:
                rv = s.get("rv") or {}
                if rv.get("k") == "un" and rv.get("o") == "Not" and cfg.op_place(rv.get("a", rv.get("op"))) == dest:
                    neg = s.get("lhs")
            tt = b["t"]
            if tt["k"] == "switch":
                d = cfg.op_place(tt.get("d"))
                zero = [blk for v, blk in tt["t"] if str(v) == "0"]
                other = tt.get("o")
                if d == dest:
                    return [other]
                if neg is not None and d == neg:
                    return zero
                return None
            if tt["k"] == "goto":
                cur = tt.get("t") if isinstance(tt.get("t"), int) else None
                if cur is None:
                    return None
            else:
                return None
        return None
    n = 0
    for i in ins:
        n += 1
        doms = [c for c in cons if B.dominates(c, i)]
        ok = False
        why = "no dominating `blocked.contains(..)` test"
        for c in doms:
            ts = true_successors(c)
            if ts is None:
                continue
            reach = set()
            for s in ts:
                if s is not None:
                    reach |= B.reachable_from(s, avoid=(c,))
            if i not in reach:
                ok = True
            else:
                why = "it is reachable on the `contains(..) == true` edge of the test that guards it"
        if not ok:
            # the test may sit in a short-circuit chain:  flag = a && b && !contains(p);  if flag { insert(p) }
            con_dests = {blocks[c]["t"].get("d") for c in cons if isinstance(blocks[c]["t"].get("d"), int)}
            for sb in sorted(B.reach):
                tt = blocks[sb]["t"]
                if blocks[sb]["c"] or tt["k"] != "switch" or not B.dominates(sb, i):
                    continue
                L = cfg.op_place(tt.get("d"))
                if not isinstance(L, int):
                    continue
                # follow one copy (`_104 = copy _48`)
                srcs = {L}
                for bb in sorted(B.reach):
                    for st in blocks[bb]["s"]:
                        if st.get("lhs") == L and (st.get("rv") or {}).get("k") == "use":
                            q = cfg.op_place(st["rv"].get("op"))
                            if isinstance(q, int):
                                srcs.add(q)
                zero = [blk for v, blk in tt["t"] if str(v) == "0"]
                reach0 = set()
                for z in zero:
                    reach0 |= B.reachable_from(z, avoid=(sb,))
                if i in reach0:
                    continue
                defs_ok, has_not = True, False
                for bb in sorted(B.reach):
                    for st in blocks[bb]["s"]:
                        lh = st.get("lhs")
                        if not isinstance(lh, int):
                            continue
                        if (lh in srcs and lh != L) or (lh == L and (st.get("rv") or {}).get("k") != "use"):
                            rv = st.get("rv") or {}
                            if rv.get("k") == "use" and str((rv.get("op") or {}).get("c")) == "false":
                                continue
                            if rv.get("k") == "un" and rv.get("o") == "Not" and cfg.op_place(rv.get("a", rv.get("op"))) in con_dests:
                                has_not = True
                                continue
                            defs_ok = False
                if defs_ok and has_not:
                    ok = True
                    break
        ctx.ob(rule, "%s:insert#%d" % (rule, n), ok,
               "%s (%s): %s" % (F.nice(fid), F.where(fid),
                                "a position is taken only when it is not blocked" if ok else
                                "a position is taken for a further swap although it may be held by another worker: " + why))
    return n


def check_level_down(ctx, F, rule="E-PERM.leveldown"):
    """`level_down(manager, u)` (the public single swap): calls `level_swap(manager, u, u + 1, u, u + 1)` -- positions and
    stale numbers coincide for a single swap -- and then writes the new level numbers into the nodes of *both* levels
    (`update_level_no` on the views of u and u + 1).  Interpreted from HIR with u = 5."""
    from lib.interp import Interp, Opaque, enumerate_runs, Unrecognised
    import tables
    fid = "oxidd_reorder::level_down"
    if not ctx.anchor(rule, fid, fid in F.hir):
        return 0

    class D(tables.DDDomain):
        def __init__(self):
            super().__init__(F, tables.BDD)
            self.swaps, self.updates = [], []

        def call(self, it, name, f, args_e, env, e):
            n = f.get("n", "")
            if n.endswith("::level_swap"):
                self.swaps.append([it.ev(a, env) for a in args_e][1:])
                return ()
            if n.endswith("::update_level_no"):
                args = [it.ev(a, env) for a in args_e]
                self.updates.append(args[1])
                return ()
            return super().call(it, name, f, args_e, env, e)

        def method(self, it, m, e, env):
            nm = m.rsplit("::", 1)[-1]
            if nm == "num_levels":
                it.recv(e, env)
                return 100
            if nm in ("level_unchecked", "level"):
                it.recv(e, env)
                (l,) = it.args(e, env)
                return ("levelview", l)
            return super().method(it, m, e, env)
    holder = {}

    def mk(oracle):
        holder["d"] = D()
        return Interp(F, holder["d"], oracle)
    fails = []
    n = 0
    for trace, (status, val) in enumerate_runs(mk, lambda it: it.call_fn(fid, [Opaque("manager"), 5])):
        n += 1
        d = holder["d"]
        if status != "ok":
            fails.append("%s %s" % (status, val))
            continue
        if d.swaps != [[5, 6, 5, 6]]:
            fails.append("level_swap is called with %r, expected (u, u + 1, u, u + 1) = (5, 6, 5, 6)" % (d.swaps,))
        if sorted(x[1] for x in d.updates if isinstance(x, tuple)) != [5, 6]:
            fails.append("level numbers are rewritten for the levels %r, expected both u and u + 1" % (d.updates,))
    ctx.ob(rule, rule, not fails and n >= 1, "level_down (%s): %s" % (F.where(fid), " || ".join(fails) if fails else
                                                                    "swaps (u, u + 1) and relabels both levels"))
    return n


def check_relabel_conditions(ctx, F, rule="E-PERM.relabel.cond"):
    """`update_levels` / `update_levels_seq`: a level is relabelled (pushed onto the work list resp. passed to
    `update_level_no`) exactly when its position differs from the stale number its nodes carry; the parallel variant
    may skip empty levels only.  Path rule on MIR (a *must* rule -- relabelling an already right or an empty level is
    harmless and not reported): the relabelling call is reachable from the `differs` edge of the comparison and -- in
    `update_levels` -- from the `is_empty() == false` edge."""
    from efreelist import origins
    n = 0
    for name, sink_rx in (("update_levels", r"Vec::<T, A>::push$"), ("update_levels_seq", r"::update_level_no$")):
        fid = "oxidd_reorder::set_var_order::" + name
        m = F.mir.get(fid)
        if not ctx.anchor(rule, fid, m is not None):
            continue
        B = cfg.Body(m)
        blocks = m["blocks"]
        sinks = [i for i, t in B.calls() if re.search(sink_rx, cfg.callee_name(t) or "") and not blocks[i]["c"]]
        problems = []
        found_cmp = found_empty = False
        for i in sorted(B.reach):
            b = blocks[i]
            if b["c"]:
                continue
            for s in b["s"]:
                rv = s.get("rv") or {}
                if rv.get("k") == "bin" and rv.get("o") in ("Eq", "Ne") and isinstance(s.get("lhs"), int):
                    names = [(cfg.callee_name(o[1]) or "") for o in origins(B, m, [rv.get("a")]) + origins(B, m, [rv.get("b")]) if o[0] == "call"]
                    if any(x.endswith("::level_no") for x in names) and any(re.search(r"into_inner$|::load$", x) for x in names):
                        t = b["t"]
                        if t["k"] == "switch" and cfg.op_place(t.get("d")) == s["lhs"]:
                            found_cmp = True
                            zero = [blk for v, blk in t["t"] if str(v) == "0"]
                            eq_e = [t.get("o")] if rv["o"] == "Eq" else zero
                            ne_e = zero if rv["o"] == "Eq" else [t.get("o")]
                            re_, rn = set(), set()
                            for x in eq_e:
                                if x is not None:
                                    re_ |= B.reachable_from(x, avoid=(i,))
                            for x in ne_e:
                                if x is not None:
                                    rn |= B.reachable_from(x, avoid=(i,))
                            if not any(k in rn for k in sinks):
                                problems.append("a level whose nodes carry a stale number is not relabelled")
        for c, t in B.calls():
            if (cfg.callee_name(t) or "").endswith("::is_empty") and not blocks[c]["c"]:
                dest, nxt = t.get("d"), t.get("t")
                neg, cur = None, nxt
                for _ in range(3):
                    if cur is None:
                        break
                    b = blocks[cur]
                    for st in b["s"]:
                        rv = st.get("rv") or {}
                        if rv.get("k") == "un" and rv.get("o") == "Not" and cfg.op_place(rv.get("a", rv.get("op"))) == dest:
                            neg = st.get("lhs")
                    tt = b["t"]
                    if tt["k"] == "switch":
                        d = cfg.op_place(tt.get("d"))
                        zero = [blk for v, blk in tt["t"] if str(v) == "0"]
                        true_e = [tt.get("o")] if d == dest else zero if (neg is not None and d == neg) else None
                        if true_e is not None:
                            found_empty = True
                            reach = set()
                            for x in true_e:
                                if x is not None:
                                    reach |= B.reachable_from(x, avoid=(cur,))
                            false_e = zero if true_e != zero else [tt.get("o")]
                            rf = set()
                            for x in false_e:
                                if x is not None:
                                    rf |= B.reachable_from(x, avoid=(cur,))
                            if not any(k in rf for k in sinks):
                                problems.append("non-empty levels are skipped / only empty levels are scheduled (the emptiness test is inverted)")
                        break
                    cur = tt.get("t") if tt["k"] == "goto" and isinstance(tt.get("t"), int) else None
        n += 1
        ok = found_cmp and not problems and (found_empty or name == "update_levels_seq")
        ctx.ob(rule, "%s:%s" % (rule, name), ok,
               "%s (%s): %s" % (name, F.where(fid), "relabels exactly the levels whose stale number differs from their position" if ok else
                                "; ".join(sorted(set(problems))) or "comparison / emptiness test not found"))
    return n
