"""E-PERM: the in-place permutation loop of `set_var_order_common` keeps its invariant.

The second step of `set_var_order` moves whole levels (`LevelView::swap`) until `target_order[k] == k` for every
position: a cycle-following loop over a position counter `i`.  Its correctness rests on the invariant "all positions
before `i` already hold their final level", which is preserved only if the counter advances on no other path than
the one on which the element at the current position was found to be in place (`target_order[i] == i`).  A counter
that also advances after a swap is right for fixed points and cycles of length <= 3 and wrong for longer cycles.
From MIR of the closure:
  guard     every increment of the position counter is reachable from the loop head only through the "equal" edge
            of a comparison between the counter and the element loaded for the current position;
  swap3     on the other edge the level views, `to_pre` and `target_order` are swapped at the same pair of
            positions (the three tables stay in step).
This decides the loop-invariant shape, not the permutation arithmetic itself.
"""
import re

from lib import cfg

FN_PREFIX = "oxidd_reorder::set_var_order::set_var_order_common::{closure#"


def find_body(F):
    for fid in sorted(F.mir):
        if fid.startswith(FN_PREFIX) and fid.count("{closure#") == 1:
            names = [l.get("n") for l in F.mir[fid]["locals"]]
            if "i" in names and "j" in names and "to_pre" in names:
                return fid
    return None


def _loc(op):
    v = op.get("cp", op.get("mv")) if isinstance(op, dict) else None
    return v if isinstance(v, int) else (v.get("l") if isinstance(v, dict) and not v.get("p") else None)


def run(ctx, F, rule="E-PERM"):
    fid = find_body(F)
    if not ctx.anchor(rule, "set_var_order_common: closure with the level-permutation loop", fid is not None):
        return 0
    m = F.mir[fid]
    B = cfg.Body(m)
    where = F.where(fid)
    names = {i: l.get("n") for i, l in enumerate(m["locals"])}
    # the position counter of the while-loop is the *last* local named `i` (the for-loop above binds another `i`)
    i_locals = [k for k, n in names.items() if n == "i"]
    j_locals = [k for k, n in names.items() if n == "j"]
    # copies of i / j
    def closure_of(seed):
        s = set(seed)
        ch = True
        while ch:
            ch = False
            for bi in B.reach:
                for st in B.blocks[bi]["s"]:
                    rv = st.get("rv") or {}
                    if rv.get("k") in ("use", "cast") and isinstance(st.get("lhs"), int):
                        src = _loc(rv["op"])
                        if src in s and st["lhs"] not in s and names.get(st["lhs"]) is None:
                            s.add(st["lhs"])
                            ch = True
        return s
    # increments: `i = Add(i, 1)` (possibly through a checked add tuple)
    incs = []
    for bi in sorted(B.reach):
        b = B.blocks[bi]
        if b["c"]:
            continue
        for st in b["s"]:
            rv = st.get("rv") or {}
            if rv.get("k") in ("bin", "checked") and rv.get("o") in ("Add", "AddWithOverflow", "AddUnchecked"):
                a, bb = rv.get("a"), rv.get("b")
                if _loc(a) in i_locals and cfg.const_int(bb) == 1:
                    incs.append((bi, _loc(a)))
    ok = bool(incs)
    # comparisons between (copies of) the counter and (copies of) j
    problems = []
    n = 0
    for bi, il in incs:
        Ic, Jc = closure_of([il]), closure_of(j_locals)
        tests = []
        for ti in sorted(B.reach):
            b = B.blocks[ti]
            t = b.get("t") or {}
            if t.get("k") != "switch":
                continue
            d = _loc(t["d"])
            for st in b["s"]:
                rv = st.get("rv") or {}
                if st.get("lhs") == d and rv.get("k") == "bin" and rv.get("o") in ("Eq", "Ne"):
                    la, lb = _loc(rv["a"]), _loc(rv["b"])
                    if (la in Ic and lb in Jc) or (la in Jc and lb in Ic):
                        # switch: targets [[value, block]], otherwise
                        tv = {int(v): blk for v, blk in t["t"]}
                        other = t["o"]
                        if rv["o"] == "Eq":
                            eq_blk = other if 0 in tv else tv.get(1)
                            ne_blk = tv.get(0, other)
                        else:
                            eq_blk = tv.get(0, other)
                            ne_blk = other if 0 in tv else tv.get(1)
                        tests.append((ti, eq_blk, ne_blk))
        n += 1
        if not tests:
            problems.append("the increment of the position counter (bb%d) is not guarded by a comparison with the element "
                            "at the current position" % bi)
            continue
        for ti, eq_blk, ne_blk in tests:
            # from the "not equal" edge the increment must not be reachable without returning to the test
            if ne_blk is not None and bi in B.reachable_from(ne_blk, avoid=(ti,)):
                problems.append("the position counter is incremented (bb%d) on a path that leaves the test `j == i` through "
                                "its not-equal edge (after a swap): positions are skipped although the element that arrived "
                                "may still be out of place (wrong for permutation cycles longer than 3)" % bi)
            if eq_blk is None or not (bi == eq_blk or bi in B.reachable_from(eq_blk, avoid=(ti,))):
                problems.append("the increment (bb%d) is not on the equal edge of the test" % bi)
    ctx.ob(rule + ".guard", rule + ".guard:set_var_order_common", ok and not problems,
           "%s (%s): %s" % (F.nice(fid), where, "; ".join(problems) if problems else
                            ("%d increment(s) of the position counter, each only on the `element in place` edge" % len(incs)
                             if ok else "no increment of the position counter found")))
    # the three swaps in one block chain
    swaps = [cfg.callee_name(B.blocks[bi]["t"]) or "" for bi in sorted(B.reach)
             if (B.blocks[bi].get("t") or {}).get("k") == "call" and not B.blocks[bi]["c"]]
    kinds = {"levels": any(re.search(r"LevelView::swap$|::swap$", s) and "LevelView" in s for s in swaps),
             "slices": sum(1 for s in swaps if re.search(r"slice::<impl \[T\]>::swap$|\[T\]>::swap$|::swap$", s) and "LevelView" not in s)}
    ok3 = kinds["levels"] and kinds["slices"] >= 2
    ctx.ob(rule + ".swap3", rule + ".swap3:set_var_order_common", ok3,
           "%s (%s): the level views, `to_pre` and `target_order` are swapped together (%s)" % (F.nice(fid), where, kinds))
    return n + 1
