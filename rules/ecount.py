"""E-COUNT.underflow: an unsigned counter that starts at the literal 0 and is only ever decremented.

A local `let mut n = 0` of an unsigned integer type whose every modification is `n -= ..` (no `+=`, no plain assignment, no
mutable borrow) underflows at its first modification: a panic in debug builds, a wrapped count near the type's maximum in
release builds (and whatever is sized or compared with it afterwards).  The rule reads the type-checked HIR of every
function (closures included: they share the parent's locals) for the modification sites and the MIR local table for the
type.  Expected number of matches on a correct tree: 0; the detector is run on a built-in positive example first.
"""
from lib import hirutil as H

RULE = "E-COUNT.underflow"
UNSIGNED = ("u8", "u16", "u32", "u64", "u128", "usize")


def _sites(body):
    """{lid: {"name", "ln", "ops": [..]}} for `let <bind> = 0` locals"""
    zero = {}
    for x in H.walk(body):
        if x.get("k") == "slet" and (x.get("p") or {}).get("k") == "bind" and "lid" in x["p"]:
            e = x.get("e") or {}
            while e.get("k") == "cast":
                e = e["e"]
            if e.get("k") == "lit" and e.get("t") == "int" and str(e.get("v")) == "0":
                zero[x["p"]["lid"]] = {"name": x["p"]["n"], "ops": [], "lines": []}
    if not zero:
        return zero
    for x in H.walk(body):
        k = x.get("k")
        if k in ("assignop", "assign"):
            l = x["l"]
            if l.get("k") == "path" and l.get("res") == "local" and l.get("lid") in zero:
                zero[l["lid"]]["ops"].append(x["o"] if k == "assignop" else "=")
                zero[l["lid"]]["lines"].append(x.get("ln"))
        elif k == "ref" and x.get("m"):
            t = x["e"]
            if t.get("k") == "path" and t.get("res") == "local" and t.get("lid") in zero:
                zero[t["lid"]]["ops"].append("&mut")
    return zero


def _only_decremented(info):
    return bool(info["ops"]) and all(o == "-=" for o in info["ops"])


_POSITIVE = {"k": "block", "s": [
    {"k": "slet", "p": {"k": "bind", "n": "n", "lid": 1, "by_ref": False}, "e": {"k": "lit", "t": "int", "v": "0"}},
    {"k": "semi", "e": {"k": "assignop", "o": "-=", "l": {"k": "path", "res": "local", "n": "n", "lid": 1, "ln": 2}, "r": {"k": "lit", "t": "int", "v": "1"}, "ln": 2}}]}
_NEGATIVE = {"k": "block", "s": _POSITIVE["s"] + [
    {"k": "semi", "e": {"k": "assignop", "o": "+=", "l": {"k": "path", "res": "local", "n": "n", "lid": 1, "ln": 3}, "r": {"k": "lit", "t": "int", "v": "1"}, "ln": 3}}]}


def run(ctx, F, crates, rule=RULE):
    pos = [i for i in _sites(_POSITIVE).values() if _only_decremented(i)]
    neg = [i for i in _sites(_NEGATIVE).values() if _only_decremented(i)]
    if not ctx.anchor(rule, "detector matches its built-in positive example and not the negative one", len(pos) == 1 and not neg):
        return 0
    n = 0
    for fid, h in sorted(F.hir.items()):
        if not fid.startswith(tuple(c + "::" for c in crates)) or "::{closure" in fid:
            continue
        m = F.mir.get(fid)
        for lid, info in sorted(_sites(h["body"]).items()):
            n += 1
            if not _only_decremented(info):
                continue
            tys = {l["ty"] for l in (m or {}).get("locals", []) if l.get("n") == info["name"]}
            for cf, cm in F.mir.items():
                if cf.startswith(fid + "::{closure"):
                    tys |= {l["ty"].lstrip("&").replace("mut ", "") for l in cm.get("locals", []) if l.get("n") == info["name"]}
            if not tys or not all(t in UNSIGNED for t in tys):
                continue
            ctx.ob(rule, "%s:%s:%s" % (rule, F.nice(fid), info["name"]), False,
                   "%s (%s): the unsigned counter `%s` starts at 0 and is only ever decremented (line %s): it underflows at its first "
                   "update" % (F.nice(fid), F.where(fid), info["name"], ", ".join(str(x) for x in info["lines"])))
    ctx.ob(rule, "%s:%s" % (rule, "+".join(crates)), True, "%d zero-initialised locals in %s: none is only decremented" % (n, ", ".join(crates)), nontrivial=n > 0)
    return n
