"""E-DDDMP.taint: integers read from a DDDMP file are range-checked before they can panic.

"Malformed input makes the importer return an error rather than panic" has a shape that is visible in the code: a
number decoded from the file (`decode_7bit`, `parse_*`) must not reach
  index   an indexing operation (`v[i]`: `Index::index` / `IndexMut::index_mut` call or MIR bounds check),
  sub     a subtraction (underflow panics with overflow checks; wraps to a huge value otherwise),
  alloc   an allocation size (`Vec::with_capacity`, `reserve`: capacity-overflow panic / allocation abort)
unless a comparison on that number (or a value computed from it) dominates the use, or the use goes through a
checked / clamping operation (`get`, `checked_sub`, `min`, `try_from`, ...).  MIR dataflow per function of
`oxidd_dump::dddmp::import`: taint is seeded at the decoding calls, propagated through copies, casts, arithmetic,
aggregates, `?` and non-sanitising calls, keyed by the seeding call so that a check on one number does not
excuse another.  Header count fields (`nnodes`, `nroots`, ...) are seeds for the allocation sink only (the other
header fields are validated in `DumpHeader::load`, which is outside this intra-procedural rule).
"""
import re

from lib import cfg

MOD = "oxidd_dump::dddmp::import::"
SOURCES = re.compile(r"::(decode_7bit|parse_u32|parse_usize|parse_single_u32|parse_single_usize|parse_u32_list|parse_edge_list)$")
COUNT_FIELDS = ("nnodes", "nroots", "nvars", "nsuppvars")
CMP = ("Lt", "Le", "Gt", "Ge", "Eq", "Ne")
CLAMPS = re.compile(r"::(min|checked_sub|checked_add|checked_mul|get|get_mut|try_from|try_into|saturating_sub|clamp|"
                    r"is_sorted_by|is_sorted|len|is_empty|contains|eq|ne|lt|le|gt|ge|cmp|partial_cmp)$")
INDEX = re.compile(r"ops::Index(Mut)?(<.*>)?>?::index(_mut)?$|::index$|::index_mut$")
ALLOC = re.compile(r"::(with_capacity|reserve|reserve_exact|resize|resize_with)$")


def _locals_in(x):
    out = set()
    if isinstance(x, dict):
        for k in ("cp", "mv"):
            if k in x:
                v = x[k]
                out.add(v if isinstance(v, int) else v.get("l"))
        if isinstance(x.get("p"), dict) and "l" in x["p"]:
            out.add(x["p"]["l"])
        elif "l" in x and "p" in x and isinstance(x["p"], list):
            out.add(x["l"])
            for e in x["p"]:
                if isinstance(e, dict):
                    out |= _locals_in(e)
        for k, v in x.items():
            if k not in ("cp", "mv", "lhs"):
                out |= _locals_in(v)
    elif isinstance(x, list):
        for v in x:
            out |= _locals_in(v)
    out.discard(None)
    return out


def _fields_read(x):
    out = set()
    if isinstance(x, dict):
        v = x.get("cp", x.get("mv"))
        if isinstance(v, dict):
            for e in v.get("p", []):
                if isinstance(e, str) and e.startswith("."):
                    out.add(e[1:].split("@")[0])
        for vv in x.values():
            out |= _fields_read(vv)
    elif isinstance(x, list):
        for vv in x:
            out |= _fields_read(vv)
    return out


def analyse(F, fid):
    m = F.mir[fid]
    B = cfg.Body(m)
    blocks = [i for i in sorted(B.reach) if not m["blocks"][i]["c"]]
    taint = {}       # local -> set of origins
    changed = True

    def add(l, origins):
        nonlocal changed
        if l is None or not origins:
            return
        cur = taint.setdefault(l, set())
        if not origins <= cur:
            cur |= origins
            changed = True
    while changed:
        changed = False
        for i in blocks:
            b = m["blocks"][i]
            for s in b["s"]:
                lhs = s.get("lhs")
                l = lhs if isinstance(lhs, int) else (lhs.get("l") if isinstance(lhs, dict) else None)
                rv = s.get("rv")
                if rv is None:
                    continue
                org = set()
                for x in _locals_in(rv):
                    org |= taint.get(x, set())
                for f in _fields_read(rv):
                    if f in COUNT_FIELDS:
                        org.add(("field", f))
                add(l, org)
            t = b.get("t") or {}
            if t.get("k") == "call":
                cn = cfg.callee_name(t) or ""
                d = t.get("d")
                dl = d if isinstance(d, int) else (d.get("l") if isinstance(d, dict) else None)
                if SOURCES.search(cn):
                    add(dl, {("call", i)})
                elif not CLAMPS.search(cn) or re.search(r"::(checked_sub|checked_add|checked_mul|try_from|try_into|saturating_sub)$", cn):
                    org = set()
                    for x in _locals_in(t.get("a")):
                        org |= taint.get(x, set())
                    add(dl, org)
    # comparisons: block -> origins compared there
    compared = {}
    for i in blocks:
        b = m["blocks"][i]
        org = set()
        for s in b["s"]:
            rv = s.get("rv") or {}
            if rv.get("k") == "bin" and rv.get("o") in CMP:
                for x in _locals_in([rv.get("a"), rv.get("b")]):
                    org |= taint.get(x, set())
        t = b.get("t") or {}
        if t.get("k") == "call" and re.search(r"::(lt|le|gt|ge|eq|ne|cmp|partial_cmp|contains|min|checked_sub|get|get_mut|try_from|try_into)$",
                                              cfg.callee_name(t) or ""):
            for x in _locals_in(t.get("a")):
                org |= taint.get(x, set())
        if org:
            compared[i] = org
    sinks = []
    for i in blocks:
        b = m["blocks"][i]
        t = b.get("t") or {}

        def unsanitised(ops, kinds):
            org = set()
            for x in _locals_in(ops):
                org |= taint.get(x, set())
            org = {o for o in org if o[0] in kinds}
            left = set(org)
            for c, corg in compared.items():
                if c != i and B.dominates(c, i):
                    left -= corg
            return left
        if t.get("k") == "call":
            cn = cfg.callee_name(t) or ""
            if INDEX.search(cn) and len(t.get("a") or []) >= 2:
                left = unsanitised(t["a"][1:], ("call",))
                if left is not None:
                    sinks.append(("index", i, t.get("ln"), left, cn))
            elif ALLOC.search(cn) and t.get("a"):
                left = unsanitised(t["a"][1:] if len(t["a"]) > 1 else t["a"], ("call", "field"))
                sinks.append(("alloc", i, t.get("ln"), left, cn))
        if t.get("k") == "assert" and "BoundsCheck" in str(t.get("msg")):
            mm = re.search(r"index: (?:copy|move) _(\d+)", t["msg"])
            if mm:
                left = unsanitised([{"cp": int(mm.group(1))}], ("call",))
                sinks.append(("index", i, None, left, "bounds check"))
        for s in b["s"]:
            rv = s.get("rv") or {}
            if rv.get("k") in ("bin", "checked") and str(rv.get("o", "")).startswith("Sub"):
                left = unsanitised([rv.get("a"), rv.get("b")], ("call",))
                tainted_b = any(taint.get(x) for x in _locals_in([rv.get("b")]))
                if tainted_b:
                    sinks.append(("sub", i, None, left, "subtraction"))
    return m, sinks, len(taint)


def run(ctx, F, rule="E-DDDMP.taint"):
    n = 0
    nt = 0
    fns = [fid for fid in sorted(F.mir) if fid.startswith(MOD)]
    if not ctx.anchor(rule, "functions of dddmp::import", len(fns) >= 20):
        return 0
    for fid in fns:
        m, sinks, ntaint = analyse(F, fid)
        nt += ntaint
        nice = re.sub(r"\{closure#\d+\}", "{closure}", F.nice(fid))
        seen = {}
        for kind, blk, ln, left, what in sinks:
            n += 1
            key = "%s:%s:%s:%s" % (rule, nice, kind, what.rsplit("::", 1)[-1])
            ok = not left
            if key in seen and seen[key] is False:
                continue
            seen[key] = ok
            ctx.ob(rule, key, ok,
                   "%s (%s%s): %s" % (nice, F.where(fid), ", line %s" % ln if ln else "",
                                      "file-derived number is range-checked before this %s" % kind if ok else
                                      {"index": "a number decoded from the file is used as an index without a dominating range check: "
                                                "malformed input panics (index out of bounds) instead of being rejected",
                                       "sub": "a number decoded from the file is subtracted without a dominating comparison or "
                                              "checked_sub: malformed input underflows (panic with overflow checks)",
                                       "alloc": "a count read from the file is used as an allocation size without clamping: a "
                                                "corrupted count panics (capacity overflow) or aborts (allocation failure)"}[kind]),
                   nontrivial=bool(left) or True)
    ctx.floor(rule, "tainted locals tracked", nt, 20)
    return n


def check_dead_overflow_checks(ctx, F, rule="E-DDDMP.deadcheck"):
    """`x.checked_shl(k)` / `checked_shr(k)` return None only when k >= the bit width -- never because bits are shifted
    out.  With a constant k below the bit width the None arm is dead: an "integer too large" error guarded by it can
    never be reported and over-long numbers wrap silently.  No such call may occur in oxidd-dump."""
    n = bad = 0
    for fid, m in sorted(F.mir.items()):
        if not fid.startswith("oxidd_dump::"):
            continue
        n += 1
        for i, t in cfg.Body(m).calls():
            cn = cfg.callee_name(t) or ""
            if re.search(r"::checked_sh[lr]$", cn) and len(t.get("a") or []) == 2:
                k = cfg.const_int(t["a"][1])
                if k is not None and 0 <= k < 32:
                    bad += 1
                    ctx.ob(rule, "%s:%s" % (rule, F.nice(fid)), False,
                           "%s (%s, line %s): `%s` with the constant amount %d can never return None: the overflow branch it "
                           "guards is dead and shifted-out bits are lost silently" % (F.nice(fid), F.where(fid), t.get("ln"),
                                                                                      cn.rsplit("::", 1)[-1], k))
    if not bad:
        ctx.ob(rule, rule + ":oxidd_dump", True, "no checked_shl/checked_shr with a constant in-range amount in %d bodies" % n)
    return n


def check_prefix_direction(ctx, F, rule="E-DDDMP.prefix"):
    """`input.starts_with(token)` asks whether the input begins with the expected token; with receiver and argument
    swapped (`token.starts_with(input)`) every *prefix of the token* -- in particular a truncated or empty rest of
    the file -- is accepted.  In dddmp::import, wherever exactly one side of a starts_with / ends_with / strip_prefix /
    strip_suffix is a buffer filled from the file (`read_to_end`, `read_until`, `read_line`, `read_exact`), that side
    must be the receiver."""
    from lib import hirutil as H
    TRANSPARENT = ("trim_ascii", "trim_ascii_start", "trim_ascii_end", "as_slice", "as_ref", "borrow", "deref", "trim", "trim_start", "trim_end")
    n = 0
    for fid, h in sorted(F.hir.items()):
        if not fid.startswith(MOD):
            continue
        bufs = set()
        for c in H.walk(h["body"]):
            if c.get("k") == "mcall" and (c.get("name") or c.get("m", "").rsplit("::", 1)[-1]) in \
                    ("read_to_end", "read_until", "read_line", "read_exact", "read_to_string"):
                for a in c.get("a", []):
                    l = H.root_local(a)
                    if l:
                        bufs.add(l)
        if not bufs:
            continue
        for c in H.walk(h["body"]):
            nm = c.get("name") or (c.get("m", "").rsplit("::", 1)[-1] if c.get("k") == "mcall" else "")
            if c.get("k") == "mcall" and nm in ("starts_with", "ends_with", "strip_prefix", "strip_suffix") and c.get("a"):
                def root(e):
                    while isinstance(e, dict) and e.get("k") == "mcall" and (e.get("name") in TRANSPARENT):
                        e = e["r"]
                    if isinstance(e, dict) and e.get("k") in ("ref", "use", "cast") and isinstance(e.get("e"), dict) \
                            and e["e"].get("k") == "mcall" and e["e"].get("name") in TRANSPARENT:
                        return root(e["e"])
                    return H.root_local(e)
                r = root(c["r"])
                a = root(c["a"][0])
                n += 1
                bad = (a in bufs) and (r not in bufs)
                ctx.ob(rule, "%s:%s:%s" % (rule, F.nice(fid), nm), not bad,
                       "%s (%s, line %s): %s" % (F.nice(fid), F.where(fid), c.get("ln"),
                                                 "the buffer read from the file is the receiver of `%s`" % nm if not bad else
                                                 "`%s.%s(%s)`: the buffer read from the file is the *argument*; every prefix of the "
                                                 "expected token (a truncated file) passes the check" % (r, nm, a)))
    return n
