"""E-IDX.tagbits: the tag-bit arithmetic of the index-based manager's edges.

An index-based edge is a 32 bit node id whose most significant `TAG_BITS` bits hold the user's edge tag (the complement
bit of a BCDD).  The three constants (`TAG_BITS`, `TAG_SHIFT`, `TAG_MASK`) and the accessors (`node_id`, `is_tagged`,
`with_tag`, `with_tag_owned`, `tag`, `node_id_unchecked`, `raw`) are interpreted from HIR for the two tag types in use:

  one tag bit (MAX_VALUE = 1)   TAG_BITS = 1, TAG_SHIFT = 31, TAG_MASK = 0x8000_0000;
  no tag      (MAX_VALUE = 0)   TAG_BITS = 0, TAG_SHIFT = 0,  TAG_MASK = 0;
  laws        node_id(e) = the id without the tag bits; is_tagged(e) <=> tag(e) != 0; tag(with_tag(e, t)) = t;
              with_tag / with_tag_owned change nothing but the tag bits; raw(e) is the stored value.
"""
import tables
from lib.interp import Enum, Interp, Opaque, Panic, Unrecognised, enumerate_runs

RULE = "E-IDX.tagbits"
BASE = "oxidd_manager_index::manager::"


class IEdge:
    def __init__(self, v):
        self.v = v

    def __repr__(self):
        return "edge#%x" % self.v


class IdxDomain(tables.DDDomain):
    def __init__(self, F, consts):
        super().__init__(F, tables.BDD)
        self.cv = consts

    def const(self, it, e):
        n = e.get("n") or ""
        if n.endswith("<impl usize>::BITS"):
            return 64
        if n.endswith("<impl u32>::BITS"):
            return 32
        for k, v in self.cv.items():
            if n.endswith("::" + k):
                return v
        return super().const(it, e)

    def self_ctor(self, it, args, env):
        return IEdge(args[0] & 0xffffffff)

    def call(self, it, name, f, args_e, env, e):
        n = f.get("did") or f.get("n", "")
        if n.endswith("panicking::panic_fmt") or n.endswith("panicking::panic"):
            raise Panic("assertion failed (line %s)" % e.get("ln"))
        if (f.get("n") or "").endswith("Borrowed::<'a, H>::new") or (f.get("n") or "").endswith("::from_usize"):
            return [it.ev(a, env) for a in args_e][0]
        return super().call(it, name, f, args_e, env, e)

    def field(self, it, v, n):
        if isinstance(v, IEdge) and n == "0":
            return v.v
        return None

    def field_assign(self, it, base, n, v):
        if isinstance(base, IEdge) and n == "0":
            base.v = v & 0xffffffff
            return True
        return False

    def unop(self, it, o, v):
        if o == "!" and isinstance(v, int) and not isinstance(v, bool):
            return ~v & 0xffffffff
        return super().unop(it, o, v)

    def method(self, it, m, e, env):
        name = m.rsplit("::", 1)[-1]
        recv = it.recv(e, env)
        if isinstance(recv, int) and not isinstance(recv, bool):
            if name == "leading_zeros":
                return 64 - recv.bit_length()
            if name == "as_usize":
                return recv
        if isinstance(recv, IEdge):
            fid = next((f for f in self.F.hir if f.startswith(BASE) and f.endswith("::" + name) and "Edge<" in self.F.nice(f)), None)
            if fid:
                return it.call_fn(fid, [recv] + it.args(e, env))
        return super().method(it, m, e, env)


def run(ctx, F, rule=RULE):
    n = 0
    inh, tr = {}, {}
    for f in F.hir:
        if f.startswith(BASE) and "Edge<" in F.nice(f):
            t = (F.fns[f].get("impl") or {}).get("trait")
            (tr if t == "oxidd_core::Edge" else inh if t is None else {}).setdefault(f.rsplit("::", 1)[-1], f)
    need_i, need_t = ("node_id", "is_tagged", "raw", "node_id_unchecked"), ("with_tag", "with_tag_owned", "tag")
    if not ctx.anchor(rule, "index Edge accessors", all(k in inh for k in need_i) and all(k in tr for k in need_t)):
        return 0
    cids = {c: next((k for k in F.consts if k.startswith(BASE) and k.endswith("::" + c) and "body" in F.consts[k]), None)
            for c in ("TAG_BITS", "TAG_SHIFT", "TAG_MASK")}
    if not ctx.anchor(rule, "constants TAG_BITS / TAG_SHIFT / TAG_MASK", all(cids.values())):
        return 0
    for maxv, want in ((1, {"TAG_BITS": 1, "TAG_SHIFT": 31, "TAG_MASK": 0x80000000}), (0, {"TAG_BITS": 0, "TAG_SHIFT": 0, "TAG_MASK": 0})):
        cv = {"MAX_VALUE": maxv}
        fails = []
        for cname in ("TAG_BITS", "TAG_SHIFT", "TAG_MASK"):
            def mk(oracle):
                return Interp(F, IdxDomain(F, dict(cv)), oracle)
            for trace, (status, val) in enumerate_runs(mk, lambda it: it.ev(F.consts[cids[cname]]["body"], {"$consts": {}, "$fn": cids[cname], "$mut": {}})):
                n += 1
                if status != "ok" or val != want[cname]:
                    fails.append("%s evaluates to %s %r, expected %#x" % (cname, status, val, want[cname]))
            cv[cname] = want[cname]
        mask = want["TAG_MASK"]

        def call(fid, *args):
            def mk(oracle):
                return Interp(F, IdxDomain(F, dict(cv)), oracle)
            outs = list(enumerate_runs(mk, lambda it: it.call_fn(fid, list(args))))
            if len(outs) != 1 or outs[0][1][0] != "ok":
                raise Unrecognised("%s: %r" % (fid.rsplit("::", 1)[-1], outs[0][1] if outs else None))
            v = outs[0][1][1]
            return v.v if isinstance(v, IEdge) else v
        try:
            for idv in (0, 1, 5, 0x7ffffffe):
                for tg in range(maxv + 1):
                    raw = idv | (tg << 31 if maxv else 0)
                    n += 1
                    got = call(inh["node_id"], IEdge(raw))
                    if got != idv:
                        fails.append("node_id(%#x) = %r, expected %#x" % (raw, got, idv))
                    got = call(inh["is_tagged"], IEdge(raw))
                    if got is not (tg != 0):
                        fails.append("is_tagged(%#x) = %r" % (raw, got))
                    got = call(tr["tag"], IEdge(raw))
                    if got != tg:
                        fails.append("tag(%#x) = %r, expected %d" % (raw, got, tg))
                    got = call(inh["raw"], IEdge(raw))
                    if got != raw:
                        fails.append("raw(%#x) = %r" % (raw, got))
                    if tg == 0:
                        got = call(inh["node_id_unchecked"], IEdge(raw))
                        if got != idv:
                            fails.append("node_id_unchecked(%#x) = %r" % (raw, got))
                    for t2 in range(maxv + 1):
                        w = idv | (t2 << 31 if maxv else 0)
                        for nm in ("with_tag", "with_tag_owned"):
                            got = call(tr[nm], IEdge(raw), t2)
                            if got != w:
                                fails.append("%s(%#x, %d) = %s, expected %#x" % (nm, raw, t2, "%#x" % got if isinstance(got, int) else got, w))
        except Unrecognised as u:
            fails.append("not interpretable: %s" % u)
        except Panic as pn:
            fails.append("panic: %s" % pn.msg)
        ctx.ob(rule, "%s:max%d" % (rule, maxv), not fails, "index-based Edge with tag MAX_VALUE = %d (%s): %s" % (
            maxv, F.where(tr["with_tag"]), " || ".join(fails[:3]) if fails else "masks %r; tag / untag / node_id agree on all sampled ids" % (want,)))
    return n
