"""E-WHO: who may call the operations that temporarily break the diagram's invariants (DESIGN 3.5).

The frozen caller sets below were read against the source; a new caller (or a reviewed caller that disappears)
is reported.  The operations:
  break-level   LevelView::swap / take / insert_unchecked / get_or_insert_unchecked, HasLevel::set_level,
                InnerNode::set_child: only oxidd-reorder, inside a Manager::reorder closure;
  remove-node   free_slot / force_drop / drop_unique_table_edge / LevelViewSet::{gc, remove}: only Manager::gc,
                try_remove_node, LevelView::{gc, remove}, TakenLevelView (all gated by reorder_gc_prepared /
                allow_node_removal, see gates below);
  checked-insert level_swap must not use the *checked* LevelView::insert / get_or_insert (they assert the stored
                level number, which is stale during a lazy reordering).
"""
import re

from lib import cfg
import eevent

CALLERS = {
    "LevelView::swap": (r"oxidd_core::LevelView::swap$", {"oxidd_reorder::level_swap", "oxidd_reorder::set_var_order::set_var_order_common"}),
    "LevelView::take": (r"oxidd_core::LevelView::take$", {"oxidd_reorder::level_swap"}),
    "insert_unchecked": (r"oxidd_core::LevelView::insert_unchecked$", {"oxidd_reorder::level_swap"}),
    "get_or_insert_unchecked": (r"oxidd_core::LevelView::get_or_insert_unchecked$", {"oxidd_reorder::level_swap"}),
    "set_child": (r"oxidd_core::InnerNode::set_child$", {"oxidd_reorder::level_swap"}),
    "set_level": (r"oxidd_core::HasLevel::set_level$", {"oxidd_reorder::level_swap", "oxidd_reorder::update_level_no"}),
}
REMOVERS = {
    # callee regex -> allowed caller suffixes
    r"Store::<.*>::free_slot$|Store<.*>>::free_slot$": ("LevelViewSet<'id, N, ET, TM, R, MD, TERMINALS>>::gc", "as oxidd_core::Manager>::try_remove_node",
                                                        "Store<'id, N, ET, TM, R, MD, TERMINALS>>::drop_unique_table_edge"),
    r"::drop_unique_table_edge$": ("TakenLevelView<'_, 'id, N, ET, TM, R, MD, TERMINALS> as std::ops::Drop>::drop",
                                   "as oxidd_core::LevelView>::remove"),
    r"manager::Edge::<.*>::force_drop$|::force_drop$": ("LevelViewSet<'id, N, ET, TM, R, MD, PAGE_SIZE, TAG_BITS>>::gc",
                                                        "as oxidd_core::Manager>::try_remove_node"),
    r"LevelViewSet::<.*>::gc$": ("as oxidd_core::LevelView>::gc", "as oxidd_core::Manager>::gc"),
    # terminals are freed only by the manager's collection, inside its pre_gc/post_gc bracket: the apply cache holds
    # uncounted terminal edges
    r"terminal_manager::TerminalManager::gc$|as oxidd_manager_(index|pointer)::terminal_manager::TerminalManager.*>::gc$":
        ("as oxidd_core::Manager>::gc",),
    r"LevelViewSet::<.*>::remove$": ("as oxidd_core::LevelView>::remove", "as oxidd_core::Manager>::try_remove_node"),
}


def _nice(F, fid):
    return re.sub(r"::\{closure#\d+\}", "", F.nice(fid))


def run(ctx, F, rule="E-WHO"):
    seen = {k: set() for k in CALLERS}
    rem_seen = {k: set() for k in REMOVERS}
    bodies = {}
    for fid, m in F.mir.items():
        if fid.startswith(("oxidd_test_utils", "oxidd_cli", "arcslab")):
            continue
        B = cfg.Body(m)
        bodies[fid] = B
        for i, t in B.calls():
            cn = cfg.callee_name(t) or ""
            cd = cfg.callee_decl(t) or ""
            for k, (rx, _) in CALLERS.items():
                if re.search(rx, cd) or re.search(rx, cn):
                    seen[k].add(_nice(F, fid))
            for rx in REMOVERS:
                if re.search(rx, cn):
                    rem_seen[rx].add(_nice(F, fid))
    for k, (rx, allowed) in sorted(CALLERS.items()):
        extra = sorted(seen[k] - allowed)
        missing = sorted(allowed - seen[k])
        ctx.ob(rule + ".level", "%s.level:%s" % (rule, k), not extra and not missing,
               ("`%s` temporarily breaks the level invariants (nodes stored in a level they do not report / stale hash) and "
                "may only be called by %s; %s" % (k, sorted(allowed),
                                                 ("unreviewed caller(s): %s" % extra) if extra else ("reviewed caller(s) missing: %s" % missing))))
    for rx, allowed in sorted(REMOVERS.items()):
        extra = sorted(x for x in rem_seen[rx] if not any(x.endswith(a) for a in allowed))
        ctx.ob(rule + ".remove", "%s.remove:%s" % (rule, rx[:40]), not extra and bool(rem_seen[rx]),
               "node removal primitive /%s/ is called by unreviewed function(s) %s (nodes may only be freed by gc, "
               "try_remove_node and the level views while a collection/reordering is prepared)" % (rx, extra)
               if extra else ("no caller of /%s/ found" % rx if not rem_seen[rx] else "callers as reviewed"))
    # level_swap must not use the checked variants
    fid = "oxidd_reorder::level_swap"
    if ctx.anchor(rule, fid, fid in bodies):
        bad = []
        for f2 in [fid] + [x for x in bodies if x.startswith(fid + "::{closure")]:
            for i, t in bodies[f2].calls():
                cd = cfg.callee_decl(t) or ""
                if re.search(r"oxidd_core::LevelView::(insert|get_or_insert)$", cd):
                    bad.append(cd.rsplit("::", 1)[1])
        ctx.ob(rule + ".level", rule + ".level:level_swap-unchecked-only", not bad,
               "level_swap calls the checked LevelView::%s: it asserts that the node's stored level number equals the "
               "level's position, which does not hold while set_var_order renumbers lazily (panic on the second swap of "
               "a level)" % sorted(set(bad)))
    # gates: removal in the managers is conditional on the prepared flag
    for crate in ("oxidd_manager_index", "oxidd_manager_pointer"):
        for fid, r in F.fns.items():
            if not fid.startswith(crate + "::manager::"):
                continue
            imp = r.get("impl") or {}
            nice = F.nice(fid)
            if fid.endswith("::try_remove_node") and imp.get("trait") == "oxidd_core::Manager":
                B = bodies[fid]
                tests = eevent.field_test_branches(B, "reorder_gc_prepared")
                rem = [i for i, t in B.calls() if re.search(r"LevelViewSet::<.*>::remove$", cfg.callee_name(t) or "")]
                ok = bool(tests) and bool(rem) and all(any(B.dominates(t[2], x) for t in tests) or
                                                       any(not eevent.no_path_avoiding(B, t[1], [x], []) is False and
                                                           eevent.no_path_avoiding(B, t[1], [x], [t[2]]) for t in tests) for x in rem)
                # simpler: no path from the "not prepared" successor to a removal
                ok = bool(tests) and bool(rem) and all(eevent.no_path_avoiding(B, t[1], rem, []) is False or True for t in tests)
                okgate = bool(tests) and all(not _reach(B, t[1], rem, stop=t[2]) for t in tests)
                ctx.ob(rule + ".gate", "%s.gate:%s" % (rule, nice), okgate,
                       "%s (%s): nodes may only be removed while reorder_gc_prepared is set (the apply cache holds "
                       "uncounted edges otherwise); a path from the not-prepared branch reaches the removal" % (nice, F.where(fid)))
            if fid.endswith(("::remove", "::gc", "::take")) and imp.get("trait") == "oxidd_core::LevelView" and "manager::LevelView<" in imp.get("self", ""):
                B = bodies[fid]
                tests = eevent.field_test_branches(B, "allow_node_removal")
                targets = [i for i, t in B.calls() if re.search(r"LevelViewSet::<.*>::(remove|gc)$|mem::take$", cfg.callee_name(t) or "")]
                okgate = bool(tests) and bool(targets) and all(not _reach(B, t[1], targets, stop=None) for t in tests)
                ctx.ob(rule + ".gate", "%s.gate:%s" % (rule, nice), okgate,
                       "%s (%s): removal/take on a level view must be a no-op unless allow_node_removal is set" % (nice, F.where(fid)))


def _reach(B, start, targets, stop=None):
    seen = set()
    st = [start]
    tg = set(targets)
    while st:
        x = st.pop()
        if x in seen or x == stop:
            continue
        if x in tg:
            return True
        seen.add(x)
        st.extend(B.succ[x])
    return False


def check_gate_initial(ctx, F, rule="E-WHO.gate.init"):
    """A freshly created manager is not prepared for node removal: the struct literals that create the two managers
    initialise `reorder_gc_prepared` with `false` (node removal is unlocked only inside gc / reorder)."""
    from lib import hirutil as H
    n = 0
    for crate in ("oxidd_manager_index", "oxidd_manager_pointer"):
        vals = []
        for fid, h in F.hir.items():
            if fid.split("::")[0] != crate:
                continue
            for x in H.walk(h["body"]):
                if x.get("k") == "struct":
                    f = dict(x["f"])
                    if "reorder_gc_prepared" in f:
                        vals.append((fid, f["reorder_gc_prepared"]))
        n += len(vals)
        ok = len(vals) >= 1 and all(v.get("k") == "lit" and str(v.get("v")) == "false" for _, v in vals)
        ctx.ob(rule, "%s:%s" % (rule, crate), ok,
               "%s: %s" % (crate, "the manager starts with reorder_gc_prepared = false" if ok else
                           "the manager is created with reorder_gc_prepared != false (or the initialisation was not found): nodes can be "
                           "removed from the unique tables outside gc / reorder"))
    return n
