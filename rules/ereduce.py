"""E-TABLE.reduce: the reduction rules of each diagram kind, interpreted from HIR.

`reduce(manager, level, children..)` is the funnel through which nodes are
created by the apply algorithms and by level_swap.  For all abstract children
(terminals, two opaque nodes, with complement tags for BCDDs) the function is
interpreted and its result must be (1) the kind's reduction (equal children /
empty hi-child => no node), (2) otherwise a node of the requested level, inserted
into the view of that level, whose children denote the cofactors in order, and
(3) for complement-edge diagrams in canonical form (then-edge untagged) with the
complement moved to the returned edge such that the denoted function is
unchanged.
"""
import itertools

import tables
from lib.interp import Edge, Enum, Interp, Opaque, Panic, Return, Unrecognised, enumerate_runs
from tables import DDDomain, OK, SOME, NONE

ETAG = "oxidd_rules_bdd::complement_edge::EdgeTag"


class IterObj:
    def __init__(self, items):
        self.items = list(items)
        self.pos = 0


class ReduceDomain(DDDomain):
    def __init__(self, F, kind):
        super().__init__(F, kind)
        self.dropped = []

    def unop(self, it, o, v):
        if o == "!" and isinstance(v, Enum) and v.path.startswith(ETAG):
            fid = self._find_impl_fn("std::ops::Not", ETAG, "not")
            if fid:
                return it.call_fn(fid, [v])
        return super().unop(it, o, v)

    def equal(self, it, a, b):
        if a is None and b is None:
            return True
        if (a is None) != (b is None) and (isinstance(a, Enum) or isinstance(b, Enum)):
            # `None` stands for the default (untagged) tag
            x = a if a is not None else b
            return isinstance(x, Enum) and x.short == "None"
        return super().equal(it, a, b)

    def call(self, it, name, f, args_e, env, e):
        did = f.get("did", "")
        n = f.get("n", "")
        if did.endswith("IntoIterator::into_iter") or n.endswith("IntoIterator::into_iter"):
            (a,) = [it.ev(x, env) for x in args_e]
            if isinstance(a, (tuple, list)):
                return IterObj(a)
            if isinstance(a, IterObj):
                return a
            raise Unrecognised("into_iter of %r" % (a,))
        if did == "oxidd_core::LevelView::get_or_insert" or n.endswith("LevelView::get_or_insert"):
            view, node = [it.ev(x, env) for x in args_e]
            return Enum(OK, [self.insert(view, node)])
        if did == "oxidd_core::InnerNode::new" or n.endswith("InnerNode::new"):
            level, children = [it.ev(x, env) for x in args_e]
            return ("node", level, tuple(children))
        if n.endswith("Default::default"):
            return None
        if did == "oxidd_core::DiagramRules::reduce":
            crate = (env.get("$fn") or "").split("::")[0]
            target = None
            for fid2, r2 in self.F.fns.items():
                imp = r2.get("impl") or {}
                if fid2.startswith(crate + "::") and imp.get("trait") == "oxidd_core::DiagramRules" and fid2.endswith("::reduce"):
                    target = fid2
            if target is None:
                raise Unrecognised("no DiagramRules::reduce impl in %s" % crate)
            return it.call_fn(target, [it.ev(x, env) for x in args_e])
        if "EdgeDropGuard" in n and n.endswith("::new"):
            args = [it.ev(x, env) for x in args_e]
            return args[1]
        return super().call(it, name, f, args_e, env, e)

    def insert(self, view, node):
        if not (isinstance(view, tuple) and view and view[0] == "levelview"):
            raise Unrecognised("get_or_insert on %r" % (view,))
        if not (isinstance(node, tuple) and node and node[0] == "node"):
            raise Unrecognised("get_or_insert of %r" % (node,))
        return Edge(("NEW", view[1], node[1], node[2]), self.default_tag())

    def default_tag(self):
        return Enum(ETAG + "::None") if self.kind is BCDD_KIND else None

    def method(self, it, m, e, env):
        if m == "oxidd_core::Manager::drop_edge":
            it.recv(e, env)
            (x,) = it.args(e, env)
            self.dropped.append(x)
            return ()
        if m in ("oxidd_core::Manager::level", "oxidd_core::Manager::level_unchecked"):
            it.recv(e, env)
            (lvl,) = it.args(e, env)
            return ("levelview", lvl)
        if m.endswith("IntoIterator::into_iter"):
            r = it.recv(e, env)
            if isinstance(r, (tuple, list)):
                return IterObj(r)
            if isinstance(r, IterObj):
                return r
        if m.endswith("Iterator::next") or m.endswith("::next"):
            r = it.recv(e, env)
            if isinstance(r, IterObj):
                if r.pos < len(r.items):
                    r.pos += 1
                    return Enum(SOME, [r.items[r.pos - 1]])
                return Enum(NONE)
        if m.endswith("EdgeDropGuard::<'a, M>::into_edge"):
            return it.recv(e, env)
        if m.endswith("ReducedOrNew::<E, N>::then_insert"):
            r = it.recv(e, env)
            args = it.args(e, env)
            if isinstance(r, Enum) and r.short == "New":
                node, tag = r.args
                edge = self.insert(("levelview", args[1]), node)
                return Enum(OK, [Edge(edge.node, tag if tag is not None else edge.tag)])
            if isinstance(r, Enum) and r.short == "Reduced":
                return Enum(OK, [r.args[0]])
        if m in ("oxidd_core::Edge::with_tag", "oxidd_core::Edge::with_tag_owned"):
            r = it.recv(e, env)
            (tag,) = it.args(e, env)
            return Edge(r.node, tag)
        if m == "oxidd_core::Edge::tag":
            return it.recv(e, env).tag
        return super().method(it, m, e, env)


BCDD_KIND = tables.Kind("bcdd", "oxidd_rules_bdd::complement_edge::BCDDTerminal", {"BCDDTerminal": 1}, None, 2,
                        lambda v: 1 - v)


def universe(kind):
    if kind is BCDD_KIND:
        nodes = [("T", Enum("oxidd_rules_bdd::complement_edge::BCDDTerminal")), ("N", "x"), ("N", "y")]
        tags = [Enum(ETAG + "::None"), Enum(ETAG + "::Complemented")]
        return [Edge(n, t) for n in nodes for t in tags]
    return tables.universe(kind)


def complemented(e):
    return isinstance(e.tag, Enum) and e.tag.short == "Complemented"


def den(kind, e, val):
    """Boolean denotation (bdd / bcdd)"""
    n = e.node
    if n[0] == "N":
        v = val[n[1]]
    elif n[0] == "T":
        t = n[1]
        v = 1 if kind is BCDD_KIND else kind.term_values[t.short]
    elif n[0] == "NEW":
        c = n[3]
        v = den(kind, c[0], val) if val["v"] else den(kind, c[1], val)
    else:
        raise Unrecognised("edge %r" % (e,))
    return 1 - v if complemented(e) else v


def label(e):
    if e.node[0] == "NEW":
        return "node@%s(%s)" % (e.node[2], ", ".join(label(c) for c in e.node[3]))
    s = tables.edge_label(e) if e.node[0] != "T" or not isinstance(e.node[1], Enum) or e.node[1].short != "BCDDTerminal" else "T"
    return ("!" if complemented(e) else "") + s


def check_reduce(ctx, F, rule, fid, kind, arity, shape, zero_suppressed=False, wrap=None):
    """shape: 'free'  -> fn(manager, level, c0, .., op) -> AllocResult<Edge>
              'rules' -> DiagramRules::reduce(manager, level, children) -> ReducedOrNew"""
    if not ctx.anchor(rule, fid, fid in F.hir):
        return 0
    nice = F.nice(fid)
    where = F.where(fid)
    U = universe(kind)
    n = 0
    fails = []
    LEVEL = 7
    for cs in itertools.product(U, repeat=arity):
        holder = {}

        def mk(oracle):
            d = ReduceDomain(F, kind)
            holder["d"] = d
            return Interp(F, d, oracle)

        def run(it):
            if shape == "free":
                return it.call_fn(fid, [Opaque("manager"), LEVEL] + list(cs) + [Opaque("op")])
            if shape == "free-borrowed":   # (manager, level, hi: Borrowed, lo, op)
                return it.call_fn(fid, [Opaque("manager"), LEVEL] + list(cs) + [Opaque("op")])
            return it.call_fn(fid, [Opaque("manager"), LEVEL, tuple(cs)])
        for trace, (status, val) in enumerate_runs(mk, run):
            n += 1
            sit = "reduce(level, %s)" % ", ".join(label(c) for c in cs)
            key = "%s:%s:(%s)" % (rule, nice, ",".join(label(c) for c in cs))
            if status != "ok":
                fails.append("%s: %s %s" % (sit, status, val))
                ctx.ob(rule + ".case", key, False, "", report=False)
                continue
            r = val
            if isinstance(r, Enum) and r.path == OK:
                r = r.args[0]
            if isinstance(r, Enum) and r.short == "Reduced":
                r = r.args[0]
            elif isinstance(r, Enum) and r.short == "New":
                node, tag = r.args
                r = Edge(("NEW", LEVEL, node[1], node[2]), tag if tag is not None else holder["d"].default_tag())
            err = None
            if not isinstance(r, Edge):
                err = "result %r" % (r,)
            else:
                isnew = r.node[0] == "NEW"
                if zero_suppressed:
                    hi, lo = cs[0], cs[-1]
                    hi_empty = hi.node[0] == "T" and isinstance(hi.node[1], Enum) and hi.node[1].short == "Empty"
                    if arity == 1:
                        # reduce1(child): node (child, child) unless child is Empty
                        want_new = not hi_empty
                        if want_new != isnew:
                            err = "returns %s" % label(r)
                        elif isnew and tuple(r.node[3]) != (cs[0], cs[0]):
                            err = "children %s" % (label(r),)
                        elif not isnew and r != cs[0]:
                            err = "returns %s instead of the child" % label(r)
                    else:
                        if hi_empty and (isnew or r != lo):
                            err = "hi is the empty family but the result is %s instead of lo" % label(r)
                        elif not hi_empty and (not isnew or tuple(r.node[3]) != tuple(cs)):
                            err = "expected node(hi, lo), got %s" % label(r)
                else:
                    alleq = all(c == cs[0] for c in cs)
                    if alleq and (isnew or r != cs[0]):
                        err = "all children are equal but the result is %s (redundant node)" % label(r)
                    elif not alleq and not isnew:
                        err = "children differ but no node is created (returns %s)" % label(r)
                    elif not alleq and kind in (tables.BDD, BCDD_KIND):
                        for x, y, v in itertools.product((0, 1), repeat=3):
                            valn = {"x": x, "y": y, "v": v}
                            want = den(kind, cs[0], valn) if v else den(kind, cs[1], valn)
                            if den(kind, r, valn) != want:
                                err = "result %s denotes a different function than ite(v, %s, %s)" % (label(r), label(cs[0]), label(cs[1]))
                                break
                        if not err and kind is BCDD_KIND and complemented(r.node[3][0]):
                            err = "the new node's then-edge is complemented (%s): not in canonical form" % label(r)
                    elif not alleq and tuple(r.node[3]) != tuple(cs):
                        err = "children of the new node are %s, expected %s" % (label(r), [label(c) for c in cs])
                if not err and isnew and (r.node[1] != LEVEL or r.node[2] != LEVEL):
                    err = "node of level %r inserted into the view of level %r (requested level %r)" % (r.node[2], r.node[1], LEVEL)
            ctx.ob(rule + ".case", key, err is None, "%s -> %s" % (sit, label(r) if isinstance(r, Edge) else r), report=False)
            if err:
                fails.append("%s: %s" % (sit, err))
    ctx.ob(rule, "%s:%s" % (rule, nice), not fails,
           ("%s (%s): %d abstract situation(s) violate the reduction/canonical-form rules; first: %s"
            % (nice, where, len(fails), " || ".join(fails[:2]))) if fails else
           "%s: all situations reduce correctly" % nice)
    return n


def find_rules_reduce(F, crate_prefix):
    for fid, r in F.fns.items():
        imp = r.get("impl") or {}
        if fid.startswith(crate_prefix) and imp.get("trait") == "oxidd_core::DiagramRules" and fid.endswith("::reduce"):
            return fid
    return None


def run(ctx, F, kinds=("bdd", "bcdd", "zbdd", "mtbdd", "tdd"), rule="E-TABLE.reduce"):
    n = 0
    if "bdd" in kinds:
        n += check_reduce(ctx, F, rule, "oxidd_rules_bdd::simple::reduce", tables.BDD, 2, "free")
        fid = find_rules_reduce(F, "oxidd_rules_bdd::simple::")
        if ctx.anchor(rule, "BDDRules::reduce", fid):
            n += check_reduce(ctx, F, rule, fid, tables.BDD, 2, "rules")
    if "bcdd" in kinds:
        n += check_reduce(ctx, F, rule, "oxidd_rules_bdd::complement_edge::reduce", BCDD_KIND, 2, "free")
        fid = find_rules_reduce(F, "oxidd_rules_bdd::complement_edge::")
        if ctx.anchor(rule, "BCDDRules::reduce", fid):
            n += check_reduce(ctx, F, rule, fid, BCDD_KIND, 2, "rules")
    if "zbdd" in kinds:
        n += check_reduce(ctx, F, rule, "oxidd_rules_zbdd::reduce", tables.ZBDD, 2, "free", zero_suppressed=True)
        n += check_reduce(ctx, F, rule, "oxidd_rules_zbdd::reduce_borrowed", tables.ZBDD, 2, "free", zero_suppressed=True)
        n += check_reduce(ctx, F, rule, "oxidd_rules_zbdd::reduce1", tables.ZBDD, 1, "free", zero_suppressed=True)
        fid = find_rules_reduce(F, "oxidd_rules_zbdd::")
        if ctx.anchor(rule, "ZBDDRules::reduce", fid):
            n += check_reduce(ctx, F, rule, fid, tables.ZBDD, 2, "rules", zero_suppressed=True)
    if "mtbdd" in kinds:
        n += check_reduce(ctx, F, rule, "oxidd_rules_mtbdd::reduce", tables.MTBDD, 2, "free")
        fid = find_rules_reduce(F, "oxidd_rules_mtbdd::")
        if ctx.anchor(rule, "MTBDDRules::reduce", fid):
            n += check_reduce(ctx, F, rule, fid, tables.MTBDD, 2, "rules")
    if "tdd" in kinds:
        n += check_reduce(ctx, F, rule, "oxidd_rules_tdd::reduce", tables.TDD, 3, "free")
        fid = find_rules_reduce(F, "oxidd_rules_tdd::")
        if ctx.anchor(rule, "TDDRules::reduce", fid):
            n += check_reduce(ctx, F, rule, fid, tables.TDD, 3, "rules")
    return n


# ---- BCDD terminal cases of and / xor -------------------------------------------------------------------------------
class BCDDTermDomain(ReduceDomain):
    def terminal_edge(self, tv):
        return Edge(("T", tv), self.default_tag())

    def node_of(self, edge):
        if isinstance(edge, Edge) and edge.node[0] == "N":
            return Enum(tables.NODE_INNER, [("nodeobj", edge.node[1])])
        return super().node_of(edge)


def check_bcdd_terminal_tables(ctx, F, rule="E-TABLE.bcdd"):
    root = "oxidd_rules_bdd::complement_edge::"
    U = universe(BCDD_KIND)
    n = 0
    for fn, op in (("terminal_and", lambda a, b: a & b), ("terminal_xor", lambda a, b: a ^ b)):
        fid = root + fn
        if not ctx.anchor(rule, fid, fid in F.hir):
            continue
        fails = []
        for f, g in itertools.product(U, U):
            def mk(oracle):
                d = BCDDTermDomain(F, BCDD_KIND)
                d.helpers = {root + "get_terminal", root + "is_false", root + "not_owned", root + "not"}
                return Interp(F, d, oracle)
            for trace, (status, val) in enumerate_runs(mk, lambda it: it.call_fn(fid, [Opaque("manager"), f, g])):
                n += 1
                sit = "%s(%s, %s)" % (fn, label(f), label(g))
                if status != "ok":
                    fails.append("%s: %s %s" % (sit, status, val))
                    continue
                if isinstance(val, Enum) and val.short == "Nodes":
                    if not (f.node[0] == "N" and g.node[0] == "N" and f.node != g.node):
                        fails.append("%s: defers to the recursion although an operand is terminal or both are the same node" % sit)
                    continue
                if not (isinstance(val, Enum) and val.short == "Done" and isinstance(val.args[0], Edge)):
                    fails.append("%s: result %r" % (sit, val))
                    continue
                r = val.args[0]
                for x, y in itertools.product((0, 1), repeat=2):
                    valn = {"x": x, "y": y, "v": 0}
                    if den(BCDD_KIND, r, valn) != op(den(BCDD_KIND, f, valn), den(BCDD_KIND, g, valn)):
                        fails.append("%s returns %s, which differs from the connective for x=%d y=%d" % (sit, label(r), x, y))
                        break
        ctx.ob(rule, "%s:%s" % (rule, fn), not fails,
               ("%s (%s): %d abstract situation(s) wrong; first: %s" % (fid, F.where(fid), len(fails), " || ".join(fails[:3])))
               if fails else "%s agrees with its connective on all 36 operand pairs" % fn)
    return n
