"""E-TABLE.defaults: small default methods and conversion tables of oxidd-core that every diagram kind inherits.

  opconv     `<BooleanOperator as Countable>::from_usize(v as usize) == v` for each of the 8 operators (the C interface and
             `apply_quant` dispatch through this number);
  sat/valid  `BooleanFunction::satisfiable` is `edge != f_edge`, `valid` is `edge == t_edge` (interpreted for the false, the
             true and another edge);
  numpred    `NumberBase::is_zero / is_one / is_nan` are equality with `zero() / one() / nan()` (the MTBDD terminal tables
             take these predicates as builtins).
"""
import tables
from lib.interp import Edge, Enum, Interp, Opaque, Unrecognised, enumerate_runs

RULE = "E-TABLE.defaults"


class DefDomain(tables.DDDomain):
    def __init__(self, F):
        super().__init__(F, tables.BDD)

    def call(self, it, name, f, args_e, env, e):
        n = f.get("n", "")
        if n.endswith("Function::f_edge"):
            [it.ev(a, env) for a in args_e]
            return Edge(("N", "FALSE"))
        if n.endswith("Function::t_edge"):
            [it.ev(a, env) for a in args_e]
            return Edge(("N", "TRUE"))
        if "EdgeDropGuard" in n and n.endswith("::new"):
            return [it.ev(a, env) for a in args_e][1]
        for k in ("zero", "one", "nan"):
            if n.endswith("NumberBase::" + k):
                return ("num", k)
        return super().call(it, name, f, args_e, env, e)

    def equal(self, it, a, b):
        if isinstance(a, tuple) and isinstance(b, tuple) and a[:1] == ("num",) and b[:1] == ("num",):
            return a == b
        return super().equal(it, a, b)

    def call_value(self, it, fv, args):
        if isinstance(fv, tuple) and fv and fv[0] == "closure":
            _, ce, cenv = fv
            env = dict(cenv)
            for p, a in zip(ce.get("params", []), args):
                it.match(p, a, env)
            return it.ev(ce["body"], env)
        raise Unrecognised("call of %r" % (fv,))

    def method(self, it, m, e, env):
        name = m.rsplit("::", 1)[-1]
        if name == "with_manager_shared":
            recv = it.recv(e, env)
            (clo,) = it.args(e, env)
            return self.call_value(it, clo, [Opaque("manager"), recv])
        return super().method(it, m, e, env)


def run(ctx, F, rule=RULE):
    n = 0

    def mk(oracle):
        return Interp(F, DefDomain(F), oracle)
    # ---- operator conversion ---------------------------------------------------------------------------------------------
    adt = "oxidd_core::function::BooleanOperator"
    fids = [f for f, r in F.fns.items() if f.endswith("::from_usize") and (r.get("impl") or {}).get("self", "").startswith(adt)]
    if ctx.anchor(rule, "<BooleanOperator as Countable>::from_usize", len(fids) == 1 and adt in F.adts):
        fails = []
        for v in F.adts[adt]["variants"]:
            d = int(v["discr"])
            for trace, (status, val) in enumerate_runs(mk, lambda it: it.call_fn(fids[0], [d])):
                n += 1
                if status != "ok" or not (isinstance(val, Enum) and val.path == adt + "::" + v["n"]):
                    fails.append("from_usize(%d) yields %s %r, expected %s" % (d, status, val, v["n"]))
        ctx.ob(rule, rule + ":opconv", not fails and n >= 8,
               "BooleanOperator::from_usize (%s): %s" % (F.where(fids[0]), " || ".join(fails[:3]) if fails else
                                                        "inverse of `as usize` on all %d operators" % len(F.adts[adt]["variants"])))
    # ---- satisfiable / valid ---------------------------------------------------------------------------------------------
    for nm, spec in (("satisfiable", {"FALSE": False, "TRUE": True, "x": True}), ("valid", {"FALSE": False, "TRUE": True and True, "x": False})):
        fid = "oxidd_core::function::BooleanFunction::" + nm
        if not ctx.anchor(rule, fid, fid in F.hir):
            continue
        want = {"satisfiable": {"FALSE": False, "TRUE": True, "x": True}, "valid": {"FALSE": False, "TRUE": True, "x": False}}[nm]
        fails = []
        for en, w in want.items():
            for trace, (status, val) in enumerate_runs(mk, lambda it: it.call_fn(fid, [Edge(("N", en))])):
                n += 1
                if status != "ok" or val is not w:
                    fails.append("%s(%s) yields %s %r, expected %r" % (nm, en, status, val, w))
        ctx.ob(rule, "%s:%s" % (rule, nm), not fails, "BooleanFunction::%s (%s): %s" % (nm, F.where(fid), " || ".join(fails) if fails else
                                                                                        "compares with the %s terminal" % ("false" if nm == "satisfiable" else "true")))
    # ---- substitute: the empty-substitution shortcut -----------------------------------------------------------------------
    fid = "oxidd_core::function::FunctionSubst::substitute"
    if ctx.anchor(rule, fid, fid in F.hir):
        from tables import OK

        class Subst:
            def __init__(self, k):
                self.k = k

        class SD(DefDomain):
            def call(self, it, name, f, args_e, env, e):
                nn = f.get("n", "")
                if nn.endswith("FunctionSubst::substitute_edge"):
                    args = [it.ev(a, env) for a in args_e]
                    return Enum(OK, [("substituted", args[1])])
                if nn.endswith("Function::from_edge"):
                    return ("function", [it.ev(a, env) for a in args_e][1])
                return super().call(it, name, f, args_e, env, e)

            def try_(self, it, v):
                if isinstance(v, Enum) and v.path == OK:
                    return v.args[0]
                return super().try_(it, v)

            def method(self, it, m, e, env):
                name = m.rsplit("::", 1)[-1]
                recv = it.recv(e, env)
                if isinstance(recv, Subst):
                    if name == "pairs":
                        return ("pairs", recv.k)
                    if name == "map":
                        it.args(e, env)
                        return recv
                if isinstance(recv, tuple) and recv and recv[0] == "pairs" and name == "len":
                    return recv[1]
                if isinstance(recv, Edge) and name == "clone":
                    return recv
                return super().method(it, m, e, env)
        fails = []
        me = Edge(("N", "f"))
        for k in (0, 1, 3):
            for trace, (status, val) in enumerate_runs(lambda o: Interp(F, SD(F), o), lambda it: it.call_fn(fid, [me, Subst(k)])):
                n += 1
                want = Enum(OK, [me]) if k == 0 else Enum(OK, [("function", ("substituted", me))])
                if status != "ok" or val != want:
                    fails.append("substitute with %d pair(s) yields %s %r, expected %r" % (k, status, val, want))
        ctx.ob(rule, rule + ":substitute", not fails, "FunctionSubst::substitute (%s): %s" % (F.where(fid), " || ".join(fails[:2]) if fails else
               "returns the function itself exactly for the empty substitution, substitute_edge's result otherwise"))
    # ---- number predicates -----------------------------------------------------------------------------------------------
    for nm, c in (("is_zero", "zero"), ("is_one", "one"), ("is_nan", "nan")):
        fid = "oxidd_core::function::NumberBase::" + nm
        if not ctx.anchor(rule, fid, fid in F.hir):
            continue
        fails = []
        for x in ("zero", "one", "nan", "other"):
            for trace, (status, val) in enumerate_runs(mk, lambda it: it.call_fn(fid, [("num", x)])):
                n += 1
                if status != "ok" or val is not (x == c):
                    fails.append("%s(%s) yields %s %r" % (nm, x, status, val))
        ctx.ob(rule, "%s:%s" % (rule, nm), not fails, "NumberBase::%s (%s): %s" % (nm, F.where(fid), " || ".join(fails) if fails else
                                                                                   "equality with %s()" % c))
    return n
