"""E-PTR.tagbits: the tag-bit arithmetic of the pointer-based manager's edges.

A pointer-based edge packs the user's edge tag into the low `TAG_BITS` bits of the node address and uses the next bit
to tell terminals from inner nodes.  The masks (`TAG_MASK`, `ALL_TAG_BITS`, `ALL_TAG_MASK`) and the five accessors
(`is_inner`, `all_untagged_ptr`, `retag_ptr`, `tag`, `node_id`) are interpreted from HIR with TAG_BITS = 1 (one tag
bit, as for complement edges), exhaustively over the three low bits of the address:

  masks      TAG_MASK = 1, ALL_TAG_BITS = 2, ALL_TAG_MASK = 3;
  laws       tag(retag(p, t)) = t; retag changes nothing but the tag bits; all_untagged_ptr clears exactly the low
             ALL_TAG_BITS bits; node_id(p) = the untagged address; is_inner(p) <=> bit TAG_BITS is clear, and is not
             affected by retagging.

The default test suite never builds the pointer-based manager, so nothing else exercises this code.
"""
import tables
from lib.interp import Edge, Enum, Interp, Opaque, Panic, Unrecognised, enumerate_runs

RULE = "E-PTR.tagbits"
BASE = "oxidd_manager_pointer::manager::"
TAG_BITS = 1


class PEdge:
    def __init__(self, addr):
        self.addr = addr

    def __repr__(self):
        return "edge@%s" % bin(self.addr)


class PtrDomain(tables.DDDomain):
    def __init__(self, F, consts):
        super().__init__(F, tables.BDD)
        self.cv = consts

    def const(self, it, e):
        n = e.get("n") or ""
        for k, v in self.cv.items():
            if n.endswith("::" + k):
                return v
        if n.endswith("MAX_VALUE"):
            return 1
        return super().const(it, e)

    def call(self, it, name, f, args_e, env, e):
        n = f.get("n", "")
        if n.endswith("align_of"):
            return 8
        if n.endswith("NonNull::<T>::new_unchecked") or n.endswith("::new_unchecked"):
            return [it.ev(a, env) for a in args_e][0]
        if n.endswith("Tag::from_usize") or n.endswith("::from_usize"):
            return [it.ev(a, env) for a in args_e][0]
        return super().call(it, name, f, args_e, env, e)

    def call_value(self, it, fv, args):
        if isinstance(fv, tuple) and fv and fv[0] == "closure":
            _, ce, cenv = fv
            env = dict(cenv)
            for p, a in zip(ce.get("params", []), args):
                it.match(p, a, env)
            return it.ev(ce["body"], env)
        raise Unrecognised("call of %r" % (fv,))

    def field(self, it, v, n):
        if isinstance(v, PEdge) and n == "0":
            return v.addr
        return None

    def field_assign(self, it, base, n, v):
        if isinstance(base, PEdge) and n == "0":
            base.addr = v
            return True
        return False

    def unop(self, it, o, v):
        if o == "!" and isinstance(v, int) and not isinstance(v, bool):
            return ~v & (2 ** 64 - 1)
        return super().unop(it, o, v)

    def method(self, it, m, e, env):
        name = m.rsplit("::", 1)[-1]
        recv = it.recv(e, env)
        if isinstance(recv, PEdge):
            if name == "addr":
                return recv.addr
            fid = next((f for f in self.F.hir if f.startswith(BASE) and f.endswith("::" + name) and "Edge<" in self.F.nice(f)), None)
            if fid:
                return it.call_fn(fid, [recv] + it.args(e, env))
        if isinstance(recv, int) and not isinstance(recv, bool):
            if name == "as_ptr":
                return recv
            if name == "map_addr":
                (clo,) = it.args(e, env)
                return self.call_value(it, clo, [recv])
            if name == "next_power_of_two":
                p = 1
                while p < recv:
                    p *= 2
                return p
            if name == "as_usize":
                return recv
            if name == "addr":
                return recv
        return super().method(it, m, e, env)


def run(ctx, F, rule=RULE):
    n = 0
    fns = {}
    for f in F.hir:
        if f.startswith(BASE) and "Edge<" in F.nice(f):
            fns.setdefault(f.rsplit("::", 1)[-1], f)
    need = ("is_inner", "all_untagged_ptr", "retag_ptr", "tag", "node_id")
    if not ctx.anchor(rule, "pointer Edge accessors " + ", ".join(need), all(k in fns for k in need)):
        return 0
    # ---- masks ----------------------------------------------------------------------------------------------------------
    cv = {"TAG_BITS": TAG_BITS}
    fails = []
    for cname, want in (("TAG_MASK", 1), ("ALL_TAG_BITS", 2), ("ALL_TAG_MASK", 3)):
        cid = next((k for k in F.consts if k.startswith(BASE) and k.endswith("::" + cname)), None)
        if not ctx.anchor(rule, "const " + cname, cid is not None and "body" in F.consts[cid]):
            continue

        def mk(oracle):
            return Interp(F, PtrDomain(F, dict(cv)), oracle)
        for trace, (status, val) in enumerate_runs(mk, lambda it: it.ev(F.consts[cid]["body"], {"$consts": {"TAG_BITS": TAG_BITS}, "$fn": cid, "$mut": {}})):
            n += 1
            if status != "ok" or val != want:
                fails.append("%s evaluates to %s %r with TAG_BITS = 1 and one tag value bit, expected %d" % (cname, status, val, want))
        cv[cname] = want
    ctx.ob(rule, rule + ":masks", not fails, "tag masks of the pointer-based Edge: %s" % (" || ".join(fails) if fails else "TAG_MASK = 1, ALL_TAG_BITS = 2, ALL_TAG_MASK = 3"))
    # ---- laws -----------------------------------------------------------------------------------------------------------
    fails = []

    def call(name, *args):
        def mk(oracle):
            return Interp(F, PtrDomain(F, dict(cv)), oracle)
        outs = list(enumerate_runs(mk, lambda it: it.call_fn(fns[name], list(args), {"TAG_BITS": TAG_BITS})))
        if len(outs) != 1 or outs[0][1][0] != "ok":
            raise Unrecognised("%s: %r" % (name, outs[0][1] if outs else None))
        return outs[0][1][1]
    base_addr = 0b1011000
    try:
        for low in range(8):
            p = base_addr | low
            n += 1
            inner = call("is_inner", PEdge(p))
            if inner is not ((p >> TAG_BITS) & 1 == 0):
                fails.append("is_inner(%s) = %r" % (bin(p), inner))
            un = call("all_untagged_ptr", PEdge(p))
            if un != (p & ~3):
                fails.append("all_untagged_ptr(%s) = %s, expected %s" % (bin(p), bin(un) if isinstance(un, int) else un, bin(p & ~3)))
            nid = call("node_id", PEdge(p))
            if nid != (p & ~3):
                fails.append("node_id(%s) = %r, expected the untagged address" % (bin(p), nid))
            tg = call("tag", PEdge(p))
            if tg != (p & 1):
                fails.append("tag(%s) = %r, expected %d" % (bin(p), tg, p & 1))
            for t in (0, 1):
                q = call("retag_ptr", PEdge(p), t)
                if q != ((p & ~1) | t):
                    fails.append("retag_ptr(%s, %d) = %s, expected %s" % (bin(p), t, bin(q) if isinstance(q, int) else q, bin((p & ~1) | t)))
    except Unrecognised as u:
        fails.append("not interpretable: %s" % u)
    except Panic as pn:
        fails.append("panic: %s" % pn.msg)
    ctx.ob(rule, rule + ":laws", not fails, "pointer-based Edge accessors (%s): %s" % (F.where(fns["retag_ptr"]), " || ".join(fails[:3]) if fails else
                                                                                       "tag / untag / is_inner / node_id agree on all low-bit patterns"))
    return n
