"""E-RAW: accounting of the open-addressing table (linear_hashtbl::raw) (DESIGN 3.8).

The probe loops of `find` / `find_or_find_insert_slot` terminate only because
some slot is FREE; the table knows that from its `free` counter, so `free`
must never over-count.  The rules below are structural necessary conditions of
`free <= #FREE slots`:

  R1 inventory of writes to `free`: only the reviewed functions write it, each
     in its reviewed way (a new `free = data.len()` in `clear` is a new writer);
  R2 every `free += 1` is paired with a store of `S::FREE` into a slot status;
  R4 flag provenance in `retain`: `last_is_free` is only ever defined from
     `status == S::FREE` (or `true` under such a test, or `false`), and every
     tombstone->FREE conversion is guarded by it;
  R5 `free -= 1` in `insert_in_slot_unchecked` is under the `status != TOMBSTONE` edge;
  R6 `drain` accounts all slots as free, so `Drain::drop` must sweep the rest of
     the slot array (loop to exhaustion storing FREE) on every path;
  R7 a function that replaces the slot array assigns `free` on every path;
  R9 the probe loops are guarded (`len == 0` / `reserve(1)`).
"""
import re

from lib import cfg
import edm

RT = "linear_hashtbl::raw::RawTable"
SL = "linear_hashtbl::raw::Slot"
FREE_C = "::Status>::FREE"
TOMB_C = "::Status>::TOMBSTONE"

# function (short) -> multiset of write kinds to `free`, each with the reason it is sound
FREE_WRITERS = {
    "RawTable<T, S, A>>::remove_at_slot_unchecked": ["+1"],   # slot becomes FREE only if its successor is FREE
    "RawTable<T, S, A>>::retain": ["+1", "+1"],                # tombstone/element -> FREE when the successor is FREE
    "RawTable<T, S, A>>::insert_in_slot_unchecked": ["-1"],    # FREE slot becomes occupied
    "RawTable<T, S, A>>::reserve_rehash": ["=0", "=expr"],      # fresh all-FREE array: new_cap - len
    "RawTable<T, S, A>>::drain": ["=expr"],                     # data.len(); Drain marks every slot FREE (R6)
    "RawTable<T, S, A>>::reset_no_drop": ["=0"],                # empty slot array
}


def short(F, fid):
    return F.nice(fid).replace("linear_hashtbl::raw::<linear_hashtbl::raw::", "").replace("linear_hashtbl::raw::", "")


def is_field(p, name, adt):
    return isinstance(p, dict) and p["p"] and p["p"][-1] == ".%s@%s" % (name, adt)


def const_of(op):
    if isinstance(op, dict) and "c" in op:
        return op["c"]
    return None


def free_writes(m, B):
    out = []
    for i in sorted(B.reach):
        b = m["blocks"][i]
        if b["c"]:
            continue
        for s in b["s"]:
            if "lhs" in s and is_field(s["lhs"], "free", RT):
                rv = s["rv"]
                kind = "=expr"
                if rv["k"] == "bin" and rv["o"] in ("Add", "Sub", "AddWithOverflow", "SubWithOverflow"):
                    a = cfg.op_place(rv["a"])
                    if is_field(a, "free", RT) and cfg.const_int(rv["b"]) == 1:
                        kind = "+1" if rv["o"].startswith("Add") else "-1"
                elif rv["k"] == "use" and cfg.const_int(rv["op"]) == 0:
                    kind = "=0"
                out.append((i, kind))
        t = b["t"]
        if t["k"] == "call" and is_field(t["d"], "free", RT):
            out.append((i, "=expr"))
    return out


def run(ctx, F, rule="E-RAW"):
    fns = {fid: m for fid, m in F.mir.items() if fid.startswith("linear_hashtbl::raw::") and "::test::" not in fid}
    if not ctx.anchor(rule, "linear_hashtbl::raw functions", len(fns) > 20):
        return
    bodies = {fid: cfg.Body(m) for fid, m in fns.items()}
    by_short = {short(F, fid): fid for fid in fns}
    # ---- R1 inventory ------------------------------------------------------------------------------
    seen = {}
    for fid, m in sorted(fns.items()):
        if "{closure" in fid:
            continue
        w = free_writes(m, bodies[fid])
        if w:
            seen[short(F, fid)] = sorted(k for _, k in w)
    for name, kinds in sorted(seen.items()):
        exp = FREE_WRITERS.get(name)
        ctx.ob(rule + ".inventory", "%s.inventory:%s" % (rule, name), exp is not None and sorted(exp) == kinds,
               ("%s (%s) writes the free-slot counter (%s); the reviewed writers are %s. An unreviewed "
                "raise of `free` lets it exceed the number of FREE slots, after which find() may not terminate"
                % (name, F.where(by_short[name]), kinds, {k: v for k, v in FREE_WRITERS.items()}.get(name, "none for this function")))
               if not (exp is not None and sorted(exp) == kinds) else "%s: %s as reviewed" % (name, kinds))
    for name, kinds in sorted(FREE_WRITERS.items()):
        if name not in seen:
            ctx.ob(rule + ".inventory", "%s.inventory:%s" % (rule, name), False,
                   "%s no longer writes the free-slot counter (expected %s): after it the counter is stale" % (name, kinds))
    # ---- R2: +1 paired with a FREE store ---------------------------------------------------------------
    for fid, m in sorted(fns.items()):
        B = bodies[fid]
        for i, kind in free_writes(m, B):
            if kind != "+1":
                continue
            b = m["blocks"][i]
            has_free_store = False
            for s in b["s"]:
                if "lhs" in s and s["rv"]["k"] == "use" and (const_of(s["rv"]["op"]) or "").endswith(FREE_C):
                    if is_field(s["lhs"], "status", SL) or isinstance(s["lhs"], int):
                        has_free_store = True
            ctx.ob(rule + ".pair", "%s.pair:%s:+1" % (rule, short(F, fid)), has_free_store,
                   "%s (%s): `free += 1` in bb%d is not accompanied by a store of S::FREE into the slot status"
                   % (short(F, fid), F.where(fid), i))
    # ---- R4: retain flag provenance --------------------------------------------------------------------
    fid = by_short.get("RawTable<T, S, A>>::retain")
    if ctx.anchor(rule, "RawTable::retain", fid is not None):
        m, B = fns[fid], bodies[fid]
        flag = None
        for li, l in enumerate(m["locals"]):
            if l["ty"] == "bool" and l.get("n") and "free" in l["n"]:
                flag = li
        if ctx.anchor(rule, "retain: the successor-is-free flag", flag is not None):
            # eq(status, FREE) tests: call PartialEq::eq with a FREE constant operand
            eq_dest = {}   # dest local -> call block
            for i, t in B.calls():
                if (cfg.callee_name(t) or "").endswith("PartialEq::eq"):
                    # one of the args refers to a const FREE
                    refs = [cfg.op_place(a) for a in t["a"]]
                    isfree = False
                    isstatus = False
                    for s in m["blocks"][i]["s"]:
                        if "lhs" in s and s["rv"]["k"] == "use" and (const_of(s["rv"]["op"]) or "").endswith(FREE_C):
                            isfree = True
                        if "lhs" in s and s["rv"]["k"] == "ref" and is_field(s["rv"]["p"], "status", SL):
                            isstatus = True
                    if isfree and isstatus and isinstance(t["d"], int):
                        eq_dest[t["d"]] = (i, t["t"])
            true_edges = []   # blocks entered when eq(status, FREE) is true
            for d, (cb, tb) in eq_dest.items():
                if d == flag:
                    continue
                tt = m["blocks"][tb]["t"]
                if tt["k"] == "switch" and cfg.op_place(tt["d"]) == d:
                    true_edges.append(tt["o"])
            okdefs = True
            why = ""
            ndefs = 0
            for i in sorted(B.reach):
                b = m["blocks"][i]
                if b["c"]:
                    continue
                for s in b["s"]:
                    if "lhs" in s and s["lhs"] == flag:
                        ndefs += 1
                        v = cfg.const_int(s["rv"]["op"]) if s["rv"]["k"] == "use" else None
                        if v == 0:
                            continue
                        if v == 1 and any(B.dominates(te, i) for te in true_edges):
                            continue
                        okdefs = False
                        why = "assignment in bb%d is neither `false` nor `true` under a `status == S::FREE` test" % i
                t = b["t"]
                if t["k"] == "call" and t["d"] == flag:
                    ndefs += 1
                    if flag not in eq_dest:
                        okdefs = False
                        why = "initialised in bb%d by %s, not by `status == S::FREE`" % (i, cfg.callee_name(t))
            ctx.ob(rule + ".flag", rule + ".flag:retain:last_is_free", okdefs and ndefs >= 3,
                   "RawTable::retain (%s): the flag guarding tombstone->FREE conversions (`%s`) must mean 'the successor "
                   "slot is FREE': %s. Converting a tombstone whose successor is not FREE cuts a probe chain: stored "
                   "elements become unreachable (duplicates in the unique table)"
                   % (F.where(fid), m["locals"][flag].get("n"), why or "too few definitions found (%d)" % ndefs))
            # every +1 block is dominated by the true edge of a switch on the flag
            flag_true = []
            for i in sorted(B.reach):
                b = m["blocks"][i]
                t = b["t"]
                if t["k"] == "switch":
                    d = cfg.op_place(t["d"])
                    for s in b["s"]:
                        if "lhs" in s and s["lhs"] == d and s["rv"]["k"] == "use" and cfg.op_place(s["rv"]["op"]) == flag:
                            flag_true.append(t["o"])
            for i, kind in free_writes(m, B):
                if kind == "+1":
                    ctx.ob(rule + ".flag", "%s.flag:retain:+1@guarded" % rule, any(B.dominates(ft, i) for ft in flag_true),
                           "RawTable::retain (%s): `free += 1` in bb%d is not guarded by the successor-is-free flag"
                           % (F.where(fid), i))
    # ---- R5: -1 under `status != TOMBSTONE` ------------------------------------------------------------------
    fid = by_short.get("RawTable<T, S, A>>::insert_in_slot_unchecked")
    if ctx.anchor(rule, "RawTable::insert_in_slot_unchecked", fid is not None):
        m, B = fns[fid], bodies[fid]
        ne_true = []
        for i, t in B.calls():
            nm = cfg.callee_name(t) or ""
            if nm.endswith("PartialEq::ne") or nm.endswith("PartialEq::eq"):
                tomb = any("lhs" in s and s["rv"]["k"] == "use" and (const_of(s["rv"]["op"]) or "").endswith(TOMB_C)
                           for s in m["blocks"][i]["s"])
                if tomb and t["t"] is not None:
                    tt = m["blocks"][t["t"]]["t"]
                    if tt["k"] == "switch":
                        zero = [tb for v, tb in tt["t"] if int(v) == 0]
                        if nm.endswith("::ne"):
                            ne_true.append(tt["o"])
                        elif zero:
                            ne_true.append(zero[0])
        for i, kind in free_writes(m, B):
            if kind == "-1":
                ctx.ob(rule + ".pair", rule + ".pair:insert_in_slot_unchecked:-1", any(B.dominates(x, i) for x in ne_true),
                       "insert_in_slot_unchecked (%s): `free -= 1` must only happen when the slot was not a tombstone"
                       % F.where(fid))
        lenw = [i for i in B.reach for s in m["blocks"][i]["s"] if "lhs" in s and is_field(s["lhs"], "len", RT)]
        ctx.ob(rule + ".pair", rule + ".pair:insert_in_slot_unchecked:len", bool(lenw) and all(B.postdominates(i, 0) for i in lenw),
               "insert_in_slot_unchecked (%s): `len += 1` must happen on every path" % F.where(fid))
    # ---- R6: drain / Drain::drop ----------------------------------------------------------------------------
    fid = by_short.get("Drain<'_, T, S> as core::ops::Drop>::drop") or by_short.get("Drain<'_, T, S> as std::ops::Drop>::drop")
    if fid is None:
        for k, v in by_short.items():
            if k.startswith("Drain<") and k.endswith("Drop>::drop"):
                fid = v
    if ctx.anchor(rule, "<Drain as Drop>::drop", fid is not None):
        m, B = fns[fid], bodies[fid]
        ok = False
        detail = "no loop over the remaining slots found"
        rets = B.exits()
        for i, t in B.calls():
            nm = cfg.callee_name(t) or ""
            if not nm.endswith("Iterator>::next") and not nm.endswith("Iterator::next"):
                continue
            if t["t"] is None:
                continue
            tb = m["blocks"][t["t"]]
            tt = tb["t"]
            if tt["k"] != "switch":
                continue
            none_b = [b for v, b in tt["t"] if int(v) == 0]
            some_b = [b for v, b in tt["t"] if int(v) == 1]
            if not none_b or not some_b:
                continue
            if not all(B.dominates(none_b[0], r) for r in rets):
                continue
            stores = [j for j in B.reach for s in m["blocks"][j]["s"]
                      if "lhs" in s and is_field(s["lhs"], "status", SL) and s["rv"]["k"] == "use"
                      and (const_of(s["rv"]["op"]) or "").endswith(FREE_C)]
            # every iteration stores FREE: no path from the Some edge back to the next() call avoiding the stores
            import eevent
            if stores and eevent.no_path_avoiding(B, some_b[0], [i], stores):
                ok = True
            else:
                detail = "the sweep loop does not store S::FREE on every iteration"
        ctx.ob(rule + ".drain", rule + ".drain:sweep", ok,
               "<Drain as Drop>::drop (%s): RawTable::drain() accounts every slot as free, so the destructor must walk the "
               "slot iterator to exhaustion, storing S::FREE, on every path to its return (%s); trailing tombstones "
               "otherwise stay while `free` says they are FREE" % (F.where(fid), detail))
    # ---- R7: replacing the slot array => free assigned -------------------------------------------------------------
    import eevent
    for fid, m in sorted(fns.items()):
        B = bodies[fid]
        if "{closure" in fid:
            continue
        repl = []
        for i in sorted(B.reach):
            b = m["blocks"][i]
            if b["c"]:
                continue
            for s in b["s"]:
                if "lhs" in s and is_field(s["lhs"], "data", RT):
                    repl.append(i)
            t = b["t"]
            if t["k"] == "call" and re.search(r"mem::(replace|take|swap)$", cfg.callee_name(t) or ""):
                # is the argument `&mut self.data` (possibly reborrowed)?
                datarefs = set()
                for bb in m["blocks"]:
                    for s in bb["s"]:
                        if "lhs" in s and isinstance(s["lhs"], int) and s["rv"]["k"] == "ref" and s["rv"]["m"]:
                            p = s["rv"]["p"]
                            if is_field(p, "data", RT) or (isinstance(p, dict) and p["p"] == ["*"] and p["l"] in datarefs):
                                datarefs.add(s["lhs"])
                if t["a"] and cfg.op_place(t["a"][0]) in datarefs:
                    repl.append(i)
        if not repl:
            continue
        fw = [i for i, _ in free_writes(m, B)]
        ok = bool(fw) and all(any(B.dominates(w, r) for w in fw) or eevent.no_path_avoiding(B, r, B.exits(), fw)
                              for r in repl)
        ctx.ob(rule + ".replace", "%s.replace:%s" % (rule, short(F, fid)), ok,
               "%s (%s) replaces the slot array but does not assign the free-slot counter on every path: the counter "
               "describes the old array afterwards" % (short(F, fid), F.where(fid)))
    # ---- R9: probe loops are guarded -----------------------------------------------------------------------------------
    fid = by_short.get("RawTable<T, S, A>>::find_or_find_insert_slot")
    if ctx.anchor(rule, "RawTable::find_or_find_insert_slot", fid is not None):
        m, B = fns[fid], bodies[fid]
        res = [i for i, t in B.calls() if (cfg.callee_name(t) or "").endswith("::reserve")]
        gets = [i for i, t in B.calls() if (cfg.callee_name(t) or "").endswith("get_unchecked")]
        ctx.ob(rule + ".probe", rule + ".probe:insert-reserve", bool(res) and bool(gets) and all(B.dominates(res[0], g) for g in gets),
               "find_or_find_insert_slot (%s): reserve(1) must dominate the probe loop (it guarantees a FREE slot)" % F.where(fid))
    fid = by_short.get("RawTable<T, S, A>>::find")
    if ctx.anchor(rule, "RawTable::find", fid is not None):
        m, B = fns[fid], bodies[fid]
        # `if self.len == 0 { return None }` before the loop
        guard = None
        b0 = m["blocks"][0]
        for s in b0["s"]:
            if "lhs" in s and s["rv"]["k"] == "bin" and s["rv"]["o"] == "Eq" and cfg.const_int(s["rv"]["b"]) == 0:
                guard = 0
        gets = [i for i, t in B.calls() if (cfg.callee_name(t) or "").endswith("get_unchecked")]
        ctx.ob(rule + ".probe", rule + ".probe:find-len-guard", guard is not None and bool(gets),
               "find (%s): the `len == 0` early return must precede the probe loop (an empty table may have no slot at all)"
               % F.where(fid))
    fid = by_short.get("RawTable<T, S, A>>::reserve")
    if ctx.anchor(rule, "RawTable::reserve", fid is not None):
        m, B = fns[fid], bodies[fid]
        calls = [cfg.callee_name(t) or "" for _, t in B.calls()]
        reads_free = "free" in edm.fields_of(m, RT)
        ctx.ob(rule + ".probe", rule + ".probe:reserve", reads_free and any(c.endswith("::reserve_rehash") for c in calls),
               "reserve (%s) must compare the free-slot counter with the required spare and call reserve_rehash" % F.where(fid))
    check_slot_clone(ctx, F)
    check_remove_successor(ctx, F)
    check_remove_wraps(ctx, F)
    check_probe_exits(ctx, F)
    check_rehash(ctx, F)
    check_len_inventory(ctx, F)
    check_len_zero_tests(ctx, F)
    check_init_and_empty(ctx, F)
    import erawmodel
    ctx.explain("E-RAW.model: find, find_or_find_insert_slot, insert_in_slot_unchecked, remove_at_slot_unchecked, retain (every subset of the stored keys as predicate) and is_hash (u32 and usize status encodings) "
                "are interpreted from every well-formed 4-slot table over four keys (two sharing a home slot, two sharing a status "
                "word): results and resulting tables equal the specification (first tombstone or FREE slot for insertion, FREE vs "
                "tombstone on removal by the next slot, exact len / free), and every resulting table is well-formed again.")
    nm = erawmodel.run(ctx, F)
    ctx.floor("E-RAW.model", "interpreted single-operation situations", nm, 3500)


def check_slot_clone(ctx, F, rule="E-RAW.clone"):
    """`RawTable::clone` copies the slot array element-wise; probe chains stay intact only if every slot keeps its
    status word -- a tombstone must stay a tombstone (a FREE slot in its place cuts the chain behind it).  From MIR of
    `<Slot as Clone>::clone`: every value written to the return place is a `Slot { status: self.status, .. }`."""
    fids = [f for f in F.mir if f.startswith("linear_hashtbl::raw::") and f.endswith("::clone") and "Slot<" in F.nice(f)
            and "RawTable" not in F.nice(f)]
    if not ctx.anchor(rule, "<Slot as Clone>::clone", len(fids) == 1):
        return 0
    fid = fids[0]
    m = F.mir[fid]
    B = cfg.Body(m)
    from_self = set()
    for i in B.reach:
        for s in m["blocks"][i]["s"]:
            rv = s.get("rv") or {}
            if rv.get("k") == "use" and isinstance(s.get("lhs"), int):
                o = rv["op"]
                v = o.get("cp", o.get("mv"))
                if isinstance(v, dict) and v.get("l") == 1 and any(str(e).startswith(".status@") for e in v.get("p", [])):
                    from_self.add(s["lhs"])
                elif isinstance(v, int) and v in from_self:
                    from_self.add(s["lhs"])
    writes = []
    for i in sorted(B.reach):
        if m["blocks"][i]["c"]:
            continue
        for s in m["blocks"][i]["s"]:
            if s.get("lhs") == 0:
                rv = s.get("rv") or {}
                ok = rv.get("k") == "aggr" and str(rv.get("adt", "")).endswith("::Slot") and rv.get("ops") and \
                    (rv["ops"][0].get("cp", rv["ops"][0].get("mv")) in from_self)
                writes.append(ok)
        t = m["blocks"][i].get("t") or {}
        if t.get("k") == "call" and t.get("d") == 0:
            writes.append(False)
    ok = bool(writes) and all(writes)
    ctx.ob(rule, rule + ":Slot::clone", ok,
           "%s (%s): %s" % (F.nice(fid), F.where(fid),
                            "the clone of a slot carries the status word of the original" if ok else
                            "on some path the cloned slot does not carry `self.status` (e.g. a constant FREE slot for a "
                            "tombstone): probe chains of the cloned table are cut"))
    return 1


def check_remove_successor(ctx, F, rule="E-RAW.succ"):
    """`remove_at_slot_unchecked` may turn the vacated slot into FREE only if its successor *is FREE*: behind a
    tombstone successor the probe chain continues, so the vacated slot must become a TOMBSTONE.  From MIR: the block
    that raises `free` (and stores FREE) is reached only through the `true` edge of an equality test between a status
    and the constant `S::FREE` -- a weaker test such as `!status.is_hash()` also accepts tombstones."""
    fids = [f for f in F.mir if f.startswith("linear_hashtbl::raw::") and f.endswith("::remove_at_slot_unchecked")]
    if not ctx.anchor(rule, "RawTable::remove_at_slot_unchecked", len(fids) == 1):
        return 0
    fid = fids[0]
    m = F.mir[fid]
    B = cfg.Body(m)
    incs = [i for i, k in free_writes(m, B) if k == "+1"]
    eq_tests = []   # (switch block, true successor, false successors)
    for i in sorted(B.reach):
        b = m["blocks"][i]
        t = b["t"]
        if b["c"] or t["k"] != "call" or not (cfg.callee_name(t) or "").endswith("PartialEq::eq"):
            continue
        consts = [const_of((s.get("rv") or {}).get("op")) for s in b["s"] if (s.get("rv") or {}).get("k") == "use"]
        arg_locals = {a.get("mv", a.get("cp")) for a in t["a"]}
        # one operand must (transitively within the block) be a reference to the constant FREE
        if not any(c and c.endswith(FREE_C) for c in consts):
            continue
        nxt = t.get("t")
        if nxt is None:
            continue
        tt = m["blocks"][nxt]["t"]
        if tt["k"] == "switch":
            false_succ = [blk for v, blk in tt["t"] if str(v) == "0"]
            eq_tests.append((nxt, tt["o"], false_succ))
    ok = bool(incs) and all(
        any(B.dominates(ts, i) and not any(i in B.reachable_from(fs, avoid=(sw,)) for fs in fss) for sw, ts, fss in eq_tests)
        for i in incs)
    ctx.ob(rule, rule + ":remove_at_slot_unchecked", ok,
           "%s (%s): %s" % (F.nice(fid), F.where(fid),
                            "`free += 1` (slot becomes FREE) only on the edge `successor status == S::FREE`" if ok else
                            "`free += 1` / the FREE store is not guarded by an equality test of the successor's status with "
                            "S::FREE: a tombstone successor also makes the vacated slot FREE, cutting the probe chain of the "
                            "elements behind it"))
    return 1


def _free_eq_tests(m, B):
    """switches on `status == S::FREE`: (switch block, true successor, false successors)"""
    out = []
    for i in sorted(B.reach):
        b = m["blocks"][i]
        t = b["t"]
        if b["c"] or t["k"] != "call" or not (cfg.callee_name(t) or "").endswith("PartialEq::eq"):
            continue
        consts = [const_of((s.get("rv") or {}).get("op")) for s in b["s"] if (s.get("rv") or {}).get("k") == "use"]
        if not any(c and c.endswith(FREE_C) for c in consts):
            continue
        nxt = t.get("t")
        if nxt is None or m["blocks"][nxt]["t"]["k"] != "switch":
            continue
        tt = m["blocks"][nxt]["t"]
        out.append((nxt, tt["o"], [blk for v, blk in tt["t"] if str(v) == "0"]))
    return out


def check_probe_exits(ctx, F, rule="E-RAW.probe"):
    """A lookup may answer "absent" only when its probe sequence reaches a FREE slot: tombstones mark removed
    elements *inside* a chain, the element looked for may sit behind them.  From MIR of `find` and
    `find_or_find_insert_slot`: every `None` / `Err(slot)` exit inside the probe loop lies on the true edge of an
    equality test of the slot status with `S::FREE` (the `len == 0` shortcut before the loop is exempt)."""
    n = 0
    for fid in sorted(F.mir):
        if not (fid.startswith("linear_hashtbl::raw::") and re.search(r"RawTable<T, S, A>>::(find|find_or_find_insert_slot)$", F.nice(fid))):
            continue
        m = F.mir[fid]
        B = cfg.Body(m)
        tests = _free_eq_tests(m, B)
        exits = []
        for i in sorted(B.reach):
            b = m["blocks"][i]
            if b["c"]:
                continue
            for s in b["s"]:
                rv = s.get("rv") or {}
                if s.get("lhs") == 0 and rv.get("k") == "aggr" and rv.get("variant") in ("None", "Err"):
                    exits.append(i)
        # exits before any slot is inspected (empty table) are fine: they are not reachable from a status load
        loads = [i for i in sorted(B.reach) if any(".status@" in str(s) for s in m["blocks"][i]["s"])]
        n += 1
        bad = []
        for e in exits:
            if not any(B.can_reach(l, e) for l in loads):
                continue
            if not any(B.dominates(ts, e) and not any(e in B.reachable_from(fs, avoid=(sw,)) for fs in fss) for sw, ts, fss in tests):
                bad.append(e)
        ctx.ob(rule, "%s:%s" % (rule, short(F, fid)), bool(tests) and not bad,
               "%s (%s): %s" % (F.nice(fid), F.where(fid),
                                "every `absent` exit of the probe loop is on the `status == S::FREE` edge" if tests and not bad else
                                "the probe loop answers `absent` on a slot that was not compared equal to S::FREE (e.g. on a "
                                "tombstone): an element stored behind a tombstone is not found and gets inserted a second time"))
    ctx.floor(rule, "probe functions", n, 2)
    return n


def check_remove_wraps(ctx, F, rule="E-RAW.succ.wrap"):
    """The successor whose status `remove_at_slot_unchecked` tests is the *cyclic* successor: probing wraps around at
    the end of the slot array, so the slot after the last one is slot 0.  From MIR: the status compared with S::FREE is
    loaded from a slot (`get_unchecked` / an index projection) whose index derives from a `& (len - 1)` mask (or a
    `%`), and not from a default value substituted when `slot + 1` is out of bounds."""
    from efreelist import origins
    fids = [f for f in F.mir if f.startswith("linear_hashtbl::raw::") and f.endswith("::remove_at_slot_unchecked")]
    if not ctx.anchor(rule, "RawTable::remove_at_slot_unchecked", len(fids) == 1):
        return 0
    fid = fids[0]
    m = F.mir[fid]
    B = cfg.Body(m)
    # every local assigned from a BitAnd / Rem (the wrap) and everything derived from it
    wrapped = set()
    changed = True
    while changed:
        changed = False
        for i in sorted(B.reach):
            for s in m["blocks"][i]["s"]:
                rv = s.get("rv") or {}
                l = s.get("lhs")
                if not isinstance(l, int) or l in wrapped:
                    continue
                if rv.get("k") in ("bin", "checked") and str(rv.get("o", "")).startswith(("BitAnd", "Rem")):
                    wrapped.add(l)
                    changed = True
                elif rv.get("k") in ("use", "cast") and cfg.op_place(rv.get("op")) is not None:
                    p = cfg.op_place(rv["op"])
                    pl = p if isinstance(p, int) else p.get("l")
                    if pl in wrapped:
                        wrapped.add(l)
                        changed = True
    loads = []
    for i, t in B.calls():
        cn = cfg.callee_name(t) or ""
        if re.search(r"::get_unchecked$|::get_unchecked_mut$|Index.*::index$", cn) and len(t.get("a") or []) >= 2:
            p = cfg.op_place(t["a"][1])
            pl = p if isinstance(p, int) else (p or {}).get("l")
            loads.append((i, cn.rsplit("::", 1)[-1], pl in wrapped))
    defaults = [i for i, t in B.calls() if re.search(r"Option::<T>::(map_or|unwrap_or|map_or_else|unwrap_or_else|unwrap_or_default)$",
                                                   cfg.callee_name(t) or "")]
    ok = any(w for _, _, w in loads) and not defaults
    ctx.ob(rule, rule + ":remove_at_slot_unchecked", ok,
           "%s (%s): %s" % (F.nice(fid), F.where(fid),
                            "the successor slot is addressed modulo the table size" if ok else
                            "the successor's status is not read from the slot at (slot + 1) wrapped around the table size%s: the "
                            "entry in the last slot is always freed, cutting a probe chain that continues at slot 0"
                            % (" (a default is substituted when slot + 1 is out of bounds)" if defaults else "")))
    return 1


def check_rehash(ctx, F, rule="E-RAW.rehash"):
    """`reserve()` calls `reserve_rehash` when fewer FREE slots are left than required; afterwards lookups rely on a
    FREE slot existing.  Tombstones are only turned back into FREE slots by rebuilding the slot array, so
      rebuild   every path through `reserve_rehash` replaces the slot array (a same-size rehash is what purges
                tombstones: there is no early return);
      count     the counter assigned after the rebuild is `new_cap - len` with the very `new_cap` the new array was
                sized with;
      step      the re-insertion probe (and the probes of `find` / `find_or_find_insert_slot`) advance by
                `(index + 1) & mask`: a different stride skips slots, so the element lands outside the chain a lookup
                walks."""
    from efreelist import origins
    n = 0
    fids = [f for f in F.mir if f.startswith("linear_hashtbl::raw::") and f.endswith("::reserve_rehash")]
    if not ctx.anchor(rule, "RawTable::reserve_rehash", len(fids) == 1):
        return 0
    fid = fids[0]
    m = F.mir[fid]
    B = cfg.Body(m)
    repl = [i for i, t in B.calls() if re.search(r"mem::(replace|take|swap)$", cfg.callee_name(t) or "")]
    exits = [e for e in B.exits() if not m["blocks"][e]["c"]]
    reach = B.reachable_from(0, avoid=set(repl)) if repl else set(B.reach)
    skip = [e for e in exits if e in reach]
    n += 1
    ctx.ob(rule + ".rebuild", rule + ".rebuild:reserve_rehash", bool(repl) and not skip,
           "%s (%s): %s" % (short(F, fid), F.where(fid),
                            "every path rebuilds the slot array" if repl and not skip else
                            "a path returns without rebuilding the slot array: tombstones are never purged, the FREE-slot reserve "
                            "that reserve() promises is not restored and a lookup of an absent key does not terminate"))
    # count: free = new_cap - len
    cap_calls = [i for i, t in B.calls() if (cfg.callee_name(t) or "").endswith("::next_capacity")]
    ok_count = False
    detail = "no assignment `free = new_cap - len` found"
    for i, kind in free_writes(m, B):
        pass
    for i in sorted(B.reach):
        b = m["blocks"][i]
        if b["c"]:
            continue
        for s in b["s"]:
            if "lhs" in s and is_field(s["lhs"], "free", RT):
                rv = s.get("rv") or {}
                src = rv
                if rv.get("k") == "use":
                    # find the defining statement of the moved temp
                    p = cfg.op_place(rv.get("op"))
                    pl = p if isinstance(p, int) else (p or {}).get("l")
                    for j in sorted(B.reach):
                        for s2 in m["blocks"][j]["s"]:
                            if s2.get("lhs") == pl and (s2.get("rv") or {}).get("k") in ("bin", "checked"):
                                src = s2["rv"]
                            elif isinstance(s2.get("lhs"), int) and s2.get("lhs") == pl and (s2.get("rv") or {}).get("k") == "use":
                                q = cfg.op_place(s2["rv"].get("op"))
                                ql = q if isinstance(q, int) else (q or {}).get("l")
                                for k in sorted(B.reach):
                                    for s3 in m["blocks"][k]["s"]:
                                        if s3.get("lhs") == ql and (s3.get("rv") or {}).get("k") in ("bin", "checked"):
                                            src = s3["rv"]
                if src.get("k") in ("bin", "checked") and str(src.get("o", "")).startswith("Sub"):
                    oa = origins(B, m, [src.get("a")])
                    from_cap = any(o[0] == "call" and o[2] in cap_calls for o in oa)
                    b_len = "len" in str(src.get("b"))
                    if not b_len:
                        # operand b copied from self.len through a temp
                        q = cfg.op_place(src.get("b"))
                        ql = q if isinstance(q, int) else (q or {}).get("l")
                        for k in sorted(B.reach):
                            for s3 in m["blocks"][k]["s"]:
                                if s3.get("lhs") == ql and "len" in str((s3.get("rv") or {}).get("op")):
                                    b_len = True
                    if from_cap and b_len:
                        ok_count = True
                    else:
                        detail = "free is assigned a difference that is not `new_cap - self.len`"
                elif cfg.const_int(rv.get("op")) == 0:
                    pass    # `free = 0` for the empty table
                else:
                    detail = "free is assigned something other than `new_cap - self.len`"
                    ok_count = ok_count and False
    n += 1
    ctx.ob(rule + ".count", rule + ".count:reserve_rehash", ok_count,
           "%s (%s): %s" % (short(F, fid), F.where(fid), "free = new_cap - len after the rebuild" if ok_count else detail))
    # step: (index + 1) & mask in every probe loop
    for nm in ("reserve_rehash", "find", "find_or_find_insert_slot"):
        fs = [f for f in F.mir if f.startswith("linear_hashtbl::raw::") and f.endswith("::" + nm) and "RawTable<" in F.nice(f)]
        if not ctx.anchor(rule, "RawTable::" + nm, len(fs) == 1):
            continue
        mm = F.mir[fs[0]]
        BB = cfg.Body(mm)
        steps = []
        defs = {}
        for i in sorted(BB.reach):
            for s in mm["blocks"][i]["s"]:
                if isinstance(s.get("lhs"), int):
                    defs.setdefault(s["lhs"], []).append(s.get("rv") or {})
        for i in sorted(BB.reach):
            if mm["blocks"][i]["c"]:
                continue
            for s in mm["blocks"][i]["s"]:
                rv = s.get("rv") or {}
                if rv.get("k") == "bin" and str(rv.get("o", "")).startswith("BitAnd"):
                    p = cfg.op_place(rv.get("a"))
                    pl = p if isinstance(p, int) else (p or {}).get("l")
                    for d in defs.get(pl, []):
                        if d.get("k") in ("bin", "checked") and str(d.get("o", "")).startswith("Add"):
                            steps.append(cfg.const_int(d.get("b")))
                        elif d.get("k") == "field" or d.get("k") == "use":
                            # (checked add: tuple field .0 of a checked Add)
                            q = cfg.op_place(d.get("op")) if d.get("k") == "use" else None
                            ql = q if isinstance(q, int) else (q or {}).get("l")
                            for d2 in defs.get(ql, []):
                                if d2.get("k") in ("bin", "checked") and str(d2.get("o", "")).startswith("Add"):
                                    steps.append(cfg.const_int(d2.get("b")))
        n += 1
        ok = bool(steps) and all(x == 1 for x in steps)
        ctx.ob(rule + ".step", "%s.step:%s" % (rule, nm), ok,
               "%s (%s): %s" % (nm, F.where(fs[0]), "the probe advances by (index + 1) & mask" if ok else
                                "the probe index is not advanced by exactly one slot modulo the table size (strides found: %r)" % (steps,)))
    return n


LEN_WRITERS = {
    # function -> deltas it applies to a `len` counter (the table's or an iterator's remaining count)
    "Iter<'a, T, S> as core::iter::Iterator>::next": ["-1"],
    "IterMut<'a, T, S> as core::iter::Iterator>::next": ["-1"],
    "IntoIter<T, S, A> as core::iter::Iterator>::next": ["-1"],
    "IntoIter<T, S, A> as core::ops::Drop>::drop": ["-1"],
    "Drain<'_, T, S> as core::iter::Iterator>::next": ["-1"],
    "Drain<'_, T, S> as core::ops::Drop>::drop": ["-1"],
    "RawTable<T, S, A>>::clear": ["-1"],
    "RawTable<T, S, A>>::clear_no_drop": ["-1"],
    "RawTable<T, S, A>>::drain": ["=0"],
    "RawTable<T, S, A>>::insert_in_slot_unchecked": ["+1"],
    "RawTable<T, S, A>>::remove_at_slot_unchecked": ["-1"],
    "RawTable<T, S, A>>::reset_no_drop": ["=0"],
    "RawTable<T, S, A>>::retain": ["-1"],
}


def len_writes(m, B):
    out = []
    for i in sorted(B.reach):
        b = m["blocks"][i]
        if b["c"]:
            continue
        for s in b["s"]:
            lhs = s.get("lhs")
            if isinstance(lhs, dict) and lhs.get("p") and str(lhs["p"][-1]).startswith(".len@linear_hashtbl::raw::"):
                rv = s["rv"]
                kind = "=expr"
                if rv["k"] == "bin" and rv["o"] in ("Add", "Sub", "AddWithOverflow", "SubWithOverflow") and cfg.const_int(rv["b"]) == 1:
                    kind = "+1" if rv["o"].startswith("Add") else "-1"
                elif rv["k"] == "use" and cfg.const_int(rv["op"]) == 0:
                    kind = "=0"
                out.append(kind)
    return sorted(out)


def check_len_inventory(ctx, F, rule="E-RAW.len"):
    """`len` (the table's element count and the iterators' remaining counts) is what `len()`, `reserve()`'s capacity
    computation and the termination of draining loops rest on.  Inventory of its writers: insertion is the only +1,
    every removal / yielded element a -1, drain / reset the only assignments of 0 -- the direction of each update is
    frozen per function."""
    seen = {}
    for fid, m in sorted(F.mir.items()):
        if not fid.startswith("linear_hashtbl::raw::") or "::test::" in fid or "{closure" in fid:
            continue
        w = len_writes(m, cfg.Body(m))
        if w:
            seen[short(F, fid)] = (w, fid)
    n = 0
    for name, (w, fid) in sorted(seen.items()):
        n += 1
        exp = LEN_WRITERS.get(name)
        ok = exp is not None and sorted(exp) == w
        ctx.ob(rule, "%s:%s" % (rule, name), ok,
               "%s (%s): %s" % (name, F.where(fid), "updates len by %s as reviewed" % w if ok else
                                "updates the element count by %s, reviewed: %s -- a count that moves the wrong way makes len() lie, "
                                "lets draining loops run past the elements and skews the growth decision of reserve()"
                                % (w, exp if exp is not None else "no write in this function")))
    for name, exp in sorted(LEN_WRITERS.items()):
        if name not in seen:
            n += 1
            ctx.ob(rule, "%s:%s" % (rule, name), False, "%s no longer updates the element count (expected %s)" % (name, exp))
    return n


def check_len_zero_tests(ctx, F, rule="E-RAW.lenzero"):
    """The `len == 0` shortcuts of the table and its iterators (`clear`, `retain`, `next`, ...): the constant compared
    with an element count is 0, and the `count is zero` edge leads straight to a return -- no slot is visited from
    it.  A flipped test makes the function skip its work exactly when there is work (an iterator that yields nothing, a
    `clear` that clears nothing) or walk the slot array past its elements."""
    n = 0
    for fid, m in sorted(F.mir.items()):
        if not fid.startswith("linear_hashtbl::raw::") or "::test::" in fid:
            continue
        B = cfg.Body(m)
        blocks = m["blocks"]
        # locals holding a copy of a `.len` field
        lens = set()
        for i in sorted(B.reach):
            for s in blocks[i]["s"]:
                rv = s.get("rv") or {}
                if isinstance(s.get("lhs"), int) and rv.get("k") == "use" and re.search(r"\.len@linear_hashtbl::raw::", str(rv.get("op"))):
                    lens.add(s["lhs"])
        if not lens:
            continue
        slot_ops = [i for i, t in B.calls() if not blocks[i]["c"] and
                    re.search(r"::(get_unchecked|get_unchecked_mut|iter_mut|assume_init_drop|assume_init_read|assume_init_ref|assume_init_mut|offset|add)$",
                              cfg.callee_name(t) or "")]
        for i in sorted(B.reach):
            b = blocks[i]
            if b["c"]:
                continue
            for s in b["s"]:
                rv = s.get("rv") or {}
                if rv.get("k") == "bin" and rv.get("o") in ("Eq", "Ne") and isinstance(s.get("lhs"), int):
                    a = cfg.op_place(rv.get("a"))
                    c = cfg.const_int(rv.get("b"))
                    if a in lens and c is not None:
                        t = b["t"]
                        if t["k"] != "switch" or cfg.op_place(t.get("d")) != s["lhs"]:
                            continue
                        n += 1
                        zero = [blk for v, blk in t["t"] if str(v) == "0"]
                        empty_edge = [t.get("o")] if rv["o"] == "Eq" else zero
                        reach = set()
                        for x in empty_edge:
                            if x is not None:
                                reach |= B.reachable_from(x, avoid=(i,))
                        touched = [j for j in slot_ops if j in reach]
                        ok = c == 0 and not touched
                        ctx.ob(rule, "%s:%s#%d" % (rule, short(F, fid), n), ok,
                               "%s (%s): %s" % (short(F, fid), F.where(fid),
                                                "`len == 0` leads straight out" if ok else
                                                ("an element count is compared with %d (expected 0)" % c) if c != 0 else
                                                "slots are visited on the `len == 0` edge (the emptiness test is inverted): the function "
                                                "skips its work when there are elements"))
    return n


def check_init_and_empty(ctx, F, rule="E-RAW.init"):
    """A table created without slots has `len = 0` and `free = 0` (every struct literal of `RawTable` with constant
    counters), and `is_empty()` is `len == 0`."""
    n = 0
    bad = []
    for fid, m in sorted(F.mir.items()):
        if not fid.startswith("linear_hashtbl::raw::") or "::test::" in fid:
            continue
        for b in m["blocks"]:
            if b["c"]:
                continue
            for s in b["s"]:
                rv = s.get("rv") or {}
                if rv.get("k") == "aggr" and str(rv.get("adt", "")).endswith("raw::RawTable"):
                    n += 1
                    consts = [cfg.const_int(o) for o in rv.get("ops", [])]
                    ints = [c for c in consts if c is not None]
                    if any(c != 0 for c in ints):
                        bad.append("%s (%s): a RawTable is created with constant counters %r (expected 0)" % (short(F, fid), F.where(fid), ints))
    ie = [f for f in F.mir if f.startswith("linear_hashtbl::raw::") and f.endswith("::is_empty") and "RawTable<" in F.nice(f)]
    for fid in ie:
        m = F.mir[fid]
        ok = any(s.get("lhs") == 0 and (s.get("rv") or {}).get("k") == "bin" and s["rv"].get("o") == "Eq" and cfg.const_int(s["rv"].get("b")) == 0
                 for b in m["blocks"] for s in b["s"])
        n += 1
        if not ok:
            bad.append("%s (%s): is_empty is not `len == 0`" % (short(F, fid), F.where(fid)))
    ctx.ob(rule, rule, not bad and n >= 3, "; ".join(bad[:3]) if bad else "%d constructors / is_empty: counters start at 0, is_empty is len == 0" % n)
    return n
