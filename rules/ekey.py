"""E-CACHE.key: an entry of the direct-mapped apply cache answers exactly the key it was given.

`EntryGuard::set(operator, operands, values)` stores one key / value pair; `EntryGuard::get::<E, N>(operator, operands)`
returns `Some(values)` iff the entry is occupied and operator, the numbers of edge / numeric operands, every edge
operand, every numeric operand (position by position) and the numbers of edge / numeric values all agree.  Both functions
(and `clear`, `is_occupied`, `CountPair::new`) are interpreted from HIR on a model entry:

  hit      set(A, ([e1, e2], [7]), ([r], [3])); get::<1, 1>(A, ([e1, e2], [7])) = Some(([r], [3]));
  miss     the same get with another operator, one edge operand changed, the edge operands swapped, the numeric operand
           changed, an operand dropped or moved between the two kinds, or other value counts (<1, 0>, <0, 1>, <2, 1>)
           returns None; get on a fresh entry and after clear() returns None;
  second   a second set() replaces the first key (the first key misses, the second hits).

A `get` that answers for another key hands an operation the memoised result of a different call.
"""
import tables
from lib.interp import Edge, ElemRef, Enum, Interp, Opaque, Panic, StructVal, Unrecognised, enumerate_runs
from tables import SOME, NONE

RULE = "E-CACHE.key"
BASE = "oxidd_cache::direct::"
CAP = 6
KIND_COUNT = None


class Slot:
    def __init__(self):
        self.v = Opaque("uninit")


class Rec:
    def __init__(self, **kw):
        self.__dict__.update(kw)


class It:
    def __init__(self, items):
        self.items = list(items)


def new_entry(null):
    inner = Rec(operands=[null], values=[null], operator=[Opaque("uninit")], data=[[Slot() for _ in range(CAP)]])
    return Rec(**{"0": inner})


class KeyDomain(tables.DDDomain):
    finite_loops = True

    def __init__(self, F, kind_count):
        super().__init__(F, tables.BDD, helpers=tuple(f for f, r in F.fns.items() if f.startswith(BASE) and f in F.hir
                                                      and "CountPair" in (r.get("impl") or {}).get("self", "")))
        self.kind_count = kind_count

    def const(self, it, e):
        c = self.F.consts.get(e.get("did") or "")
        if c is not None and "body" in c and str(e.get("did", "")).startswith(BASE):
            return it.ev(c["body"], {"$consts": {}, "$fn": e["did"], "$mut": {}})
        return super().const(it, e)

    def self_ctor(self, it, args, env):
        return Enum(BASE + "CountPair", [a & 0xff if isinstance(a, int) else a for a in args])

    def field(self, it, v, n):
        if isinstance(v, ElemRef):
            v = v.get()
        if isinstance(v, Rec) and hasattr(v, n):
            return getattr(v, n)
        if isinstance(v, Slot) and n == "numeric":
            return v.v
        return None

    def field_assign(self, it, base, n, v):
        if isinstance(base, ElemRef):
            base = base.get()
        if isinstance(base, Slot) and n == "numeric":
            base.v = v
            return True
        return False

    def iterate(self, it, src):
        if isinstance(src, ElemRef):
            src = src.get()
        if isinstance(src, It):
            items, src.items = src.items, []
            return items
        if isinstance(src, (list, tuple)):
            return list(src)
        return None

    def call_value(self, it, fv, args):
        if isinstance(fv, tuple) and fv and fv[0] == "closure":
            _, ce, cenv = fv
            env = dict(cenv)
            for p, a in zip(ce.get("params", []), args):
                it.match(p, a, env)
            return it.ev(ce["body"], env)
        raise Unrecognised("call of %r" % (fv,))

    def call(self, it, name, f, args_e, env, e):
        n = f.get("n", "")
        if n.endswith("array::from_fn"):
            (clo,) = [it.ev(a, env) for a in args_e]
            ga = f.get("ga") or []
            k = None
            for g in ga:
                if isinstance(g, dict):
                    g = g.get("n") or g.get("c") or g.get("v") or ""
                if isinstance(g, str) and g in (env.get("$consts") or {}):
                    k = env["$consts"][g]
                elif isinstance(g, str) and g.isdigit():
                    k = int(g)
            if k is None:
                raise Unrecognised("array::from_fn length %r" % (ga,))
            return [self.call_value(it, clo, [i]) for i in range(k)]
        if n.endswith("panicking::panic") or n.endswith("panicking::panic_fmt") or n.endswith("assert_failed"):
            raise Panic("assertion failed (line %s)" % e.get("ln"))
        return super().call(it, name, f, args_e, env, e)

    def method(self, it, m, e, env):
        name = m.rsplit("::", 1)[-1]
        recv = it.recv(e, env)
        ref = recv if isinstance(recv, ElemRef) else None
        if ref is not None and name not in ("write",):
            recv = ref.get()
        if isinstance(recv, Rec) and hasattr(recv, "0") and m.startswith(BASE + "EntryGuard"):
            fid = next((f for f in self.F.hir if f.startswith(BASE) and f.endswith("::" + name) and "EntryGuard" in self.F.nice(f)), None)
            if fid:
                return it.call_fn(fid, [recv] + it.args(e, env), {"ENTRY_CAP": CAP})
        if isinstance(recv, list) and len(recv) == 1 and name == "get" and "UnsafeCell" in m:
            return ElemRef(recv, 0)
        if ref is not None and name == "write":
            (v,) = it.args(e, env)
            ref.set(v)
            return ref
        if name == "assume_init":
            return recv
        if isinstance(recv, Slot):
            if name == "write_edge":
                (v,) = it.args(e, env)
                recv.v = v
                return ()
            if name == "assume_edge_ref":
                return recv.v
        if isinstance(recv, (list, tuple)):
            if name in ("iter", "iter_mut"):
                return It(recv)
            if name == "len":
                return len(recv)
            if name == "split_at":
                (k,) = it.args(e, env)
                if k > len(recv):
                    raise Panic("split_at beyond the end")
                return (list(recv[:k]), list(recv[k:]))
        if isinstance(recv, It):
            if name in ("by_ref", "iter"):
                return recv
            if name == "as_slice":
                return list(recv.items)
            if name == "zip":
                (o,) = it.args(e, env)
                if not isinstance(o, It):
                    o = It(self.iterate(it, o))
                k = min(len(recv.items), len(o.items))
                a, recv.items = recv.items[:k], recv.items[k:]
                b, o.items = o.items[:k], o.items[k:]
                return It(list(zip(a, b)))
        if isinstance(recv, Edge) and name in ("borrowed", "clone"):
            return recv
        if name == "clone_edge":
            (v,) = it.args(e, env)
            return v
        return super().method(it, m, e, env)


def run(ctx, F, rule=RULE):
    n = 0
    fns = {}
    for f, r in F.fns.items():
        imp = r.get("impl") or {}
        if f.startswith(BASE) and f in F.hir and "EntryGuard" in imp.get("self", "") and not imp.get("trait"):
            fns[f.rsplit("::", 1)[-1]] = f
    cp_new = next((f for f, r in F.fns.items() if f.startswith(BASE) and f.endswith("::new") and "CountPair" in (r.get("impl") or {}).get("self", "")), None)
    kc = next((c for k, c in F.consts.items() if k.startswith(BASE) and k.endswith("KIND_COUNT")), None)
    if not ctx.anchor(rule, "EntryGuard::get / set / clear / is_occupied, CountPair::new, KIND_COUNT",
                      all(k in fns for k in ("get", "set", "clear", "is_occupied")) and cp_new):
        return 0
    kind_count = None
    e1, e2, e3, r1 = (Edge(("N", x)) for x in ("e1", "e2", "e3", "r"))
    A, B = Enum("op::A"), Enum("op::B")
    null = Enum(BASE + "CountPair", [0])
    fails = []

    def session(steps):
        """steps: list of ("set", op, operands, values) | ("clear",) | ("get", E, N, op, operands) -> results of the gets"""
        def go(it):
            ent = new_entry(null)
            out = []
            for st in steps:
                if st[0] == "set":
                    it.call_fn(fns["set"], [ent, st[1], st[2], st[3]], {"ENTRY_CAP": CAP})
                elif st[0] == "clear":
                    it.call_fn(fns["clear"], [ent], {"ENTRY_CAP": CAP})
                elif st[0] == "occ":
                    out.append(it.call_fn(fns["is_occupied"], [ent], {"ENTRY_CAP": CAP}))
                else:
                    out.append(it.call_fn(fns["get"], [ent, Opaque("manager"), st[3], st[4]], {"ENTRY_CAP": CAP, "E": st[1], "N": st[2]}))
            return out
        outs = list(enumerate_runs(lambda o: Interp(F, KeyDomain(F, kind_count), o), go))
        if len(outs) != 1 or outs[0][1][0] != "ok":
            raise Unrecognised(repr(outs[0][1] if outs else None))
        return outs[0][1][1]

    def is_some(v, edges, nums):
        return isinstance(v, Enum) and v.path == SOME and isinstance(v.args[0], tuple) and list(v.args[0][0]) == edges and list(v.args[0][1]) == nums

    def is_none(v):
        return isinstance(v, Enum) and v.path == NONE
    key = ([e1, e2], [7])
    val = ([r1], [3])
    stored = ("set", A, key, val)
    try:
        n += 1
        (v, occ) = session([stored, ("get", 1, 1, A, key), ("occ",)])
        if not is_some(v, [r1], [3]) or occ is not True:
            fails.append("get of the key just stored yields %r (occupied: %r), expected Some(([r], [3]))" % (v, occ))
        misses = [("another operator", 1, 1, B, key), ("an edge operand changed", 1, 1, A, ([e1, e3], [7])),
                  ("the edge operands swapped", 1, 1, A, ([e2, e1], [7])), ("the numeric operand changed", 1, 1, A, ([e1, e2], [8])),
                  ("an edge operand dropped", 1, 1, A, ([e1], [7])), ("the numeric operand dropped", 1, 1, A, ([e1, e2], [])),
                  ("an operand more", 1, 1, A, ([e1, e2], [7, 7])), ("fewer edge values requested", 0, 1, A, key),
                  ("fewer numeric values requested", 1, 0, A, key), ("more edge values requested", 2, 1, A, key)]
        for label, E, N, op, k in misses:
            n += 1
            (v,) = session([stored, ("get", E, N, op, k)])
            if not is_none(v):
                fails.append("get with %s answers %r for the stored key, expected None" % (label, v))
        n += 3
        (v, occ) = session([("get", 1, 1, A, key), ("occ",)])
        if not is_none(v) or occ is not False:
            fails.append("get on a fresh entry yields %r (occupied: %r)" % (v, occ))
        (v, occ) = session([stored, ("clear",), ("get", 1, 1, A, key), ("occ",)])
        if not is_none(v) or occ is not False:
            fails.append("get after clear() yields %r (occupied: %r)" % (v, occ))
        (v1, v2) = session([stored, ("set", B, ([e3], []), ([e1, e2], [])), ("get", 1, 1, A, key), ("get", 2, 0, B, ([e3], []))])
        if not is_none(v1) or not is_some(v2, [e1, e2], []):
            fails.append("after a second set(): first key yields %r, second key yields %r" % (v1, v2))
        # numeric-only key (as used by sat_count style caches)
        n += 1
        (v, w) = session([("set", A, ([], [4, 5]), ([], [9])), ("get", 0, 1, A, ([], [4, 5])), ("get", 0, 1, A, ([], [5, 4]))])
        if not is_some(v, [], [9]) or not is_none(w):
            fails.append("numeric-only key: hit yields %r, swapped operands yield %r" % (v, w))
    except Unrecognised as u:
        fails.append("not interpretable: %s" % u)
    except Panic as p:
        fails.append("panic: %s" % p.msg)
    ctx.ob(rule, rule, not fails, "EntryGuard::get / set (%s): %s" % (F.where(fns["get"]), " || ".join(fails[:3]) if fails else
           "an entry answers exactly the operator / operands / value counts it stores"))
    return n
