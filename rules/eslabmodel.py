"""E-SLAB.model: the slab allocator of the pointer-based manager never hands out a slot twice.

`PageList::new`, `PageList::get_slot`, `Page::new`, `Page::first_slot`, `Page::page_ptr`, `Page::slab` and
`Page::free_slot` are interpreted from HIR with integer addresses (256 byte pages, 40 byte header, 16 byte slots) and
a memory of slot links and page headers:

  fresh     30 consecutive `get_slot` calls return 30 distinct, slot-aligned addresses inside allocated pages (a new page
            is taken exactly when the current one is used up; its header records the slab and the previous page);
  recycle   after `free_slot` of two of them the next two `get_slot` calls return exactly these two (last freed first), and
            the one after that a slot that is not in use; the item counter goes down by one per `free_slot`.
"""
import eslab
from eslab import Ptr, PAGE, HDR, SLOT, BASE_ADDR
from lib.interp import Enum, Interp, Opaque, Panic, StructVal, Unrecognised, enumerate_runs
from tables import SOME, NONE

RULE = "E-SLAB.model"
SLAB = 0x500


class FieldPtr:
    def __init__(self, addr, name):
        self.addr, self.name = addr, name

    def __repr__(self):
        return "&(%#x).%s" % (self.addr, self.name)


class RefTo:
    def __init__(self, addr, size):
        self.addr, self.size = addr, size


class Obj:
    def __init__(self, **kw):
        self.__dict__.update(kw)


class Mem:
    def __init__(self):
        self.cells = {}
        self.pages = []
        self.items = {}
        self.item_count = 0
        self.page_list = None


class ModelDomain(eslab.SlabDomain):
    def __init__(self, F, mem):
        super().__init__(F)
        self.mem = mem
        self.helpers = set(f for f in F.hir if f.startswith("arcslab::"))

    def field(self, it, v, n):
        if isinstance(v, Ptr):
            if n == "items" and v.size == PAGE:
                return Ptr(v.addr + HDR, SLOT)
            return FieldPtr(v.addr, n)
        if isinstance(v, RefTo):
            if v.addr == SLAB and n == "int":
                return Obj(kind="int")
            if (v.addr, n) not in self.mem.cells:
                raise Panic("read of the uninitialised field %s at %#x" % (n, v.addr))
            return self.mem.cells[(v.addr, n)]
        if isinstance(v, Obj) and v.kind == "int":
            if n == "items":
                return Obj(kind="counter")
            if n == "pages":
                return Obj(kind="mutex")
        return super().field(it, v, n)

    def field_assign(self, it, base, n, v):
        if isinstance(base, RefTo):
            self.mem.cells[(base.addr, n)] = v
            return True
        if isinstance(base, StructVal):
            base.fields[n] = v
            return True
        return False

    def call(self, it, name, f, args_e, env, e):
        n = f.get("did") or f.get("n", "")
        nn = f.get("n", "")
        if n.endswith("alloc::alloc"):
            [it.ev(a, env) for a in args_e]
            base = BASE_ADDR + PAGE * len(self.mem.pages)
            self.mem.pages.append(base)
            return Ptr(base, 1)
        if n.endswith("ptr::write"):
            dst, v = [it.ev(a, env) for a in args_e]
            if isinstance(dst, FieldPtr):
                self.mem.cells[(dst.addr, dst.name)] = v
                return ()
            if isinstance(dst, Ptr) and dst.size == PAGE and isinstance(v, StructVal):
                for k, x in v.fields.items():
                    self.mem.cells[(dst.addr, k)] = x
                return ()
            if isinstance(dst, Ptr) and dst.size == SLOT:
                self.mem.cells.pop((dst.addr, "next_free"), None)
                self.mem.items[dst.addr] = v
                return ()
            raise Unrecognised("ptr::write to %r" % (dst,))
        if n.endswith("ptr::read"):
            (src,) = [it.ev(a, env) for a in args_e]
            if isinstance(src, FieldPtr):
                if (src.addr, src.name) not in self.mem.cells:
                    raise Panic("read of the uninitialised field %s at %#x" % (src.name, src.addr))
                return self.mem.cells[(src.addr, src.name)]
            raise Unrecognised("ptr::read of %r" % (src,))
        if nn.endswith("ManuallyDrop::<T>::new") or nn.endswith("ManuallyDrop::new"):
            return [it.ev(a, env) for a in args_e][0]
        return super().call(it, name, f, args_e, env, e)

    def method(self, it, m, e, env):
        name = m.rsplit("::", 1)[-1]
        recv = it.recv(e, env)
        if isinstance(recv, Ptr):
            if name in ("as_ref", "as_mut"):
                return RefTo(recv.addr, recv.size)
        if isinstance(recv, Obj):
            if recv.kind == "counter" and name in ("fetch_add", "fetch_sub"):
                (k, _) = it.args(e, env)
                old = self.mem.item_count
                self.mem.item_count += k if name == "fetch_add" else -k
                return old
            if recv.kind == "mutex" and name == "lock":
                return self.mem.page_list
        if isinstance(recv, StructVal) and str(recv.path).endswith("PageList") and m.startswith("arcslab::"):
            fid = next((f for f in self.F.hir if f.startswith("arcslab::") and f.endswith("::" + name) and "PageList<" in self.F.nice(f)), None)
            if fid:
                return it.call_fn(fid, [recv] + it.args(e, env), {"PAGE_SIZE": PAGE})
        return super().method(it, m, e, env)

    def _const_args(self, it, f, env, did):
        return {"PAGE_SIZE": PAGE}


def run(ctx, F, rule=RULE):
    fn = {}
    for f in F.hir:
        if not f.startswith("arcslab::"):
            continue
        nice = F.nice(f)
        nm = f.rsplit("::", 1)[-1]
        if "PageList<" in nice and nm in ("new", "get_slot") and "{closure" not in f:
            fn["pl_" + nm] = f
        if "arcslab::Page<" in nice and nm in ("free_slot",):
            fn[nm] = f
    if not ctx.anchor(rule, "arcslab PageList::new / get_slot, Page::free_slot", all(k in fn for k in ("pl_new", "pl_get_slot", "free_slot"))):
        return 0
    mem = Mem()
    fails = []
    n = 0

    def call(fid, *args):
        outs = list(enumerate_runs(lambda o: Interp(F, ModelDomain(F, mem), o, max_depth=8), lambda it: it.call_fn(fid, list(args), {"PAGE_SIZE": PAGE})))
        if len(outs) != 1:
            raise Unrecognised("nondeterministic")
        st, val = outs[0][1]
        if st == "panic":
            raise Panic(val)
        if st != "ok":
            raise Unrecognised("%s %s" % (st, val))
        return val

    def check_slot(p, live, what):
        if not isinstance(p, Ptr):
            raise Panic("%s returns %r" % (what, p))
        base = p.addr & ~(PAGE - 1)
        if base not in mem.pages or p.addr < base + HDR or p.addr + SLOT > base + PAGE or (p.addr - base - HDR) % SLOT:
            raise Panic("%s returns %#x, which is not a slot of an allocated page" % (what, p.addr))
        if p.addr in live:
            raise Panic("%s returns the slot %#x, which is in use: two nodes share a slot" % (what, p.addr))
    try:
        pl = call(fn["pl_new"], Ptr(SLAB, 8))
        if not isinstance(pl, StructVal):
            raise Unrecognised("PageList::new returns %r" % (pl,))
        mem.page_list = pl
        live, order = set(), []
        for k in range(30):
            n += 1
            p = call(fn["pl_get_slot"], pl)
            check_slot(p, live, "get_slot #%d" % k)
            live.add(p.addr)
            order.append(p.addr)
            mem.cells.pop((p.addr, "next_free"), None)        # the caller overwrites the slot with its item
        per_page = (PAGE - HDR) // SLOT
        want_pages = 30 // per_page + 1
        if len(mem.pages) != want_pages:
            fails.append("30 slots of %d per page took %d pages, expected %d" % (per_page, len(mem.pages), want_pages))
        for i, base in enumerate(mem.pages):
            hdr = (mem.cells.get((base, "slab")), mem.cells.get((base, "prev")))
            wantp = mem.pages[i - 1] if i else 0
            if not (isinstance(hdr[0], Ptr) and hdr[0].addr == SLAB and isinstance(hdr[1], Ptr) and hdr[1].addr == wantp):
                fails.append("the header of page %d records slab %r and previous page %r" % (i, hdr[0], hdr[1]))
        a, b = order[5], order[20]
        for x in (a, b):
            n += 1
            mem.item_count += 0
            before = mem.item_count
            call(fn["free_slot"], Ptr(x, SLOT))
            live.discard(x)
            if mem.item_count != before - 1:
                fails.append("free_slot changes the item counter from %d to %d" % (before, mem.item_count))
        got = []
        for k in range(3):
            n += 1
            p = call(fn["pl_get_slot"], pl)
            check_slot(p, live, "get_slot after free_slot #%d" % k)
            live.add(p.addr)
            got.append(p.addr)
            mem.cells.pop((p.addr, "next_free"), None)
        if got[:2] != [b, a]:
            fails.append("after freeing %#x and %#x the next two get_slot calls return %s" % (a, b, ", ".join("%#x" % g for g in got[:2])))
    except Panic as p_:
        fails.append(str(p_.msg))
    except Unrecognised as u:
        fails.append("not interpretable: %s" % u)
    ctx.ob(rule, rule, not fails, "slab allocator of the pointer-based store (%s): %s" % (F.where(fn["pl_get_slot"]), " || ".join(fails[:3]) if fails else
           "every slot is handed out once, freed slots are reused, pages are chained"))
    return n
