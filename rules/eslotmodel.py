"""E-SLOT.model: the index-based manager never hands out a slot twice.

`Store::add_node` picks a slot from the thread's own free list, from the rest of the thread's pre-allocated chunk, or
through `get_slot_from_shared` from the shared free lists / a fresh chunk / a single slot beyond the last full chunk,
and answers OutOfMemory exactly when nothing is left.  `add_node`, `get_slot_from_shared` and `use_free_slot` are
interpreted from HIR on a model store (chunk size 4, 10 slots, 2 terminals) for short allocation sequences:

  owner     a worker thread of the store allocates 11 nodes: ids 2..11 each once, every node written to its own slot,
            the 11th answer is OutOfMemory (and stays so);
  foreign   a thread whose local state belongs to no / another store does the same through the shared state only;
  two       two worker threads alternate (A, B, A, A, B, A, B, B, ...): all ids distinct, 10 successes, then OutOfMemory;
  reuse     a full store, `free_slot` of the nodes 5, 8 and 3, three more allocations: exactly these ids, then OutOfMemory;
  sessions  a thread enters the store (`prepare_local_state`), allocates 2 / 4 / 5 nodes, leaves (the guard's drop returns the rest
            of its chunk and its own list to the shared state), enters again and allocates 12: over both sessions every id is handed
            out exactly once, the shared node count is exact, then OutOfMemory;
  recycled  with every slot allocated and the shared free list [7] (7 -> 9 -> end): an owner thread gets 7, then 9 from its
            own list, then OutOfMemory; a foreign thread gets 7 (handing the rest of the list back), then 9, then
            OutOfMemory.
"""
import tables
from lib.interp import Enum, Interp, Opaque, Panic, Return, StructVal, Unrecognised, enumerate_runs
from tables import OK, ERR, SOME, NONE

RULE = "E-SLOT.model"
BASE = "oxidd_manager_index::manager::"
CH, NSLOTS, TERMS, ADDR = 4, 10, 2, 0x7000


class Cell:
    def __init__(self, v):
        self.v = v


class Obj:
    def __init__(self, **kw):
        self.__dict__.update(kw)


class SlotDomain(tables.DDDomain):
    finite_loops = True

    def __init__(self, F, store, local):
        super().__init__(F, tables.BDD)
        self.store, self.local = store, local
        self.dropped = 0

    def const(self, it, e):
        n = e.get("n") or ""
        if n.endswith("CHUNK_SIZE"):
            return CH
        if n.endswith("LOCAL_STORE_STATE"):
            return ("tls",)
        return super().const(it, e)

    def equal(self, it, a, b):
        if isinstance(a, Obj) or isinstance(b, Obj):
            return a is b
        return super().equal(it, a, b)

    def iterate(self, it, v):
        return list(v) if isinstance(v, (list, tuple)) else None

    def call_value(self, it, fv, args):
        if isinstance(fv, tuple) and fv and fv[0] == "closure":
            _, ce, cenv = fv
            env = dict(cenv)
            for p, a in zip(ce.get("params", []), args):
                it.match(p, a, env)
            try:
                return it.ev(ce["body"], env)
            except Return as r:
                return r.v
        raise Unrecognised("call of %r" % (fv,))

    def field(self, it, v, n):
        if isinstance(v, Obj) and hasattr(v, n):
            return getattr(v, n)
        return None

    def field_assign(self, it, base, n, v):
        if isinstance(base, Obj):
            setattr(base, n, v)
            return True
        return False

    def call(self, it, name, f, args_e, env, e):
        n = f.get("n", "")
        did = f.get("did") or ""
        if n == BASE + "addr" or did == BASE + "addr":
            (p,) = [it.ev(a, env) for a in args_e]
            return p.addr if isinstance(p, Obj) and hasattr(p, "addr") else 0
        if did.endswith("::return_slot") and "::free_slot::" in did and did in self.F.hir:
            return it.call_fn(did, [it.ev(a, env) for a in args_e])
        if n.endswith("ManuallyDrop::<T>::take") or n.endswith("ManuallyDrop::take"):
            return [it.ev(a, env) for a in args_e][0]
        if did.endswith("::drop::return_preallocated") and did in self.F.hir:
            return it.call_fn(did, [it.ev(a, env) for a in args_e])
        if n.endswith("IntoIterator::into_iter"):
            return [it.ev(a, env) for a in args_e][0]
        if n.endswith("ManuallyDrop::<T>::new") or n.endswith("ManuallyDrop::new"):
            return [it.ev(a, env) for a in args_e][0]
        if did.endswith("panicking::panic") or did.endswith("panicking::panic_fmt") or did.endswith("assert_failed"):
            raise Panic("assertion failed (line %s)" % e.get("ln"))
        return super().call(it, name, f, args_e, env, e)

    def method(self, it, m, e, env):
        nm = m.rsplit("::", 1)[-1]
        recv = it.recv(e, env)
        if isinstance(recv, tuple) and recv == ("tls",) and nm == "with":
            (clo,) = it.args(e, env)
            return self.call_value(it, clo, [self.local])
        if isinstance(recv, Cell):
            if nm == "get":
                return recv.v
            if nm == "set":
                (x,) = it.args(e, env)
                recv.v = x
                return ()
            if nm == "replace":
                (x,) = it.args(e, env)
                old, recv.v = recv.v, x
                return old
        if isinstance(recv, Obj):
            kind = getattr(recv, "kind", "")
            if kind == "slot" and nm == "get":
                return recv                                   # UnsafeCell::get
            if kind == "mutex" and nm == "lock":
                return recv.inner
            if kind == "node":
                if nm == "load_rc":
                    it.args(e, env)
                    return 2
                if nm == "drop_with":
                    it.args(e, env)
                    self.dropped += 1
                    return ()
            if kind == "condvar" and nm in ("notify_one", "notify_all"):
                return ()
            if kind == "store" and m.startswith(BASE):
                fid = next((f for f in self.F.hir if f.startswith(BASE) and f.endswith("::" + nm) and "Store<" in self.F.nice(f)), None)
                if fid:
                    return it.call_fn(fid, [recv] + it.args(e, env), {"TERMINALS": TERMS})
        if isinstance(recv, Enum) and recv.path in (SOME, NONE) and nm == "unwrap_or":
            (d_,) = it.args(e, env)
            return recv.args[0] if recv.path == SOME else d_
        if isinstance(recv, list):
            if nm == "pop":
                return Enum(SOME, [recv.pop()]) if recv else Enum(NONE)
            if nm == "push":
                (x,) = it.args(e, env)
                recv.append(x)
                return ()
            if nm == "len":
                return len(recv)
            if nm in ("iter", "iter_mut", "into_iter"):
                return list(recv)
            if nm == "zip":
                (o,) = it.args(e, env)
                if isinstance(o, StructVal) and str(o.path).endswith("RangeFrom"):
                    return [(x, o.fields["start"] + i) for i, x in enumerate(recv)]
                return list(zip(recv, o))
            if nm in ("get_unchecked", "get_unchecked_mut"):
                (i,) = it.args(e, env)
                if not (isinstance(i, int) and 0 <= i < len(recv)):
                    raise Panic("get_unchecked(%r) outside the %d slots" % (i, len(recv)))
                return recv[i]
        return super().method(it, m, e, env)


def new_store(F):
    slots = [Obj(kind="slot", next_free=None, node=None, idx=i) for i in range(NSLOTS)]
    gcs = next((k for k in F.adts if k.startswith(BASE) and k.endswith("GCState")), BASE + "GCState")
    shared = Obj(kind="shared", node_count=0, gc_state=Enum(gcs + "::Init"), gc_hwm=1000, gc_lwm=0, next_free=[], allocated=0)
    return Obj(kind="store", addr=ADDR, state=Obj(kind="mutex", inner=shared), inner_nodes=Obj(kind="inner", slots=slots),
               gc_signal=(Obj(kind="mutex", inner=Opaque("signal")), Obj(kind="condvar"))), shared, slots


def new_local(owner):
    return Obj(kind="local", next_free=Cell(0), initialized=Cell(0), current_store=Cell(ADDR if owner else 0), node_count_delta=Cell(0))


def run(ctx, F, rule=RULE):
    fns = {nm: next((f for f in F.hir if f.startswith(BASE) and f.endswith("::" + nm) and "Store<" in F.nice(f)), None)
           for nm in ("add_node", "get_slot_from_shared", "use_free_slot")}
    if not ctx.anchor(rule, "Store::add_node / get_slot_from_shared / use_free_slot", all(fns.values())):
        return 0
    fails = []
    n = 0

    def alloc(store, local, tag):
        node = Obj(kind="node", tag=tag)
        holder = {}

        def mk(o):
            holder["d"] = SlotDomain(F, store, local)
            return Interp(F, holder["d"], o, max_depth=8)
        outs = list(enumerate_runs(mk, lambda it: it.call_fn(fns["add_node"], [store, node], {"TERMINALS": TERMS})))
        if len(outs) != 1:
            raise Unrecognised("add_node is nondeterministic")
        st, val = outs[0][1]
        if st == "panic":
            raise Panic(val)
        if st != "ok":
            raise Unrecognised("%s %s" % (st, val))
        if isinstance(val, Enum) and val.path == ERR:
            if holder["d"].dropped != 1:
                raise Panic("OutOfMemory without releasing the node's children")
            return None, node
        if not (isinstance(val, Enum) and val.path == OK):
            raise Unrecognised("add_node returns %r" % (val,))
        edges = val.args[0]
        ids = {x.args[0] for x in edges if isinstance(x, Enum)}
        if len(ids) != 1:
            raise Panic("add_node returns edges with different ids %r" % (edges,))
        return ids.pop(), node

    def sequence(label, store, slots, plan, expect_ok, universe):
        """plan: list of locals (one allocation each); expect_ok successes with distinct ids from `universe`, then OutOfMemory"""
        got = []
        try:
            for k, local in enumerate(plan):
                i, node = alloc(store, local, k)
                got.append(i)
                if i is not None:
                    if not (TERMS <= i < TERMS + NSLOTS):
                        fails.append("%s: allocation %d gets the id %r outside the store" % (label, k, i))
                        return
                    if slots[i - TERMS].node is not node:
                        fails.append("%s: allocation %d (id %d) does not write its node into slot %d" % (label, k, i, i - TERMS))
                        return
        except Panic as p:
            fails.append("%s: allocation %d panics: %s" % (label, len(got), p.msg))
            return
        except Unrecognised as u:
            fails.append("%s: not interpretable at allocation %d: %s" % (label, len(got), u))
            return
        oks = [g for g in got if g is not None]
        if len(set(oks)) != len(oks):
            dup = sorted({g for g in oks if oks.count(g) > 1})
            fails.append("%s: the ids %r are handed out twice (sequence of answers %r): two nodes share a slot" % (label, dup, got))
        elif len(oks) != expect_ok or got[:expect_ok] != oks or any(g is not None for g in got[expect_ok:]) or set(oks) != set(universe):
            fails.append("%s: answers %r, expected %d distinct ids from %r followed by OutOfMemory" % (label, got, expect_ok, sorted(universe)))
    full = set(range(TERMS, TERMS + NSLOTS))
    # owner / foreign
    for owner in (True, False):
        n += 1
        store, shared, slots = new_store(F)
        loc = new_local(owner)
        sequence("one %s thread, 12 allocations on 10 slots" % ("worker" if owner else "foreign"), store, slots, [loc] * 12, 10, full)
    # two workers alternating
    n += 1
    store, shared, slots = new_store(F)
    a, b = new_local(True), new_local(True)
    sequence("two worker threads alternating", store, slots, [a, b, a, a, b, a, b, b, a, b, a, b], 10, full)
    n += 1
    store, shared, slots = new_store(F)
    a, b = new_local(True), new_local(False)
    sequence("a worker and a foreign thread alternating", store, slots, [a, b, b, a, a, b, a, a, b, a, b, a], 10, full)
    # recycled slots
    for owner in (True, False):
        n += 1
        store, shared, slots = new_store(F)
        shared.allocated = NSLOTS
        shared.next_free = [7]
        slots[7 - TERMS].next_free = 9
        slots[9 - TERMS].next_free = 0
        loc = new_local(owner)
        if owner:
            loc.initialized.v = 8      # a multiple of the chunk size: the thread's chunk is used up
        sequence("all slots allocated, shared free list 7 -> 9, one %s thread" % ("worker" if owner else "foreign"), store, slots, [loc] * 4, 2, {7, 9})
    # free and reuse: a full store, three nodes freed through Store::free_slot, three allocations get exactly these slots
    fs = next((f for f in F.hir if f.startswith(BASE) and f.endswith("::free_slot") and "Store<" in F.nice(f)), None)
    if ctx.anchor(rule, "Store::free_slot", fs is not None):
        for owner in (True, False):
            n += 1
            store, shared, slots = new_store(F)
            loc = new_local(owner)
            label = "full store, free_slot of 5, 8, 3 by a %s thread, three allocations" % ("worker" if owner else "foreign")
            try:
                ids = [alloc(store, loc, k)[0] for k in range(11)]
                if sorted(i for i in ids if i is not None) != sorted(full) or ids[-1] is not None:
                    raise Panic("filling the store answers %r" % (ids,))
                for i in (5, 8, 3):
                    outs = list(enumerate_runs(lambda o: Interp(F, SlotDomain(F, store, loc), o, max_depth=8),
                                               lambda it: it.call_fn(fs, [store, slots[i - TERMS], i], {"TERMINALS": TERMS})))
                    if len(outs) != 1 or outs[0][1][0] != "ok":
                        raise Unrecognised("free_slot yields %r" % (outs[0][1] if outs else None,))
                got = [alloc(store, loc, 20 + k)[0] for k in range(4)]
                if sorted(g for g in got[:3] if g is not None) != [3, 5, 8] or got[3] is not None:
                    fails.append("%s: answers %r, expected the ids 3, 5, 8 (each once) and then OutOfMemory" % (label, got))
            except Panic as p_:
                fails.append("%s: %s" % (label, p_.msg))
            except Unrecognised as u:
                fails.append("%s: not interpretable: %s" % (label, u))
    # sessions: a thread enters the store (prepare_local_state), allocates, leaves (guard drop: the rest of its chunk and its own
    # free list go back to the shared state), enters again: over both sessions every slot is handed out once
    prep = next((f for f in F.hir if f.startswith(BASE) and f.endswith("::prepare_local_state") and "Store<" in F.nice(f)), None)
    gdrop = next((f for f, r in F.fns.items() if f.startswith(BASE) and f.endswith("::drop") and f in F.hir
                  and "LocalStoreStateGuard" in (r.get("impl") or {}).get("self", "")), None)
    if ctx.anchor(rule, "Store::prepare_local_state / <LocalStoreStateGuard as Drop>::drop", prep is not None and gdrop is not None):
        for first in (2, 4, 5):
            n += 1
            store, shared, slots = new_store(F)
            loc = new_local(False)
            label = "two sessions of one thread (%d, then 12 allocations)" % first
            got = []
            try:
                for k_total in (first, 12):
                    outs = list(enumerate_runs(lambda o: Interp(F, SlotDomain(F, store, loc), o, max_depth=8),
                                               lambda it: it.call_fn(prep, [store], {"TERMINALS": TERMS})))
                    if len(outs) != 1 or outs[0][1][0] != "ok" or not (isinstance(outs[0][1][1], Enum) and outs[0][1][1].path == SOME):
                        raise Unrecognised("prepare_local_state yields %r" % (outs[0][1] if outs else None,))
                    guard = outs[0][1][1].args[0]
                    for k in range(k_total):
                        i, node = alloc(store, loc, k)
                        got.append(i)
                        if i is not None and slots[i - TERMS].node is not node:
                            raise Panic("id %d does not hold its node" % i)
                    outs = list(enumerate_runs(lambda o: Interp(F, SlotDomain(F, store, loc), o, max_depth=8),
                                               lambda it: it.call_fn(gdrop, [guard], {"TERMINALS": TERMS})))
                    if len(outs) != 1 or outs[0][1][0] != "ok":
                        raise Unrecognised("guard drop yields %r" % (outs[0][1] if outs else None,))
                    if loc.current_store.v != 0:
                        raise Panic("the thread's state still belongs to the store after the session")
                oks = [g for g in got if g is not None]
                if len(set(oks)) != len(oks) or set(oks) != full or any(g is None for g in got[:10]) or any(g is not None for g in got[10:]):
                    fails.append("%s: answers %r, expected every id of %r exactly once over both sessions, then OutOfMemory" % (label, got, sorted(full)))
                elif shared.node_count != 10:
                    fails.append("%s: the shared node count is %r after 10 successful allocations" % (label, shared.node_count))
            except Panic as p_:
                fails.append("%s: %s (answers so far %r)" % (label, p_.msg, got))
            except Unrecognised as u:
                fails.append("%s: not interpretable: %s" % (label, u))
    ctx.ob(rule, rule, not fails, "slot allocation of the index-based store (%s): %s" % (F.where(fns["add_node"]), " || ".join(fails[:3]) if fails else
           "every slot is handed out once (own list, own chunk, shared lists, fresh chunk, single slots), then OutOfMemory"))
    return n
