"""E-DDDMP.header: the validation part of `DumpHeader::load`, interpreted on model headers.

`DumpHeader::load` first fills the header from the `.key value` lines and then validates it and derives the support
variable order and the variable names.  Everything after the reading loop is interpreted from HIR (the reading loop
itself is skipped; its results are the model's field values):

  accept    well-formed headers are accepted: the exporter's header for a diagram over 4 variables with support
            {1, 3} at levels {2, 0} (roots include the last node, positively and complemented), the same with
            `.suppvarnames`, with `.orderedvarnames`, with `.varnames` + both other lists, with `.rootnames`, and the
            header of a constant function (no support variables) -- an accepted header is `Ok` and carries
            `support_var_order` = the support variables by level and the variable names by variable number;
  reject    every malformed variant the property lists yields `Err`, not a panic: `.ids` not strictly ascending / not
            below `.nvars`, `.permids` not below `.nvars` / duplicate, list lengths not matching the counts, name
            lists contradicting each other, `.rootids` 0 or beyond `.nnodes`, `.nsuppvars` > `.nvars`.
"""
import tables
from lib.interp import ElemRef, Enum, Interp, Opaque, Panic, Return, StructVal, Unrecognised, enumerate_runs
from tables import SOME, NONE

RULE = "E-DDDMP.header"
LOAD = "oxidd_dump::dddmp::import::{impl#0}::load"
OK = "core::result::Result::Ok"
ERR = "core::result::Result::Err"


class It:
    """a by-value / by-reference iterator over already computed items"""

    def __init__(self, items):
        self.items = list(items)


class HdrDomain(tables.DDDomain):
    finite_loops = True

    def __init__(self, F):
        super().__init__(F, tables.BDD)

    # ---- values ---------------------------------------------------------------------------------------------------------
    def equal(self, it, a, b):
        a = a.get() if isinstance(a, ElemRef) else a
        b = b.get() if isinstance(b, ElemRef) else b
        if isinstance(a, str) and isinstance(b, str):
            return a == b
        if isinstance(a, list) and isinstance(b, list):
            return a == b
        return super().equal(it, a, b)

    def compare(self, it, a, b):
        a = a.get() if isinstance(a, ElemRef) else a
        b = b.get() if isinstance(b, ElemRef) else b
        return super().compare(it, a, b)

    def field_assign(self, it, base, n, v):
        if isinstance(base, StructVal):
            base.fields[n] = v
            return True
        return False

    def index_assign(self, it, c, i, v):
        if isinstance(c, list) and isinstance(i, int):
            if not 0 <= i < len(c):
                raise Panic("index %d out of bounds (len %d)" % (i, len(c)))
            c[i] = v
            return True
        return None

    def mut_ref(self, it, v):
        return None

    def iterate(self, it, src):
        if isinstance(src, It):
            return src.items
        if isinstance(src, list):
            return [ElemRef(src, i) for i in range(len(src))]
        return None

    def call_value(self, it, fv, args):
        if isinstance(fv, tuple) and fv and fv[0] == "closure":
            _, ce, cenv = fv
            env = dict(cenv)
            for p, a in zip(ce.get("params", []), args):
                it.match(p, a, env)
            try:
                return it.ev(ce["body"], env)
            except Return as r:
                return r.v
        raise Unrecognised("call of %r" % (fv,))

    # ---- calls ----------------------------------------------------------------------------------------------------------
    def call(self, it, name, f, args_e, env, e):
        n = f.get("did") or f.get("n", "")
        if n.endswith("dddmp::import::err"):
            return Enum(ERR, ["error"])          # the message is not evaluated: reads only
        if n.endswith("::from_elem"):
            v, k = [it.ev(a, env) for a in args_e]
            if not isinstance(k, int) or k > 64:
                raise Unrecognised("from_elem count %r" % (k,))
            return [v for _ in range(k)]
        if n.endswith("{impl#0}::new") and ("alloc::vec" in n or "alloc::string" in n):
            return [] if "alloc::vec" in n else ""
        if n.endswith("mem::drop"):
            [it.ev(a, env) for a in args_e]
            return ()
        if n.endswith("mem::take"):
            (r,) = [it.ev(a, env) for a in args_e]
            if isinstance(r, ElemRef):
                v = r.get()
                r.set("" if isinstance(v, str) else [] if isinstance(v, list) else 0)
                return v
            raise Unrecognised("mem::take of %r" % (r,))
        if n.endswith("panicking::panic") or n.endswith("panicking::panic_fmt"):
            raise Panic("explicit panic (line %s)" % e.get("ln"))
        if n.endswith("IntoIterator::into_iter"):
            return [it.ev(a, env) for a in args_e][0]
        return super().call(it, name, f, args_e, env, e)

    def method(self, it, m, e, env):
        name = m.rsplit("::", 1)[-1]
        recv = it.recv(e, env)
        if isinstance(recv, ElemRef) and name not in ():
            recv = recv.get()
        if isinstance(recv, str):
            if name == "is_empty":
                return recv == ""
            if name in ("as_str", "to_string", "clone"):
                return recv
            if name == "len":
                return len(recv)
        if isinstance(recv, int) and not isinstance(recv, bool):
            if name == "unsigned_abs":
                return abs(recv)
        if isinstance(recv, Enum) and name == "unwrap":
            if recv.path == SOME:
                return recv.args[0]
            if recv.path == NONE:
                raise Panic("unwrap() of None (line %s)" % e.get("ln"))
        if isinstance(recv, list):
            if name in ("iter", "iter_mut"):
                return It([ElemRef(recv, i) for i in range(len(recv))])
            if name == "into_iter":
                return It(list(recv))
            if name == "len":
                return len(recv)
            if name == "is_empty":
                return not recv
            if name == "last":
                return Enum(SOME, [recv[-1]]) if recv else Enum(NONE)
            if name == "first":
                return Enum(SOME, [recv[0]]) if recv else Enum(NONE)
            if name in ("get_mut", "get"):
                (i,) = it.args(e, env)
                return Enum(SOME, [ElemRef(recv, i)]) if isinstance(i, int) and 0 <= i < len(recv) else Enum(NONE)
            if name == "resize":
                k, v = it.args(e, env)
                del recv[k:]
                while len(recv) < k:
                    recv.append(v)
                return ()
            if name == "clear":
                del recv[:]
                return ()
        if isinstance(recv, It):
            if name in ("into_iter", "iter", "by_ref"):
                return recv
            if name == "zip":
                (o,) = it.args(e, env)
                o = self.iterate(it, o)
                if o is None:
                    raise Unrecognised("zip with a non-iterable")
                return It(list(zip(recv.items, o)))
            if name == "enumerate":
                return It(list(enumerate(recv.items)))
            if name == "filter":
                (clo,) = it.args(e, env)
                return It([x for x in recv.items if self.call_value(it, clo, [x]) is True])
            if name == "next":
                return Enum(SOME, [recv.items.pop(0)]) if recv.items else Enum(NONE)
            if name == "is_sorted_by":
                (clo,) = it.args(e, env)
                for a, b in zip(recv.items, recv.items[1:]):
                    r = self.call_value(it, clo, [a, b])
                    if not isinstance(r, bool):
                        raise Unrecognised("is_sorted_by closure returned %r" % (r,))
                    if not r:
                        return False
                return True
        return super().method(it, m, e, env)


# ---- model headers ----------------------------------------------------------------------------------------------------------
BASE = dict(nvars=4, nnodes=3, nsuppvars=2, ids=[1, 3], permids=[2, 0], auxids=[], varnames=[], orderedvarnames=[],
            suppvarnames=[], nroots=2, rootids=[3, -1], rootnames=[])
NAMES = ["a", "b", "c", "d"]            # by variable number
ORDERED = ["d", "a", "b", "c"]          # by level: variable 3 at level 0, variable 1 at level 2 (as in BASE)

ACCEPT = [
    ("unnamed", {}, [3, 1], []),
    ("complemented last node as root", dict(rootids=[-3, 2]), [3, 1], []),
    ("aux ids", dict(auxids=[7, 9]), [3, 1], []),
    (".suppvarnames", dict(suppvarnames=["b", "d"]), [3, 1], ["", "b", "", "d"]),
    (".orderedvarnames", dict(orderedvarnames=ORDERED), [3, 1], NAMES),
    (".orderedvarnames + .suppvarnames", dict(orderedvarnames=ORDERED, suppvarnames=["b", "d"]), [3, 1], NAMES),
    (".varnames", dict(varnames=NAMES), [3, 1], NAMES),
    (".varnames + .orderedvarnames + .suppvarnames", dict(varnames=NAMES, orderedvarnames=ORDERED, suppvarnames=["b", "d"]), [3, 1], NAMES),
    (".rootnames", dict(rootnames=["f", "g"]), [3, 1], []),
    ("constant function (no support)", dict(nsuppvars=0, ids=[], permids=[], nnodes=1, nroots=1, rootids=[1]), [], []),
    ("all variables in the support", dict(nsuppvars=4, ids=[0, 1, 2, 3], permids=[3, 0, 1, 2], nnodes=5, rootids=[5, -5]), [1, 2, 3, 0], []),
    ("no roots", dict(nroots=0, rootids=[]), [3, 1], []),
]
REJECT = [
    (".ids descending", dict(ids=[3, 1])),
    (".ids with equal neighbours", dict(ids=[1, 1])),
    (".ids entry = .nvars", dict(ids=[1, 4])),
    (".permids entry = .nvars", dict(permids=[2, 4])),
    (".permids duplicate", dict(permids=[2, 2])),
    (".ids shorter than .nsuppvars", dict(ids=[1])),
    (".ids longer than .nsuppvars", dict(ids=[0, 1, 3])),
    (".permids shorter than .nsuppvars", dict(permids=[2])),
    (".auxids of the wrong length", dict(auxids=[7])),
    (".nsuppvars > .nvars", dict(nvars=1, ids=[0, 1], permids=[0, 1])),
    (".orderedvarnames of the wrong length", dict(orderedvarnames=["d", "a", "b"])),
    (".suppvarnames of the wrong length", dict(suppvarnames=["b"])),
    (".varnames of the wrong length", dict(varnames=["a", "b", "c"])),
    (".varnames contradicting .orderedvarnames", dict(varnames=NAMES, orderedvarnames=["d", "a", "x", "c"])),
    (".suppvarnames contradicting .varnames", dict(varnames=NAMES, suppvarnames=["b", "x"])),
    (".suppvarnames contradicting .orderedvarnames", dict(orderedvarnames=ORDERED, suppvarnames=["x", "d"])),
    (".rootids shorter than .nroots", dict(rootids=[3])),
    (".rootids longer than .nroots", dict(rootids=[3, 1, 2])),
    (".rootids with 0", dict(rootids=[3, 0])),
    (".rootids beyond .nnodes", dict(rootids=[4, 1])),
    (".rootids beyond .nnodes (complemented)", dict(rootids=[1, -4])),
    (".rootnames of the wrong length", dict(rootnames=["f"])),
]
LOCALS = ("nsuppvars", "nroots", "suppvarnames", "orderedvarnames")


def run(ctx, F, rule=RULE):
    h = F.hir.get(LOAD)
    if not ctx.anchor(rule, "DumpHeader::load", h is not None and h["body"].get("k") == "block"):
        return 0
    body = h["body"]
    loops = [i for i, s in enumerate(body["s"]) if s["k"] in ("expr", "semi") and s["e"].get("k") == "loop"]
    if not ctx.anchor(rule, "DumpHeader::load: one top-level reading loop followed by the validation", len(loops) == 1 and "e" in body):
        return 0
    pre = {"k": "block", "s": body["s"][:loops[0]]}
    post = {"k": "block", "s": body["s"][loops[0] + 1:], "e": body["e"]}
    n = 0
    fails = []

    def mk(oracle):
        return Interp(F, HdrDomain(F), oracle)

    def go(model):
        def f(it):
            env = {"$consts": {}, "$fn": LOAD, "$mut": {}, "input": Opaque("input")}
            # the initialisers (`let mut header = DumpHeader { .. }`, `let mut nsuppvars = 0`, ..) run as written ...
            env2 = dict(env)
            for s in pre["s"]:
                if s["k"] != "slet" or "e" not in s:
                    raise Unrecognised("statement before the reading loop")
                it.match(s["p"], it.ev(s["e"], env2), env2)
            hdr = env2.get("header")
            if not isinstance(hdr, StructVal):
                raise Unrecognised("`header` is not a struct literal")
            # ... then the model stands for what the reading loop stored
            for k, v in model.items():
                v = list(v) if isinstance(v, list) else v
                if k in LOCALS:
                    if k not in env2:
                        raise Unrecognised("local %s not found" % k)
                    env2[k] = v
                else:
                    if k not in hdr.fields:
                        raise Unrecognised("header field %s not found" % k)
                    hdr.fields[k] = v
            return it.ev(post, env2)
        return f
    for label, delta, order, names in ACCEPT:
        model = dict(BASE)
        model.update(delta)
        for trace, (status, val) in enumerate_runs(mk, go(model)):
            n += 1
            if status != "ok" or not (isinstance(val, Enum) and val.path == OK):
                fails.append("the well-formed header '%s' is not accepted: %s %r" % (label, status, val if status == "ok" else val))
                continue
            hv = val.args[0]
            got = hv.fields.get("support_var_order"), hv.fields.get("varnames")
            if got[0] != order:
                fails.append("header '%s': support_var_order = %r, expected the support variables by level %r" % (label, got[0], order))
            if got[1] != names:
                fails.append("header '%s': variable names = %r, expected %r" % (label, got[1], names))
    ctx.ob(rule, rule + ":accept", not fails, "DumpHeader::load (%s): %s" % (F.where(LOAD), " || ".join(fails[:3]) if fails else
                                                                           "%d well-formed model headers accepted with the right order and names" % len(ACCEPT)))
    fails = []
    for label, delta in REJECT:
        model = dict(BASE)
        model.update(delta)
        for trace, (status, val) in enumerate_runs(mk, go(model)):
            n += 1
            if status == "panic":
                fails.append("the malformed header '%s' makes the importer panic: %s" % (label, val))
            elif status != "ok":
                fails.append("header '%s': %s %s" % (label, status, val))
            elif not (isinstance(val, Enum) and val.path == ERR):
                fails.append("the malformed header '%s' is accepted" % label)
    ctx.ob(rule, rule + ":reject", not fails, "DumpHeader::load (%s): %s" % (F.where(LOAD), " || ".join(fails[:3]) if fails else
                                                                           "%d malformed model headers rejected with an error" % len(REJECT)))
    return n
