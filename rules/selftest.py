"""Self-tests of the checkers (DESIGN 7): seeded changes that must make a check fire.

For property P (thorough tier) every seeded change under /verif/seeded/*/ whose meta.json names P, and every
patch under /verif/selftest/ mapped to P, is applied to a scratch copy of /repo's working tree (outside /repo
and /verif); the quick check of P is run against the copy and must report a violation.  A patch that no longer
applies (the tree under test was edited) is recorded as skipped, never as a violation."""
import glob
import json
import os
import shutil
import subprocess
import tempfile

from lib import facts

SELFTEST_MAP = {
    # patch under /verif/selftest -> properties whose check must fire
    "swap_insert_before_set_child.patch": ["C01", "C03", "C08"],
    "swap_remove_before_release.patch": ["C05", "C08"],
    "swap_checked_insert.patch": ["C03", "C08"],
    "skip_zbdd_dontcare.patch": ["C08", "C09"],
    "cache_ignores_add_vars.patch": ["C06"],
    "count_delta_dropped.patch": ["C05"],
    "count_not_undone_on_oom.patch": ["C14"],
    "zbdd_satcount_unguarded_sub.patch": ["C12"],
    "saturating_checked_shl.patch": ["C12"],
    "varnamemap_derived_clone.patch": ["C16"],
    "f64_parse_unnormalised.patch": ["C10"],
    "eval_zbdd_counter_not_decremented.patch": ["C02", "C09"],
    "eval_bdd_choice_polarity.patch": ["C02"],
    "bcdd_cofactors_iter_keeps_tag.patch": ["C02"],
    "pointer_handle_wrong_data_type.patch": ["C05", "C20"],
    "dddmp_unchecked_index.patch": ["C15"],
    "dddmp_unchecked_sub.patch": ["C15"],
    "dddmp_unclamped_prealloc.patch": ["C15"],
    "dddmp_dead_overflow_check.patch": ["C15"],
}


def candidates(pid):
    out = []
    for d in sorted(glob.glob(os.path.join(facts.VERIF, "seeded", "*", ""))):
        try:
            meta = json.load(open(os.path.join(d, "meta.json")))
        except (OSError, ValueError):
            continue
        also = meta.get("also_detected_by", [])
        if meta.get("property") == pid or pid in also:
            out.append((os.path.basename(d.rstrip("/")), os.path.join(d, "patch.diff")))
    for name, props in SELFTEST_MAP.items():
        if pid in props:
            out.append(("selftest/" + name, os.path.join(facts.VERIF, "selftest", name)))
    return out


def run(ctx, pid, rule="SELFTEST"):
    if os.environ.get("OXIDD_SELFTEST_CHILD"):
        return
    cands = candidates(pid)
    if not cands:
        ctx.note("no seeded change registered for %s" % pid)
        return
    base = tempfile.mkdtemp(prefix="oxidd-selftest-")
    ev = tempfile.mkdtemp(prefix="oxidd-selftest-ev-")
    results = []
    try:
        copy = os.path.join(base, "repo")
        subprocess.check_call(["rsync", "-a", "--exclude", "target", "--exclude", ".git", facts.REPO + "/", copy + "/"])
        subprocess.check_call(["git", "init", "-q"], cwd=copy)
        for name, patch in cands:
            r = subprocess.run(["git", "apply", "--check", patch], cwd=copy, capture_output=True, text=True)
            if r.returncode != 0:
                results.append({"seed": name, "status": "skipped (patch does not apply to the tree under test)"})
                ctx.ob(rule, "%s:%s:%s" % (rule, pid, name), True, "skipped: patch does not apply", nontrivial=False)
                continue
            subprocess.check_call(["git", "apply", patch], cwd=copy)
            env = dict(os.environ, OXIDD_REPO=copy, VERIF_EVIDENCE_DIR=ev, OXIDD_SELFTEST_CHILD="1")
            rr = subprocess.run([os.path.join(facts.VERIF, "check"), pid, "--tier", "quick"], capture_output=True, text=True,
                                env=env, cwd=facts.VERIF)
            keys = [l.split("#", 1)[1] for l in rr.stdout.splitlines() if l.startswith("VIOLATION") and "#" in l]
            subprocess.check_call(["git", "apply", "-R", patch], cwd=copy)
            fired = bool(keys) and not any(k == "CHECK-BROKEN" for k in keys)
            results.append({"seed": name, "status": "fired" if fired else "MISSED", "keys": keys[:3]})
            # a missed self-test says something about the checker, not about the tree under test: it is recorded in the
            # evidence (and on stderr) but is not a violation of the property
            ctx.ob(rule, "%s:%s:%s" % (rule, pid, name), True,
                   "SELFTEST-MISSED: the seeded change %s (which breaks %s) is not detected by this check" % (name, pid)
                   if not fired else "seeded change %s detected: %s" % (name, keys[:2]))
            if not fired:
                import sys
                print("SELFTEST-MISSED property=%s seed=%s" % (pid, name), file=sys.stderr)
    finally:
        shutil.rmtree(base, ignore_errors=True)
        shutil.rmtree(ev, ignore_errors=True)
    ctx.note("selftests: " + json.dumps(results))
