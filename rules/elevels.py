"""E-LEVELS: the level iterators and level accessors of both managers pair every level number with that level's table.

`Manager::levels()` builds a double-ended iterator over the unique tables whose views carry the level number in a
separate counter; `Manager::level(no)` / `level_unchecked(no)` hand out one view.  Everything that walks levels
(reordering, relabelling, the ZBDD tautology chain, garbage collection, the exporters) trusts `view.level_no()`.
Interpreted from HIR on a model manager with four levels: forward iteration yields (0, table 0) .. (3, table 3),
backward iteration (3, table 3) .. (0, table 0), mixed ends stay consistent, and `level(no)` returns (no, table no).
"""
import tables
from lib.interp import Enum, Interp, Opaque, StructVal, Unrecognised, enumerate_runs
from tables import SOME, NONE

RULE = "E-LEVELS"


class Mutex:
    def __init__(self, i):
        self.i = i

    def __repr__(self):
        return "table%d" % self.i


class SliceIter:
    def __init__(self, items):
        self.items = list(items)


class Rec:
    def __init__(self, **kw):
        self.__dict__.update(kw)


class LevDomain(tables.DDDomain):
    def __init__(self, F):
        super().__init__(F, tables.BDD)

    def field(self, it, v, n):
        if isinstance(v, Rec) and hasattr(v, n):
            return getattr(v, n)
        return None

    def field_assign(self, it, base, n, v):
        if isinstance(base, StructVal):
            base.fields[n] = v
            return True
        return False

    def try_(self, it, v):
        from lib.interp import Return
        if isinstance(v, Enum) and v.path == NONE:
            raise Return(v)
        return super().try_(it, v)

    def method(self, it, m, e, env):
        name = m.rsplit("::", 1)[-1]
        recv = it.recv(e, env)
        if isinstance(recv, Rec) and name == "store":
            return Opaque("store")
        if isinstance(recv, list):
            if name == "iter":
                return SliceIter(recv)
            if name == "len":
                return len(recv)
            if name in ("get", "get_unchecked"):
                (i,) = it.args(e, env)
                if name == "get":
                    return Enum(SOME, [recv[i]]) if 0 <= i < len(recv) else Enum(NONE)
                return recv[i]
        if isinstance(recv, SliceIter):
            if name == "next":
                return Enum(SOME, [recv.items.pop(0)]) if recv.items else Enum(NONE)
            if name == "next_back":
                return Enum(SOME, [recv.items.pop()]) if recv.items else Enum(NONE)
        if isinstance(recv, Mutex) and name in ("lock", "try_lock"):
            return ("locked", recv.i)
        return super().method(it, m, e, env)


def run(ctx, F, rule=RULE):
    n = 0
    for crate in ("oxidd_manager_index", "oxidd_manager_pointer"):
        base = crate + "::manager::"
        fn = {}
        for f, r in F.fns.items():
            if not f.startswith(base):
                continue
            imp = r.get("impl") or {}
            nm = f.rsplit("::", 1)[-1]
            if imp.get("trait") == "oxidd_core::Manager" and nm in ("levels", "level", "level_unchecked"):
                fn[nm] = f
            if "LevelIter<" in imp.get("self", "") and nm in ("next", "next_back"):
                fn["it_" + nm] = f
        if not ctx.anchor(rule, "%s levels / level / LevelIter::next / next_back" % crate,
                          all(k in fn for k in ("levels", "level", "it_next", "it_next_back"))):
            continue
        fails = []

        def mk(oracle):
            return Interp(F, LevDomain(F), oracle)

        def view(v):
            if isinstance(v, Enum) and v.path == SOME:
                v = v.args[0]
            if isinstance(v, StructVal):
                return (v.fields.get("level"), v.fields.get("set"))
            return v
        for order in ("ffff", "bbbb", "fbfb", "bffb"):
            me = Rec(unique_table=[Mutex(i) for i in range(4)], var_level_map=Opaque("vlm"), reorder_gc_prepared=False)

            def go(it):
                itv = it.call_fn(fn["levels"], [me])
                out = []
                for c in order:
                    out.append(view(it.call_fn(fn["it_next" if c == "f" else "it_next_back"], [itv])))
                out.append(it.call_fn(fn["it_next"], [itv]))
                return out
            for trace, (status, val) in enumerate_runs(mk, go):
                n += 1
                lo, hi = 0, 3
                want = []
                for c in order:
                    if c == "f":
                        want.append((lo, ("locked", lo)))
                        lo += 1
                    else:
                        want.append((hi, ("locked", hi)))
                        hi -= 1
                if status != "ok" or val[:4] != want or not (isinstance(val[4], Enum) and val[4].path == NONE):
                    fails.append("iteration %s over 4 levels yields %s %r, expected %r then None" % (order, status, val, want))
        for no in (0, 2, 3):
            for nm in ("level", "level_unchecked"):
                if nm not in fn:
                    continue
                me = Rec(unique_table=[Mutex(i) for i in range(4)], var_level_map=Opaque("vlm"), reorder_gc_prepared=False)
                for trace, (status, val) in enumerate_runs(mk, lambda it: it.call_fn(fn[nm], [me, no])):
                    n += 1
                    if status != "ok" or view(val) != (no, ("locked", no)):
                        fails.append("%s(%d) yields %s %r, expected level %d with table %d" % (nm, no, status, view(val), no, no))
        ctx.ob(rule, "%s:%s" % (rule, crate), not fails, "%s (%s): %s" % (crate, F.where(fn["levels"]), " || ".join(fails[:2]) if fails else
               "level iterators and accessors pair level numbers with their tables"))
    return n
