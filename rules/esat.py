"""E-SAT: the model-counting recursion, interpreted from HIR on structured abstract nodes.

`sat_count_edge::inner` (BDD, BCDD, ZBDD) is interpreted with numbers kept symbolic (terms over `terminal_val`,
the literals 0 and 1, the counts of the children, `+` and `>>`), the recursive call a builtin `count(child)`, and
the count cache a recording map.  Checked for every abstract operand (terminals; an inner node reached through a
plain / complemented edge; cache disabled, enabled-and-missing, enabled-and-hit):
  base      the count of a terminal is `terminal_val` for true / 0 for false (ZBDD: 1 for base / 0 for empty);
  step      the count of a node is (count(c0) + count(c1)) >> 1 for BDDs and BCDDs, count(hi) + count(lo) for ZBDDs,
            where c0, c1 are the cofactors *as seen through the edge's complement tag*;
  cache     a value is inserted only under the key that was looked up, the inserted value is the returned one, a hit
            returns the stored value unchanged, and for BCDDs the keys of an edge and of its complement differ
            (otherwise f and not f would share one count).
This decides the shape of the recursion (base case, inductive step, memoisation discipline); the exactness of the
number types (`+`, `>>`, `<<` of the SatCountNumber implementations) is not decided here.
"""
import epick
import ereduce
import tables
from epick import SNode
from ereduce import ETAG
from lib.interp import Edge, Enum, Interp, Opaque, Panic, Unrecognised, enumerate_runs
from tables import OK, SOME, NONE, NODE_INNER, NODE_TERMINAL


class Num:
    """symbolic number term"""
    __slots__ = ("t",)

    def __init__(self, t):
        self.t = t

    def __eq__(self, o):
        return isinstance(o, Num) and canon(self.t) == canon(o.t)

    def __hash__(self):
        return hash(canon(self.t))

    def __repr__(self):
        return show(self.t)


def canon(t):
    if isinstance(t, tuple) and t and t[0] == "add":
        return ("add",) + tuple(sorted((canon(x) for x in t[1:]), key=repr))
    if isinstance(t, tuple):
        return tuple(canon(x) for x in t)
    return t


def show(t):
    if isinstance(t, tuple):
        if t[0] == "add":
            return "(%s + %s)" % (show(t[1]), show(t[2]))
        if t[0] == "shr":
            return "(%s >> %s)" % (show(t[1]), show(t[2]))
        if t[0] == "count":
            return "count(%s)" % t[1]
        if t[0] == "lit":
            return str(t[1])
        if t[0] == "cached":
            return "cached[%s]" % (t[1],)
        return str(t)
    return str(t)


def elabel(e):
    c = "!" if isinstance(e.tag, Enum) and e.tag.short == "Complemented" else ""
    n = e.node
    if n[0] == "A":
        return c + n[1]
    if n[0] == "S":
        return c + n[1].name
    if n[0] == "T":
        return c + "T:" + (n[1].short if isinstance(n[1], Enum) else str(n[1]))
    return c + repr(n)


class CacheObj:
    def __init__(self, dom):
        self.dom = dom


class SatDomain(epick.PickDomain):
    def __init__(self, F, fid, kind, bcdd, cache_mode):
        super().__init__(F, fid)
        self.kind = kind
        self.bcdd = bcdd
        self.cache_mode = cache_mode       # "off" | "miss" | "hit"
        self.gets = []
        self.inserts = []
        self.helpers = set()

    def default_tag(self):
        return Enum(ETAG + "::None") if self.bcdd else None

    def const(self, it, e):
        n = e.get("did") or e.get("n") or ""
        if n.endswith("::BITS"):
            return 32
        return super().const(it, e)

    def field(self, it, v, n):
        if isinstance(v, Opaque) and v.what == "satcache":
            if n == "cache_all":
                return self.cache_mode != "off"
            if n == "map":
                return Opaque("satmap")
        return super().field(it, v, n)

    def binop(self, it, o, l, r):
        if isinstance(l, Num) or isinstance(r, Num):
            lt = l.t if isinstance(l, Num) else ("lit", l)
            rt = r.t if isinstance(r, Num) else ("lit", r)
            if o == "+":
                return Num(("add", lt, rt))
            if o == ">>":
                return Num(("shr", lt, rt))
            raise Unrecognised("operator %s on counts" % o)
        return super().binop(it, o, l, r)

    def call(self, it, name, f, args_e, env, e):
        did = f.get("did", "")
        if did == self.fid and env.get("$fn") == self.fid:
            args = [it.ev(a, env) for a in args_e]
            edges = [a for a in args if isinstance(a, Edge)]
            if len(edges) != 1:
                raise Unrecognised("recursive call with %d edges" % len(edges))
            return Num(("count", elabel(edges[0])))
        if did.endswith("From::from") or name.endswith("From::from") or did == "core::convert::From::from":
            (a,) = [it.ev(x, env) for x in args_e]
            if isinstance(a, int):
                return Num(("lit", a))
            raise Unrecognised("N::from(%r)" % (a,))
        if did == "oxidd_core::DiagramRules::cofactors" and self.bcdd:
            tag, node = [it.ev(a, env) for a in args_e]
            flip = isinstance(tag, Enum) and tag.short == "Complemented"
            return ereduce.IterObj([epick.ctag(c, flip) for c in node.children])
        if did in self.F.hir and did.split("::")[0] in ("oxidd_rules_bdd", "oxidd_rules_zbdd") and did != self.fid:
            args = [it.ev(a, env) for a in args_e]
            return it.call_fn(did, args, self._const_args(it, f, env, did))
        return super().call(it, name, f, args_e, env, e)

    def method(self, it, m, e, env):
        name = m.rsplit("::", 1)[-1]
        if name == "clone" or m.endswith("Clone::clone"):
            r = it.recv(e, env)
            if isinstance(r, Num):
                return r
        if name == "node_id":
            r = it.recv(e, env)
            if isinstance(r, Edge) and r.node[0] == "S":
                return 5
            raise Unrecognised("node_id of %r" % (r,))
        if name == "ref_count":
            it.recv(e, env)
            return 1          # not shared: caching is governed by `cache_all` alone
        if name in ("get", "insert") :
            r = it.recv(e, env)
            if isinstance(r, Opaque) and r.what == "satmap":
                args = it.args(e, env)
                if name == "get":
                    self.gets.append(args[0])
                    if self.cache_mode == "hit":
                        return Enum(SOME, [Num(("cached", args[0]))])
                    return Enum(NONE)
                self.inserts.append((args[0], args[1]))
                return Enum(NONE)
        return super().method(it, m, e, env)


def run_kind(ctx, F, rule, kind_name, fid, kind, bcdd, true_e, false_e, zbdd=False):
    if not ctx.anchor(rule, fid, fid in F.hir):
        return 0
    P, C = Enum(ETAG + "::None"), Enum(ETAG + "::Complemented")
    tag0 = P if bcdd else None

    def mk_atom(nm, tag=tag0):
        return Edge(("A", nm), tag)
    node = SNode("n", 2, [mk_atom("c0"), mk_atom("c1", C if bcdd else None)])
    operands = [("true", true_e), ("false", false_e), ("node", Edge(("S", node), tag0))]
    if bcdd:
        operands.append(("complemented node", Edge(("S", node), C)))
    h = F.hir[fid]
    nparams = len(h["params"])
    n = 0
    fails = []
    keys = {}
    tv = Num(("tv",))
    for oname, op in operands:
        for mode in ("off", "miss", "hit"):
            doms = []

            def mk(oracle):
                d = SatDomain(F, fid, kind, bcdd, mode)
                doms.append(d)
                return Interp(F, d, oracle, max_depth=6)
            args = [Opaque("manager"), op] + ([tv] if nparams == 4 else []) + [Opaque("satcache")]
            for trace, (status, val) in enumerate_runs(mk, lambda it: it.call_fn(fid, args)):
                n += 1
                dom = doms[-1]
                sit = "%s sat_count inner(%s), cache %s" % (kind_name, oname, mode)
                if status != "ok":
                    fails.append("%s: %s %s" % (sit, status, val))
                    continue
                if not isinstance(val, Num):
                    if isinstance(val, int):
                        val = Num(("lit", val))
                    else:
                        fails.append("%s: result %r" % (sit, val))
                        continue
                if op.node[0] == "T":
                    want = (Num(("lit", 1)) if zbdd else tv) if oname == "true" else Num(("lit", 0))
                    if val != want:
                        fails.append("%s returns %s, expected %s" % (sit, val, want))
                    if dom.inserts or dom.gets:
                        pass
                    continue
                flip = bcdd and op.tag == C
                kids = [epick.ctag(c, flip) if bcdd else c for c in node.children]
                summ = ("add", ("count", elabel(kids[0])), ("count", elabel(kids[1])))
                want = Num(summ) if zbdd else Num(("shr", summ, ("lit", 1)))
                if mode == "hit":
                    if len(dom.gets) != 1:
                        fails.append("%s: %d cache lookups" % (sit, len(dom.gets)))
                    elif val != Num(("cached", dom.gets[0])):
                        fails.append("%s: a hit returns %s instead of the stored value" % (sit, val))
                    keys.setdefault(oname, set()).add(dom.gets[0])
                    continue
                if val != want:
                    fails.append("%s returns %s, expected %s" % (sit, val, want))
                if mode == "off":
                    if dom.inserts:
                        fails.append("%s: inserts into the cache although caching is off for this node" % sit)
                else:
                    if len(dom.gets) != 1 or len(dom.inserts) != 1:
                        fails.append("%s: %d lookups / %d insertions" % (sit, len(dom.gets), len(dom.inserts)))
                    else:
                        if dom.inserts[0][0] != dom.gets[0]:
                            fails.append("%s: inserted under key %r but looked up under %r" % (sit, dom.inserts[0][0], dom.gets[0]))
                        if dom.inserts[0][1] != val:
                            fails.append("%s: caches %s but returns %s" % (sit, dom.inserts[0][1], val))
                        keys.setdefault(oname, set()).add(dom.gets[0])
    if bcdd:
        a, b = keys.get("node", set()), keys.get("complemented node", set())
        if not a or not b or (a & b):
            fails.append("%s: the cache keys of an edge (%s) and of its complement (%s) must differ" % (kind_name, sorted(a), sorted(b)))
    nice = F.nice(fid)
    ctx.ob(rule, "%s:%s" % (rule, nice), not fails,
           ("%s (%s): %d problem(s); first: %s" % (nice, F.where(fid), len(fails), " || ".join(fails[:3]))) if fails else
           "%s: base cases, step and memoisation discipline agree with the specification (%d runs)" % (nice, n))
    return n


def find_inner(F, prefix, trait_item="sat_count_edge"):
    for fid in sorted(F.hir):
        if fid.startswith(prefix) and fid.endswith("::%s::inner" % trait_item) and "::mt::" not in fid:
            return fid
    return prefix + "…::%s::inner" % trait_item


def run(ctx, F, rule="E-SAT"):
    n = 0
    T = tables.BDD.terminal_enum
    n += run_kind(ctx, F, rule, "bdd", find_inner(F, "oxidd_rules_bdd::simple::apply_rec::"), tables.BDD, False,
                  Edge(("T", Enum(T + "::True")), None), Edge(("T", Enum(T + "::False")), None))
    bt = Enum("oxidd_rules_bdd::complement_edge::BCDDTerminal")
    n += run_kind(ctx, F, rule, "bcdd", find_inner(F, "oxidd_rules_bdd::complement_edge::apply_rec::"), ereduce.BCDD_KIND, True,
                  Edge(("T", bt), Enum(ETAG + "::None")), Edge(("T", bt), Enum(ETAG + "::Complemented")))
    Z = tables.ZBDD.terminal_enum
    n += run_kind(ctx, F, rule, "zbdd", find_inner(F, "oxidd_rules_zbdd::apply_rec::"), tables.ZBDD, False,
                  Edge(("T", Enum(Z + "::Base")), None), Edge(("T", Enum(Z + "::Empty")), None), zbdd=True)
    return n


def check_scaling(ctx, F, rule="E-SAT.scale"):
    """`sat_count_edge(vars)` scales the count by a power of two that depends on `vars` (2^vars for BDDs, a shift by the
    difference to the number of levels for ZBDDs).  Every subtraction that involves the `vars` parameter is dominated
    by a comparison involving it (an unguarded `num_levels - vars` underflows for vars > num_levels); and no shift
    of the number types relies on `checked_shl` to detect lost bits (it only checks the shift amount)."""
    import re
    from lib import cfg
    n = 0
    for fid, m in sorted(F.mir.items()):
        if not (fid.endswith("::sat_count_edge") and fid.split("::")[0] in ("oxidd_rules_bdd", "oxidd_rules_zbdd")):
            continue
        B = cfg.Body(m)
        vl = [i for i, l in enumerate(m["locals"]) if l.get("n") == "vars" and i <= m.get("argc", 0)]
        if not vl:
            continue
        derived = set(vl)
        grown = True
        while grown:
            grown = False
            for bi in B.reach:
                for s in B.blocks[bi]["s"]:
                    rv = s.get("rv") or {}
                    if rv.get("k") in ("use", "cast") and isinstance(s.get("lhs"), int) and s["lhs"] not in derived:
                        o = rv["op"]
                        src = o.get("cp", o.get("mv"))
                        if isinstance(src, int) and src in derived:
                            derived.add(s["lhs"])
                            grown = True
        def refs(op):
            v = (op or {}).get("cp", (op or {}).get("mv"))
            return isinstance(v, int) and v in derived
        cmps = [bi for bi in B.reach for s in B.blocks[bi]["s"]
                if (s.get("rv") or {}).get("k") == "bin" and s["rv"].get("o") in ("Lt", "Le", "Gt", "Ge")
                and (refs(s["rv"].get("a")) or refs(s["rv"].get("b")))]
        bad = []
        subs = 0
        for bi in sorted(B.reach):
            if B.blocks[bi]["c"]:
                continue
            for s in B.blocks[bi]["s"]:
                rv = s.get("rv") or {}
                if rv.get("k") in ("bin", "checked") and str(rv.get("o", "")).startswith("Sub") and (refs(rv.get("a")) or refs(rv.get("b"))):
                    subs += 1
                    if not any(c != bi and B.dominates(c, bi) for c in cmps):
                        bad.append(bi)
        n += 1
        nice = F.nice(fid)
        ctx.ob(rule, "%s:%s" % (rule, nice), not bad,
               "%s (%s): %s" % (nice, F.where(fid),
                                "%d subtraction(s) involving `vars`, each guarded by a comparison" % subs if not bad else
                                "a subtraction involving the `vars` parameter is not dominated by a comparison on it: it "
                                "underflows when `vars` exceeds the other operand (panic in debug builds, garbage shift otherwise)"))
    # checked_shl / checked_shr are not overflow checks
    m2 = 0
    for fid, m in sorted(F.mir.items()):
        if not fid.startswith("oxidd_core::util::num"):
            continue
        m2 += 1
        for i, t in cfg.Body(m).calls():
            cn = cfg.callee_name(t) or ""
            if re.search(r"::checked_sh[lr]$", cn):
                ctx.ob(rule + ".shl", "%s.shl:%s" % (rule, F.nice(fid)), False,
                       "%s (%s, line %s): `%s` only checks the shift amount, not whether 1-bits are shifted out; as a "
                       "saturation / overflow test it lets `3 << 63` through" % (F.nice(fid), F.where(fid), t.get("ln"),
                                                                                  cn.rsplit("::", 1)[-1]))
    ctx.ob(rule + ".shl", rule + ".shl:oxidd_core::util::num", True, "%d bodies of oxidd_core::util::num scanned for checked_shl/shr" % m2,
           nontrivial=False)
    return n


def check_scale_pairing(ctx, F, rule="E-SAT.scale.pair"):
    """For floating-point counts `sat_count_edge` starts the recursion from 2^(vars - scale_exp) instead of 2^vars when
    there are many variables and multiplies the result by 2^scale_exp afterwards.  The two adjustments must be taken
    under the *same* condition (HIR of the two `if` conditions identical), the first must subtract `scale_exp` from
    `vars` and the second shift by `scale_exp`: otherwise the count is off by a factor 2^scale_exp for exactly the
    inputs (vars >= 1022) no test reaches."""
    import json
    from lib import hirutil as H
    n = 0
    for fid, h in sorted(F.hir.items()):
        if not (fid.endswith("::sat_count_edge") and fid.split("::")[0] in ("oxidd_rules_bdd", "oxidd_rules_zbdd") and "::mt::" not in fid):
            continue

        def norm(x):
            if isinstance(x, dict):
                return {k: norm(v) for k, v in x.items() if k not in ("ln", "lid", "exp", "rty", "ga", "hty", "ty")}
            if isinstance(x, list):
                return [norm(v) for v in x]
            return x

        def mentions(x, name):
            return any(y.get("k") == "path" and y.get("res") == "local" and y.get("n") == name for y in H.walk(x))
        downs, ups = [], []
        for x in H.walk(h["body"]):
            if x.get("k") != "if" or "e" not in x:
                continue
            if not mentions(x["c"], "scale_exp"):
                continue
            t = x["t"]
            if any(y.get("k") == "bin" and y.get("o") == "-" and mentions(y.get("l"), "vars") and mentions(y.get("r"), "scale_exp")
                   for y in H.walk(t)):
                downs.append(x)
            elif any(y.get("k") == "bin" and y.get("o") == "<<" and mentions(y.get("r"), "scale_exp") for y in H.walk(t)):
                ups.append(x)
        if not downs and not ups:
            continue
        n += 1
        ok = len(downs) == 1 and len(ups) == 1 and json.dumps(norm(downs[0]["c"]), sort_keys=True) == json.dumps(norm(ups[0]["c"]), sort_keys=True)
        # the condition must require a non-zero scale and enough variables
        if ok:
            c = downs[0]["c"]
            ops = [y.get("o") for y in H.walk(c) if y.get("k") == "bin"]
            ok = ">=" in ops
        ctx.ob(rule, "%s:%s" % (rule, F.nice(fid)), ok,
               "%s (%s): %s" % (F.nice(fid), F.where(fid),
                                "scales down by vars - scale_exp and up by scale_exp under one and the same condition (vars >= scale_exp ..)"
                                if ok else
                                "the scale-down of the terminal value (vars - scale_exp) and the scale-up of the result (<< scale_exp) are "
                                "not taken under the same condition `vars >= scale_exp` (%d / %d sites): the count is "
                                "off by 2^scale_exp for large variable counts" % (len(downs), len(ups))))
    return n
