"""E-NUM.terminals: equality, order, hash and text form of the MTBDD terminal types `F64` and `I64`.

Terminals are hash-consed by `Eq` / `Hash` and written to / read from DDDMP files by `AsciiDisplay` / `ParseTagged`.
Interpreted from HIR over the special values and a few ordinary ones (f64 values are evaluated exactly, bit patterns
included):

  from     `F64::from(x)` yields the canonical NaN for both NaN signs, `0.0` for `-0.0`, `x` otherwise;
  eq       `F64::eq(a, b)` <=> a and b have the same bits (normalised values: NaN == NaN, 0.0 == 0.0, ..); equal values feed equal
           input to the hasher;
  ord      `F64::partial_cmp`: NaN vs NaN is Equal, NaN vs a number is None (both ways), numbers compare numerically;
  text     for NaN, -inf, +inf and ordinary numbers: `parse(AsciiDisplay(v)) == v` and `parse(Display(v)) == v`, for both
           types; `F64::parse` normalises "-0.0" and "-nan".
"""
import math
import struct

import tables
from lib.interp import Enum, Interp, Opaque, Return, Unrecognised, enumerate_runs
from tables import SOME, NONE, OK, ERR

RULE = "E-NUM.terminals"
FB = "oxidd_rules_mtbdd::terminal::f64::"
IB = "oxidd_rules_mtbdd::terminal::i64::"
ORD = "core::cmp::Ordering::"


def bits(x):
    return struct.unpack("<Q", struct.pack("<d", x))[0]


def from_bits(b):
    return struct.unpack("<d", struct.pack("<Q", b))[0]


NAN = from_bits(0x7ff8000000000000)
NEG_NAN = from_bits(0xfff8000000000000)


class F64:
    def __init__(self, v):
        self.v = v

    def __repr__(self):
        return "F64(%r/%#x)" % (self.v, bits(self.v))


class Fmt:
    def __init__(self):
        self.out = []


class TermDomain(tables.DDDomain):
    def __init__(self, F):
        super().__init__(F, tables.BDD)
        self.hashed = []

    def equal(self, it, a, b):
        if isinstance(a, str) and isinstance(b, str):
            return a == b
        if isinstance(a, float) and isinstance(b, float):
            return a == b
        return super().equal(it, a, b)

    def const(self, it, e):
        n = e.get("n") or ""
        if n.endswith("f64>::NAN") or n.endswith("f64::NAN"):
            return NAN
        if n.endswith("NEG_INFINITY"):
            return -math.inf
        if n.endswith("INFINITY"):
            return math.inf
        return super().const(it, e)

    def self_ctor(self, it, args, env):
        return F64(args[0])

    def field(self, it, v, n):
        if isinstance(v, F64) and n == "0":
            return v.v
        return None

    def unop(self, it, o, v):
        if o == "-" and isinstance(v, float):
            return -v
        return super().unop(it, o, v)

    def try_(self, it, v):
        if isinstance(v, Enum) and v.path == NONE:
            raise Return(v)
        if isinstance(v, Enum) and v.path == SOME:
            return v.args[0]
        return super().try_(it, v)

    def call(self, it, name, f, args_e, env, e):
        n = f.get("n", "")
        did = f.get("did") or ""
        if n.endswith("Default::default") or n.endswith("::default"):
            return Opaque("tag")
        if n.endswith("FromStr::from_str") or n.endswith("::from_str"):
            (s,) = [it.ev(a, env) for a in args_e]
            ty = (f.get("ga") or [""])[0] if f.get("ga") else ""
            want_float = "f64" in n or ty == "f64" or "f64" in did
            try:
                if want_float:
                    if s.strip() != s or s.lower().lstrip("+-") in ("", "infinity", "inf", "nan") and False:
                        raise ValueError
                    v = float(s)
                    if s.lstrip("+-").lower() == "nan" and s.startswith("-"):
                        v = NEG_NAN
                    return Enum(OK, [v])
                return Enum(OK, [int(s)])
            except ValueError:
                return Enum(ERR, [Opaque("parse error")])
        if n.endswith("From::from") or n.endswith("::from"):
            fid = next((x for x, r in self.F.fns.items() if x.startswith(FB) and x.endswith("::from")
                        and (r.get("impl") or {}).get("trait_args") == [FB + "F64", "f64"]), None)
            (v,) = [it.ev(a, env) for a in args_e]
            if fid and isinstance(v, float):
                return it.call_fn(fid, [v])
        return super().call(it, name, f, args_e, env, e)

    def method(self, it, m, e, env):
        name = m.rsplit("::", 1)[-1]
        recv = it.recv(e, env)
        if isinstance(recv, float):
            if name == "to_bits":
                return bits(recv)
            if name == "is_nan":
                return math.isnan(recv)
            if name == "partial_cmp":
                (o,) = it.args(e, env)
                if math.isnan(recv) or math.isnan(o):
                    return Enum(NONE)
                return Enum(SOME, [Enum(ORD + ("Less" if recv < o else "Greater" if recv > o else "Equal"))])
            if name == "fmt":
                (f,) = it.args(e, env)
                f.out.append("NaN" if math.isnan(recv) else ("inf" if recv > 0 else "-inf") if math.isinf(recv) else
                             repr(recv) if recv != int(recv) else "%d" % int(recv))
                return Enum(OK, [()])
        if isinstance(recv, int) and not isinstance(recv, bool):
            if name == "hash":
                it.args(e, env)
                self.hashed.append(recv)
                return ()
            if name in ("wrapping_add", "wrapping_sub", "rotate_left", "swap_bytes"):
                a = it.args(e, env)
                return (recv + a[0]) % 2 ** 64 if name == "wrapping_add" else (recv - a[0]) % 2 ** 64 if name == "wrapping_sub" else recv
            if name == "fmt":
                (f,) = it.args(e, env)
                f.out.append("%d" % recv)
                return Enum(OK, [()])
        if isinstance(recv, Fmt) and name == "write_str":
            (s,) = it.args(e, env)
            recv.out.append(s)
            return Enum(OK, [()])
        if isinstance(recv, Enum) and name == "ok":
            return Enum(SOME, [recv.args[0]]) if recv.path == OK else Enum(NONE)
        return super().method(it, m, e, env)


def _fn(F, base, trait, name, targs=None):
    for f, r in F.fns.items():
        imp = r.get("impl") or {}
        if f.startswith(base) and f.endswith("::" + name) and imp.get("trait") == trait and f in F.hir and \
                (targs is None or imp.get("trait_args") == targs):
            return f
    return None


def run(ctx, F, rule=RULE):
    n = 0
    f_eq = _fn(F, FB, "std::cmp::PartialEq", "eq")
    f_cmp = _fn(F, FB, "std::cmp::PartialOrd", "partial_cmp")
    f_hash = _fn(F, FB, "std::hash::Hash", "hash")
    f_from = _fn(F, FB, "std::convert::From", "from", [FB + "F64", "f64"])
    f_parse = _fn(F, FB, "oxidd_dump::ParseTagged", "parse")
    f_disp = _fn(F, FB, "std::fmt::Display", "fmt")
    f_asc = _fn(F, FB, "oxidd_dump::AsciiDisplay", "fmt")
    i_parse = _fn(F, IB, "oxidd_dump::ParseTagged", "parse")
    i_disp = _fn(F, IB, "std::fmt::Display", "fmt")
    i_asc = _fn(F, IB, "oxidd_dump::AsciiDisplay", "fmt")
    if not ctx.anchor(rule, "F64: eq / partial_cmp / hash / From<f64> / parse / Display / AsciiDisplay; I64: parse / Display / AsciiDisplay",
                      all((f_eq, f_cmp, f_hash, f_from, f_parse, f_disp, f_asc, i_parse, i_disp, i_asc))):
        return 0
    holder = {}

    def mk(oracle):
        holder["d"] = TermDomain(F)
        return Interp(F, holder["d"], oracle)

    def call(fid, *args):
        outs = list(enumerate_runs(mk, lambda it: it.call_fn(fid, list(args))))
        if len(outs) != 1 or outs[0][1][0] != "ok":
            raise Unrecognised("%s: %r" % (F.nice(fid), outs[0][1] if outs else None))
        return outs[0][1][1]
    # ---- F64 ------------------------------------------------------------------------------------------------------------
    fails = []
    try:
        raw = [NAN, NEG_NAN, -0.0, 0.0, 1.5, -2.0, math.inf, -math.inf]
        for x in raw:
            n += 1
            r = call(f_from, x)
            want = bits(NAN) if math.isnan(x) else 0 if x == 0 else bits(x)
            if not isinstance(r, F64) or bits(r.v) != want:
                fails.append("F64::from(%r / %#x) = %r, expected bits %#x" % (x, bits(x), r, want))
        norm = [NAN, 0.0, 1.5, -2.0, math.inf, -math.inf]
        for a in norm:
            for b in norm:
                n += 1
                r = call(f_eq, F64(a), F64(b))
                if r is not (bits(a) == bits(b)):
                    fails.append("F64::eq(%r, %r) = %r" % (a, b, r))
                r = call(f_cmp, F64(a), F64(b))
                if math.isnan(a) and math.isnan(b):
                    want = Enum(SOME, [Enum(ORD + "Equal")])
                elif math.isnan(a) or math.isnan(b):
                    want = Enum(NONE)
                else:
                    want = Enum(SOME, [Enum(ORD + ("Less" if a < b else "Greater" if a > b else "Equal"))])
                if r != want:
                    fails.append("F64::partial_cmp(%r, %r) = %r, expected %r" % (a, b, r, want))
        # hash: equal values (= equal bits, see eq) must feed equal input to the hasher; any function of the bits will do
        seen = {}
        for a in norm + [from_bits(bits(NAN))]:
            n += 1
            call(f_hash, F64(a), Opaque("hasher"))
            got = tuple(holder["d"].hashed)
            if not got or seen.setdefault(bits(a), got) != got:
                fails.append("F64::hash(%r) feeds %r to the hasher (equal values must hash equally)" % (a, got))
        for a in norm:
            for fid, what in ((f_asc, "AsciiDisplay"), (f_disp, "Display")):
                n += 1
                fm = Fmt()
                call(fid, F64(a), fm)
                text = "".join(fm.out)
                back = call(f_parse, text)
                ok = isinstance(back, Enum) and back.path == SOME and isinstance(back.args[0], tuple) and \
                    isinstance(back.args[0][0], F64) and bits(back.args[0][0].v) == bits(a)
                if not ok:
                    fails.append("F64 %r is written as '%s' (%s) and read back as %r" % (a, text, what, back))
        for text, want in (("-0.0", 0.0), ("-nan", NAN), ("nan", NAN), ("-inf", -math.inf), ("2.5", 2.5)):
            n += 1
            back = call(f_parse, text)
            ok = isinstance(back, Enum) and back.path == SOME and isinstance(back.args[0][0], F64) and bits(back.args[0][0].v) == bits(want)
            if not ok:
                fails.append("F64::parse('%s') = %r, expected bits %#x" % (text, back, bits(want)))
        n += 1
        back = call(f_parse, "x1")
        if not (isinstance(back, Enum) and back.path == NONE):
            fails.append("F64::parse('x1') = %r, expected None" % (back,))
    except Unrecognised as u:
        fails.append("not interpretable: %s" % u)
    ctx.ob(rule, rule + ":f64", not fails, "F64 terminal (%s): %s" % (F.where(f_eq), " || ".join(fails[:3]) if fails else
           "normalising From, bitwise eq, consistent hash, NaN-aware order, text form read back exactly"))
    # ---- I64 ------------------------------------------------------------------------------------------------------------
    fails = []
    try:
        vals = [Enum(IB + "I64::NaN"), Enum(IB + "I64::MinusInf"), Enum(IB + "I64::PlusInf"), Enum(IB + "I64::Num", [5]), Enum(IB + "I64::Num", [-7]),
                Enum(IB + "I64::Num", [0])]
        for v in vals:
            for fid, what in ((i_asc, "AsciiDisplay"), (i_disp, "Display")):
                n += 1
                fm = Fmt()
                call(fid, v, fm)
                text = "".join(fm.out)
                back = call(i_parse, text)
                ok = isinstance(back, Enum) and back.path == SOME and isinstance(back.args[0], tuple) and back.args[0][0] == v
                if not ok:
                    fails.append("I64 %r is written as '%s' (%s) and read back as %r" % (v, text, what, back))
        n += 1
        back = call(i_parse, "1x")
        if not (isinstance(back, Enum) and back.path == NONE):
            fails.append("I64::parse('1x') = %r, expected None" % (back,))
    except Unrecognised as u:
        fails.append("not interpretable: %s" % u)
    ctx.ob(rule, rule + ":i64", not fails, "I64 terminal (%s): %s" % (F.where(i_parse), " || ".join(fails[:3]) if fails else
           "text form of NaN, -inf, +inf and numbers read back exactly"))
    return n
