"""E-FREELIST: hand-over of thread-local free lists / node-count deltas to the shared store state.

The index manager keeps a thread-local list of free slots (`LocalStoreState.next_free`) and a local node-count
delta.  Publishing them to `SharedStoreState` is a *move*: the local cell must be emptied in the same step
(`Cell::replace(.., 0)`), otherwise the same slots stay reachable from the local list while other threads
allocate them, and a later hand-over publishes slots that hold live nodes.
"""
import re

from lib import cfg

LOCAL = "oxidd_manager_index::manager::LocalStoreState"
SHARED = "oxidd_manager_index::manager::SharedStoreState"

ALLOW = {
    # LocalStoreStateGuard::drop resets `current_store` before calling this helper, so prepare_local_state()
    # re-initialises next_free/initialized before the local state is used again
    "return_preallocated": "the guard's drop clears current_store; prepare_local_state re-initialises the local lists",
}


def origins(B, m, start_ops):
    """backward slice over copies/casts/arithmetic: the calls (block idx) and params a value derives from"""
    seen = set()
    out = []
    work = [cfg.op_place(o) for o in start_ops if cfg.op_place(o) is not None]
    defs = {}
    for i, b in enumerate(m["blocks"]):
        for s in b["s"]:
            if "lhs" in s and isinstance(s["lhs"], int):
                defs.setdefault(s["lhs"], []).append(("s", s["rv"], i))
        t = b["t"]
        if t["k"] == "call" and isinstance(t["d"], int):
            defs.setdefault(t["d"], []).append(("c", t, i))
    while work:
        p = work.pop()
        l = p if isinstance(p, int) else p["l"]
        if l in seen:
            continue
        seen.add(l)
        if l <= m["argc"] and l not in defs:
            out.append(("param", l))
            continue
        for kind, d, i in defs.get(l, []):
            if kind == "c":
                out.append(("call", d, i))
            else:
                for k in ("op", "a", "b"):
                    if k in d:
                        q = cfg.op_place(d[k])
                        if q is not None:
                            work.append(q)
                if "p" in d:
                    work.append(d["p"])
                for o in d.get("ops", []):
                    q = cfg.op_place(o)
                    if q is not None:
                        work.append(q)
    return out


def cell_field(B, m, t):
    """for a call on a `Cell` method: the LocalStoreState field its receiver refers to (or None)"""
    if not t["a"]:
        return None
    r = cfg.op_place(t["a"][0])
    l = r if isinstance(r, int) else (r["l"] if r else None)
    for b in m["blocks"]:
        for s in b["s"]:
            if "lhs" in s and s["lhs"] == l and s["rv"]["k"] == "ref":
                p = s["rv"]["p"]
                if isinstance(p, dict):
                    for e in p["p"]:
                        if e.endswith("@" + LOCAL):
                            return e[1:].split("@")[0]
    return None


def run(ctx, F, rule="E-FREELIST"):
    n = 0
    for fid, m in sorted(F.mir.items()):
        if not fid.startswith("oxidd_manager_index::manager::"):
            continue
        B = cfg.Body(m)
        sinks = []
        for i in sorted(B.reach):
            b = m["blocks"][i]
            if b["c"]:
                continue
            t = b["t"]
            if t["k"] == "call" and (cfg.callee_name(t) or "").endswith("Vec::<T, A>::push") and len(t["a"]) == 2:
                # receiver: &mut shared.next_free ?
                r = cfg.op_place(t["a"][0])
                l = r if isinstance(r, int) else None
                is_shared = False
                for bb in m["blocks"]:
                    for s in bb["s"]:
                        if "lhs" in s and s["lhs"] == l and s["rv"]["k"] == "ref" and isinstance(s["rv"]["p"], dict) \
                                and any(e == ".next_free@" + SHARED for e in s["rv"]["p"]["p"]):
                            is_shared = True
                if is_shared:
                    sinks.append(("shared.next_free.push", i, [t["a"][1]]))
            for s in b["s"]:
                if "lhs" in s and isinstance(s["lhs"], dict) and s["lhs"]["p"] and s["lhs"]["p"][-1] == ".node_count@" + SHARED:
                    rv = s["rv"]
                    sinks.append(("shared.node_count +=", i, [rv[k] for k in ("a", "b", "op") if k in rv]))
        for what, i, ops in sinks:
            n += 1
            bad = None
            for o in origins(B, m, ops):
                if o[0] == "call":
                    t = o[1]
                    cn = cfg.callee_name(t) or ""
                    if cn.endswith("Cell::<T>::get"):
                        f = cell_field(B, m, t)
                        if f in ("next_free", "node_count_delta"):
                            bad = f
            nice = F.nice(fid)
            allowed = [k for k in ALLOW if k in nice]
            key = "%s:%s:%s" % (rule, nice, what)
            if bad and allowed:
                ctx.ob(rule, key, True, "allow-listed (%s): %s" % (allowed[0], ALLOW[allowed[0]]))
                continue
            ctx.ob(rule, key, bad is None,
                   "%s (%s): `%s` publishes the thread-local `%s` read with Cell::get(); the local cell keeps its value, so "
                   "the same free slots / count delta are handed over again later although other threads may have "
                   "allocated them in the meantime (a live node gets overwritten). Move the value out with "
                   "Cell::replace(.., 0)" % (nice, F.where(fid), what, bad))
    ctx.floor(rule, "hand-over sites of local free lists / count deltas", n, 6)
    return n
