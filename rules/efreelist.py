"""E-FREELIST: hand-over of thread-local free lists / node-count deltas to the shared store state.

The index manager keeps a thread-local list of free slots (`LocalStoreState.next_free`) and a local node-count
delta.  Publishing them to `SharedStoreState` is a *move*: the local cell must be emptied in the same step
(`Cell::replace(.., 0)`), otherwise the same slots stay reachable from the local list while other threads
allocate them, and a later hand-over publishes slots that hold live nodes.
"""
import re

from lib import cfg

LOCAL = "oxidd_manager_index::manager::LocalStoreState"
SHARED = "oxidd_manager_index::manager::SharedStoreState"

ALLOW = {
    # LocalStoreStateGuard::drop resets `current_store` before calling this helper, so prepare_local_state()
    # re-initialises next_free/initialized before the local state is used again
    "return_preallocated": "the guard's drop clears current_store; prepare_local_state re-initialises the local lists",
}


def origins(B, m, start_ops):
    """backward slice over copies/casts/arithmetic: the calls (block idx) and params a value derives from"""
    seen = set()
    out = []
    work = [cfg.op_place(o) for o in start_ops if cfg.op_place(o) is not None]
    defs = {}
    for i, b in enumerate(m["blocks"]):
        for s in b["s"]:
            if "lhs" in s and isinstance(s["lhs"], int):
                defs.setdefault(s["lhs"], []).append(("s", s["rv"], i))
        t = b["t"]
        if t["k"] == "call" and isinstance(t["d"], int):
            defs.setdefault(t["d"], []).append(("c", t, i))
    while work:
        p = work.pop()
        l = p if isinstance(p, int) else p["l"]
        if l in seen:
            continue
        seen.add(l)
        if l <= m["argc"] and l not in defs:
            out.append(("param", l))
            continue
        for kind, d, i in defs.get(l, []):
            if kind == "c":
                out.append(("call", d, i))
            else:
                for k in ("op", "a", "b"):
                    if k in d:
                        q = cfg.op_place(d[k])
                        if q is not None:
                            work.append(q)
                if "p" in d:
                    work.append(d["p"])
                for o in d.get("ops", []):
                    q = cfg.op_place(o)
                    if q is not None:
                        work.append(q)
    return out


def cell_field(B, m, t):
    """for a call on a `Cell` method: the LocalStoreState field its receiver refers to (or None)"""
    if not t["a"]:
        return None
    r = cfg.op_place(t["a"][0])
    l = r if isinstance(r, int) else (r["l"] if r else None)
    for b in m["blocks"]:
        for s in b["s"]:
            if "lhs" in s and s["lhs"] == l and s["rv"]["k"] == "ref":
                p = s["rv"]["p"]
                if isinstance(p, dict):
                    for e in p["p"]:
                        if e.endswith("@" + LOCAL):
                            return e[1:].split("@")[0]
    return None


def reset_around(B, m, field, get_blk, sink_blk):
    """the cell read with get() is emptied (set(.., 0) / replace(.., 0)) after the read and before / right after the
    publication: equivalent to moving the value out"""
    for r, t in B.calls():
        cn = cfg.callee_name(t) or ""
        if not (cn.endswith("Cell::<T>::set") or cn.endswith("Cell::<T>::replace")):
            continue
        if cell_field(B, m, t) != field or len(t["a"]) < 2 or cfg.const_int(t["a"][1]) != 0:
            continue
        if B.dominates(get_blk, r) and (B.dominates(r, sink_blk) or B.postdominates(r, sink_blk)):
            return True
    return False


def run(ctx, F, rule="E-FREELIST"):
    n = 0
    for fid, m in sorted(F.mir.items()):
        if not fid.startswith("oxidd_manager_index::manager::"):
            continue
        B = cfg.Body(m)
        sinks = []
        for i in sorted(B.reach):
            b = m["blocks"][i]
            if b["c"]:
                continue
            t = b["t"]
            if t["k"] == "call" and (cfg.callee_name(t) or "").endswith("Vec::<T, A>::push") and len(t["a"]) == 2:
                # receiver: &mut shared.next_free ?
                r = cfg.op_place(t["a"][0])
                l = r if isinstance(r, int) else None
                is_shared = False
                for bb in m["blocks"]:
                    for s in bb["s"]:
                        if "lhs" in s and s["lhs"] == l and s["rv"]["k"] == "ref" and isinstance(s["rv"]["p"], dict) \
                                and any(e == ".next_free@" + SHARED for e in s["rv"]["p"]["p"]):
                            is_shared = True
                if is_shared:
                    sinks.append(("shared.next_free.push", i, [t["a"][1]]))
            for s in b["s"]:
                if "lhs" in s and isinstance(s["lhs"], dict) and s["lhs"]["p"] and s["lhs"]["p"][-1] == ".node_count@" + SHARED:
                    rv = s["rv"]
                    sinks.append(("shared.node_count +=", i, [rv[k] for k in ("a", "b", "op") if k in rv]))
        for what, i, ops in sinks:
            n += 1
            bad = None
            for o in origins(B, m, ops):
                if o[0] == "call":
                    t = o[1]
                    cn = cfg.callee_name(t) or ""
                    if cn.endswith("Cell::<T>::get"):
                        f = cell_field(B, m, t)
                        if f in ("next_free", "node_count_delta") and not reset_around(B, m, f, o[2], i):
                            bad = f
            nice = F.nice(fid)
            allowed = [k for k in ALLOW if k in nice]
            key = "%s:%s:%s" % (rule, nice, what)
            if bad and allowed:
                ctx.ob(rule, key, True, "allow-listed (%s): %s" % (allowed[0], ALLOW[allowed[0]]))
                continue
            ctx.ob(rule, key, bad is None,
                   "%s (%s): `%s` publishes the thread-local `%s` read with Cell::get(); the local cell keeps its value, so "
                   "the same free slots / count delta are handed over again later although other threads may have "
                   "allocated them in the meantime (a live node gets overwritten). Move the value out with "
                   "Cell::replace(.., 0) or reset the cell next to the publication" % (nice, F.where(fid), what, bad))
    ctx.floor(rule, "hand-over sites of local free lists / count deltas", n, 6)
    return n


NODE_COUNT = ".node_count@" + SHARED


def _is_nc_update(s, op):
    lhs = s.get("lhs")
    rv = s.get("rv") or {}
    return isinstance(lhs, dict) and lhs.get("p") and lhs["p"][-1] == NODE_COUNT and rv.get("k") in ("bin", "checked") \
        and str(rv.get("o", "")).startswith(op)


def check_count_bookkeeping(ctx, F, rule="E-FREELIST.count"):
    """The shared (approximate) node count that drives the automatic garbage collection stays in step with the nodes.
      undo    in get_slot_from_shared the count is raised by a delta that already includes the node about to be
              created; every `Err(OutOfMemory)` exit reached after that is preceded by `node_count -= 1`;
      stored  a thread-local delta that was read and adjusted (`let delta = node_count_delta.get() +/- 1`) is either
              written back or added to the shared count on every path (no computed delta is dropped)."""
    n = 0
    for fid, m in sorted(F.mir.items()):
        if not fid.startswith("oxidd_manager_index::manager::"):
            continue
        B = cfg.Body(m)
        blocks = [i for i in sorted(B.reach) if not m["blocks"][i]["c"]]
        if fid.endswith("::get_slot_from_shared"):
            adds = [i for i in blocks if any(_is_nc_update(s, "Add") for s in m["blocks"][i]["s"])]
            errs = []
            for i in blocks:
                seen_sub = False
                for s in m["blocks"][i]["s"]:
                    if _is_nc_update(s, "Sub") and cfg.const_int((s["rv"].get("b") or {})) == 1:
                        seen_sub = True
                    rv = s.get("rv") or {}
                    if s.get("lhs") == 0 and rv.get("k") == "aggr" and rv.get("variant") == "Err":
                        errs.append((i, seen_sub))
            subs = [i for i in blocks if any(_is_nc_update(s, "Sub") for s in m["blocks"][i]["s"])]
            n += 1
            if ctx.anchor(rule, "get_slot_from_shared: node_count += delta / Err exits", bool(adds) and bool(errs)):
                bad = [i for i, same in errs if any(B.can_reach(a, i) for a in adds) and not same and
                       not any(B.dominates(sb, i) and any(B.dominates(a, sb) for a in adds) for sb in subs)]
                ctx.ob(rule, rule + ":undo:get_slot_from_shared", not bad,
                       "%s (%s): %s" % (F.nice(fid), F.where(fid),
                                        "every OutOfMemory exit after `node_count += delta` undoes the +1 of the node that was "
                                        "not created (%d exits)" % len(errs) if not bad else
                                        "%d of %d OutOfMemory exit(s) keep the +1 for the node that was not created: every failed "
                                        "allocation inflates the node count that arms the automatic gc" % (len(bad), len(errs))))
        # computed deltas must not be dropped
        for L, loc in enumerate(m["locals"]):
            if loc.get("n") != "delta":
                continue
            # definitions from a binary op on a Cell::get result
            defs = []
            for i in blocks:
                for k, s in enumerate(m["blocks"][i]["s"]):
                    rv = s.get("rv") or {}
                    if s.get("lhs") == L and rv.get("k") in ("bin", "checked") and str(rv.get("o", ""))[:3] in ("Add", "Sub"):
                        src = origins(B, m, [rv.get("a")])
                        if any(o[0] == "call" and (cfg.callee_name(o[1]) or "").endswith("Cell::<T>::get") and
                               cell_field(B, m, o[1]) == "node_count_delta" for o in src):
                            defs.append((i, k))
            for (bi, k) in defs:
                n += 1

                # temporaries holding a copy / cast of the delta
                carriers = {L}
                grown = True
                while grown:
                    grown = False
                    for i2 in blocks:
                        for s2 in m["blocks"][i2]["s"]:
                            rv2 = s2.get("rv") or {}
                            if rv2.get("k") in ("use", "cast") and isinstance(s2.get("lhs"), int) and s2["lhs"] not in carriers \
                                    and any(_reads(rv2, c) for c in carriers):
                                carriers.add(s2["lhs"])
                                grown = True

                def uses(block_idx, start):
                    """a *storing* use: written back to the cell, added to the shared count, or handed to a callee"""
                    b = m["blocks"][block_idx]
                    for s in b["s"][start:]:
                        if (_is_nc_update(s, "Add") or _is_nc_update(s, "Sub")) and any(_reads(s.get("rv"), c) for c in carriers):
                            return True
                    t = b.get("t") or {}
                    if t.get("k") == "call":
                        cn = cfg.callee_name(t) or ""
                        args = t.get("a") or []
                        if cn.endswith("Cell::<T>::set") and len(args) == 2 and any(_reads(args[1], c) for c in carriers):
                            return True
                        if not cn.startswith("std::") and not cn.startswith("core::") and any(_reads(args, c) for c in carriers):
                            return True
                    return False
                ok = True
                if not uses(bi, k + 1):
                    seen, todo = set(), list(B.succ[bi])
                    while todo:
                        x = todo.pop()
                        if x in seen or m["blocks"][x]["c"]:
                            continue
                        seen.add(x)
                        if uses(x, 0):
                            continue
                        if m["blocks"][x]["t"]["k"] == "return" or not B.succ[x]:
                            ok = False
                            break
                        todo.extend(B.succ[x])
                nice = F.nice(fid)
                ctx.ob(rule, "%s:stored:%s" % (rule, re.sub(r"\{closure#\d+\}", "{closure}", nice)), ok,
                       "%s (%s): %s" % (nice, F.where(fid),
                                        "the adjusted node-count delta is written back or published on every path" if ok else
                                        "the adjusted thread-local node-count delta (`delta`) is dropped on a path to the return: "
                                        "the shared count misses the node that was just created / freed"))
    return n


def _reads(x, L):
    if isinstance(x, dict):
        for k in ("cp", "mv"):
            if k in x:
                v = x[k]
                if v == L or (isinstance(v, dict) and v.get("l") == L):
                    return True
        return any(_reads(v, L) for k, v in x.items() if k != "lhs")
    if isinstance(x, list):
        return any(_reads(v, L) for v in x)
    return False


def check_terminal_gc(ctx, F, rule="E-FREELIST.term"):
    """`DynamicTerminalManager::gc` threads the free list through a local while it sweeps the unique table (the
    closure passed to `retain` links every freed slot in front of it).  After the sweep the local head must be written
    back to `state.next_free` on every path to the return; otherwise the freed terminal slots are unreachable and a
    retry after drop + gc still fails with OutOfMemory."""
    n = 0
    for fid, m in sorted(F.mir.items()):
        if not (re.search(r"terminal_manager::dynamic::", fid) and fid.endswith("::gc") and "{closure" not in fid):
            continue
        B = cfg.Body(m)
        retains = [i for i, t in B.calls() if (cfg.callee_name(t) or "").endswith("::retain")]
        stores = [i for i in sorted(B.reach) if not m["blocks"][i]["c"] and
                  any(isinstance(s.get("lhs"), dict) and s["lhs"].get("p") and str(s["lhs"]["p"][-1]).startswith(".next_free@")
                      for s in m["blocks"][i]["s"])]
        n += 1
        ok = bool(retains) and all(any(B.postdominates(s, r) and s != r or (B.dominates(r, s) and B.postdominates(s, r)) for s in stores)
                                   for r in retains)
        ctx.ob(rule, "%s:%s" % (rule, F.nice(fid)), ok,
               "%s (%s): %s" % (F.nice(fid), F.where(fid),
                                "the free-list head built during the sweep is written back to state.next_free" if ok else
                                "after the sweep (`retain`) the local free-list head is not written back to `state.next_free` on "
                                "every path: the freed terminal slots can never be reused"))
    ctx.floor(rule, "dynamic terminal managers with a gc", n, 1)
    return n


def check_oom_last_resort(ctx, F, rule="E-FREELIST.lastresort"):
    """`get_slot_from_shared` may answer `Err(OutOfMemory)` only after it has looked at the shared free lists: the
    slot array's high-water mark (`allocated`) never decreases, slots freed by a collection come back through
    `shared.next_free` only.  Every `Err` exit must therefore be dominated by the `pop` on the shared list of free
    lists; otherwise, once the array has been exhausted, allocation fails for good although gc freed space
    (the property's "once space has been freed the same operation succeeds")."""
    n = 0
    for fid, m in sorted(F.mir.items()):
        if not (fid.startswith("oxidd_manager_index::manager::") and fid.endswith("::get_slot_from_shared")):
            continue
        B = cfg.Body(m)
        blocks = [i for i in sorted(B.reach) if not m["blocks"][i]["c"]]
        errs = [i for i in blocks for s in m["blocks"][i]["s"]
                if s.get("lhs") == 0 and (s.get("rv") or {}).get("k") == "aggr" and (s.get("rv") or {}).get("variant") == "Err"]
        pops = [i for i, t in B.calls() if re.search(r"Vec::<T, A>::pop$", cfg.callee_name(t) or "")]
        n += 1
        if not ctx.anchor(rule, "get_slot_from_shared: Err exits and the pop on the shared free lists", bool(errs) and bool(pops)):
            continue
        bad = [i for i in errs if not any(B.dominates(p, i) for p in pops)]
        ctx.ob(rule, rule + ":get_slot_from_shared", not bad,
               "%s (%s): %s" % (F.nice(fid), F.where(fid),
                                "every OutOfMemory exit (%d) is reached only after the shared free lists were consulted" % len(errs)
                                if not bad else
                                "%d of %d OutOfMemory exit(s) can be reached without consulting the shared free lists: after the "
                                "slot array has been exhausted once, slots freed by gc are never found again" % (len(bad), len(errs))))
    return n


def check_guard_handover(ctx, F, rule="E-FREELIST.handover"):
    """When a thread's session on a store ends (`LocalStoreStateGuard::drop`), whatever is parked in the thread-local
    state -- a free list, a partially used chunk, a node-count delta -- must go back to the shared store through
    `return_preallocated`; the next session starts from a zeroed local state.  The call may be skipped only when all
    three cells were inspected: every path from the entry of the drop closure to its return that avoids
    `return_preallocated` passes a `Cell::get` on each of `next_free`, `initialized` and `node_count_delta`."""
    n = 0
    for fid, m in sorted(F.mir.items()):
        if not (fid.startswith("oxidd_manager_index::manager::") and "LocalStoreStateGuard" in F.nice(fid) and "::drop" in fid):
            continue
        B = cfg.Body(m)
        rp = [i for i, t in B.calls() if (cfg.callee_name(t) or "").endswith("::return_preallocated")]
        if not rp:
            continue
        n += 1
        gets = {}
        for i, t in B.calls():
            if (cfg.callee_name(t) or "").endswith("Cell::<T>::get"):
                f = cell_field(B, m, t)
                if f:
                    gets.setdefault(f, set()).add(i)
        exits = [i for i in B.exits() if not m["blocks"][i]["c"]] if hasattr(B, "exits") else []
        missing = []
        for f in ("next_free", "initialized", "node_count_delta"):
            avoid = set(rp) | gets.get(f, set())
            reach = B.reachable_from(0, avoid=avoid)
            if any(e in reach for e in exits) or not gets.get(f):
                missing.append(f)
        # each test must send its `something is parked` outcome to return_preallocated
        wrong = []
        for i in sorted(B.reach):
            b = m["blocks"][i]
            if b["c"]:
                continue
            for s in b["s"]:
                rv = s.get("rv") or {}
                if rv.get("k") == "bin" and rv.get("o") in ("Eq", "Ne") and cfg.const_int(rv.get("b")) == 0 and isinstance(s.get("lhs"), int):
                    org = origins(B, m, [rv.get("a")])
                    fields = {cell_field(B, m, o[1]) for o in org if o[0] == "call" and (cfg.callee_name(o[1]) or "").endswith("Cell::<T>::get")}
                    fields.discard(None)
                    if not fields:
                        continue
                    t = b["t"]
                    if t["k"] != "switch" or cfg.op_place(t.get("d")) != s["lhs"]:
                        continue
                    zero = [blk for v, blk in t["t"] if str(v) == "0"]
                    nonzero_edge = [t.get("o")] if rv["o"] == "Ne" else zero     # the cell holds something
                    for x in nonzero_edge:
                        if x is None:
                            continue
                        reach = B.reachable_from(x, avoid=set(rp) | {i})
                        if any(e in reach for e in exits):
                            wrong.append(sorted(fields)[0])
        if wrong:
            missing = missing + ["%s (non-zero outcome does not lead to return_preallocated)" % w for w in sorted(set(wrong))]
        ctx.ob(rule, rule + ":LocalStoreStateGuard::drop", not missing,
               "%s (%s): %s" % (F.nice(fid), F.where(fid),
                                "return_preallocated is skipped only after next_free, initialized and node_count_delta were all "
                                "inspected" if not missing else
                                "the session can end without return_preallocated although the thread-local `%s` was never looked "
                                "at: what is parked there (free slots / a count delta) is lost when the next session zeroes the "
                                "local state" % "`, `".join(missing)))
    return n


ALLOCATED_WRITERS = {
    # function suffix -> why it may move the slot array's allocation mark
    "::get_slot_from_shared": "hands out the next chunk / slot: the mark only grows",
}


def check_allocation_mark(ctx, F, rule="E-FREELIST.mark"):
    """`SharedStoreState::allocated` is the high-water mark of the slot array: everything below it has been handed to
    some thread (whole chunks at a time), and slots come back through the free lists only.  Threads hold chunks
    concurrently, so the mark must never be moved back.  Who-may-write: the field is assigned in
    `get_slot_from_shared` only (struct literals that create the state aside), and there only with a value computed
    by an addition."""
    writers = {}
    for fid, m in sorted(F.mir.items()):
        if not fid.startswith("oxidd_manager_index::"):
            continue
        B = cfg.Body(m)
        for i in sorted(B.reach):
            b = m["blocks"][i]
            if b["c"]:
                continue
            for s in b["s"]:
                lhs = s.get("lhs")
                if isinstance(lhs, dict) and lhs.get("p") and lhs["p"][-1] == ".allocated@" + SHARED:
                    writers.setdefault(fid, []).append(s.get("rv") or {})
    n = 0
    if not ctx.anchor(rule, "assignments to SharedStoreState::allocated", bool(writers)):
        return 0
    for fid, rvs in sorted(writers.items()):
        n += 1
        nice = re.sub(r"\{closure#\d+\}", "{closure}", F.nice(fid))
        key = next((k for k in ALLOCATED_WRITERS if nice.endswith(k)), None)
        grows = True
        m = F.mir[fid]
        B = cfg.Body(m)
        for rv in rvs:
            if rv.get("k") in ("bin", "checked") and str(rv.get("o", "")).startswith(("Add", "Mul")):
                continue
            if rv.get("k") == "use":
                # a temp holding an Add / Mul result (possibly through a checked-op tuple field)
                p = cfg.op_place(rv.get("op"))
                pl = p if isinstance(p, int) else (p or {}).get("l")
                ok = False
                for j in sorted(B.reach):
                    for s2 in m["blocks"][j]["s"]:
                        if s2.get("lhs") == pl and (s2.get("rv") or {}).get("k") in ("bin", "checked") and \
                                str((s2.get("rv") or {}).get("o", "")).startswith(("Add", "Mul")):
                            ok = True
                if ok:
                    continue
            grows = False
        ctx.ob(rule, "%s:%s" % (rule, key or nice), key is not None and grows,
               "%s (%s): %s" % (nice, F.where(fid),
                                "moves the allocation mark forward only (%s)" % ALLOCATED_WRITERS[key] if key and grows else
                                "assigns SharedStoreState::allocated%s: the mark is the boundary below which every chunk belongs to "
                                "some thread; moving it back hands a chunk that another thread still fills out a second time "
                                "(two threads write nodes into the same slots)"
                                % ("" if key else " outside get_slot_from_shared") if not key else
                                "assigns the allocation mark a value that is not computed by an addition (the mark must only grow)"))
    return n


def check_return_links(ctx, F, rule="E-FREELIST.link"):
    """`return_preallocated` (session end): the unused rest of the thread's chunk is linked into one free list --
    slot k points to slot k + 1 (ids are slot indices + TERMINALS), the *last* slot of the chunk continues with the
    thread's own free list -- and the head `start + TERMINALS` is published; with nothing left of the chunk the thread's
    list is published as it is; an empty list (0) is not published; the node-count delta is moved out.  The closure is
    interpreted from HIR on a model (chunk size 8, 2 terminals) for a partially used chunk, a fully used chunk with and
    without a thread-local list."""
    from lib.interp import Interp, Opaque, StructVal, Unrecognised, enumerate_runs, Enum
    import itertools
    import tables
    fids = [f for f in F.hir if f.startswith("oxidd_manager_index::manager::") and f.endswith("::return_preallocated")]
    if not ctx.anchor(rule, "return_preallocated", len(fids) == 1):
        return 0
    fid = fids[0]
    CH = 8

    class Cell:
        def __init__(self, v):
            self.v = v

    class Obj:
        def __init__(self, **kw):
            self.__dict__.update(kw)

    class D(tables.DDDomain):
        finite_loops = True

        def __init__(self):
            super().__init__(F, tables.BDD)

        def const(self, it, e):
            if (e.get("n") or "").endswith("CHUNK_SIZE"):
                return CH
            if (e.get("n") or "").endswith("u32::MAX"):
                return 2 ** 32 - 1
            if (e.get("n") or "").endswith("LOCAL_STORE_STATE"):
                return ("tls", self.local)
            return super().const(it, e)

        def call_value(self, it, fv, args):
            if isinstance(fv, tuple) and fv and fv[0] == "closure":
                _, ce, cenv = fv
                env = dict(cenv)
                for p, a in zip(ce.get("params", []), args):
                    it.match(p, a, env)
                return it.ev(ce["body"], env)
            raise Unrecognised("call of %r" % (fv,))

        def field(self, it, v, n):
            if isinstance(v, Obj) and hasattr(v, n):
                return getattr(v, n)
            return None

        def field_assign(self, it, base, n, v):
            if isinstance(base, Obj):
                setattr(base, n, v)
                return True
            return False

        def iterate(self, it, v):
            if isinstance(v, (list, tuple)):
                return list(v)
            if isinstance(v, itertools.islice) or hasattr(v, "__next__"):
                return list(itertools.islice(v, 100))
            return None

        def binop(self, it, o, l, r):
            return super().binop(it, o, l, r)

        def method(self, it, m, e, env):
            nm = m.rsplit("::", 1)[-1]
            recv = it.recv(e, env)
            if isinstance(recv, tuple) and recv and recv[0] == "tls" and nm == "with":
                (clo,) = it.args(e, env)
                return self.call_value(it, clo, [recv[1]])
            if isinstance(recv, Cell):
                if nm == "get":
                    return recv.v
                if nm == "set":
                    (x,) = it.args(e, env)
                    recv.v = x
                    return ()
                if nm == "replace":
                    (x,) = it.args(e, env)
                    old, recv.v = recv.v, x
                    return old
            if isinstance(recv, Obj) and nm == "get" and hasattr(recv, "next_free") and not hasattr(recv, "node_count"):
                return recv           # UnsafeCell::get on a slot
            if isinstance(recv, Obj) and nm == "lock":
                return recv
            if isinstance(recv, list):
                if nm == "push":
                    (x,) = it.args(e, env)
                    recv.append(x)
                    return ()
                if nm in ("iter", "iter_mut", "into_iter"):
                    return list(recv)
                if nm == "zip":
                    (o,) = it.args(e, env)
                    if isinstance(o, StructVal) and o.path.endswith("RangeFrom"):
                        return list(zip(recv, itertools.count(o.fields["start"])))
                    ol = self.iterate(it, o)
                    return list(zip(recv, ol))
                if nm == "len":
                    return len(recv)
            return super().method(it, m, e, env)

    orig_index = Interp.ev_index

    holder = {}

    def mk(oracle):
        d = D()
        d.local = holder["local"]
        return Interp(F, d, oracle)
    fails = []
    n = 0
    for start, lnf, delta in ((5, 99, 3), (5, 0, 0), (8, 99, -2), (8, 0, 1), (16, 0, 0)):
        slots = [Obj(next_free=-1) for _ in range(3 * CH)]
        local = Obj(initialized=Cell(start), next_free=Cell(lnf), node_count_delta=Cell(delta), current_store=Cell(0))
        shared = Obj(next_free=[], node_count=100, allocated=0)
        holder["local"] = local

        def go(it):
            return it.call_fn(fid, [slots, shared, 2])
        # slicing `slots[a..b]`
        def ev_index(self, e, env):
            v = self.ev(e["e"], env)
            i = self.ev(e["i"], env)
            if isinstance(v, list) and isinstance(i, StructVal) and i.path.endswith("Range"):
                return v[i.fields["start"]:i.fields["end"]]
            return orig_index(self, e, env)
        Interp.ev_index = ev_index
        try:
            for trace, (status, val) in enumerate_runs(mk, go):
                n += 1
                sit = "initialized = %d, local free list = %d, delta = %d (chunk size %d, 2 terminals)" % (start, lnf, delta, CH)
                if status != "ok":
                    fails.append("%s: %s %s" % (sit, status, val))
                    continue
                got = [s.next_free for s in slots]
                want = [-1] * len(slots)
                if start % CH != 0:
                    end = (start // CH + 1) * CH
                    for k in range(start, end - 1):
                        want[k] = k + 1 + 2
                    want[end - 1] = lnf
                    pub = [start + 2]
                else:
                    pub = [lnf] if lnf != 0 else []
                if got != want:
                    fails.append("%s: slot links %r, expected %r (each slot points to the next one's id, the chunk's last slot to "
                                 "the thread's own list)" % (sit, {k: v for k, v in enumerate(got) if v != -1},
                                                            {k: v for k, v in enumerate(want) if v != -1}))
                if shared.next_free != pub:
                    fails.append("%s: published free lists %r, expected %r" % (sit, shared.next_free, pub))
                if shared.node_count != 100 + delta or local.node_count_delta.v != 0:
                    fails.append("%s: node count %r / remaining delta %r, expected %r / 0" % (sit, shared.node_count, local.node_count_delta.v, 100 + delta))
                if shared.allocated != 0:
                    fails.append("%s: the allocation mark was moved" % sit)
        finally:
            Interp.ev_index = orig_index
    ctx.ob(rule, rule, not fails and n >= 5, "return_preallocated (%s): %s" % (F.where(fid), " || ".join(fails[:2]) if fails else
                                                                             "links the rest of the chunk in front of the thread's list and publishes the head"))
    return n


def check_sentinel(ctx, F, rule="E-FREELIST.sentinel"):
    """Free lists of slot ids are terminated by 0 (id 0 is never a free inner-node slot).  Every constant that meets a
    free-list head in the index manager -- the argument of `Cell::set / replace` on the thread-local `next_free`, the
    default of `shared.next_free.pop().unwrap_or(..)`, and the constant a head is compared with -- is 0.  Another value
    makes slot 1 (or whatever it names) look free and hands a live slot out again."""
    found = []
    for fid, m in sorted(F.mir.items()):
        if not fid.startswith("oxidd_manager_index::manager::"):
            continue
        B = cfg.Body(m)
        nice = re.sub(r"\{closure#\d+\}", "{closure}", F.nice(fid))
        for i, t in B.calls():
            if m["blocks"][i]["c"]:
                continue
            cn = cfg.callee_name(t) or ""
            if (cn.endswith("Cell::<T>::replace") or cn.endswith("Cell::<T>::set")) and cell_field(B, m, t) == "next_free":
                c = cfg.const_int(t["a"][1])
                if c is not None:
                    found.append((fid, nice, "Cell::%s(next_free, %d)" % (cn.rsplit("::", 1)[-1], c), c))
            if cn.endswith("::unwrap_or") and t.get("a"):
                org = origins(B, m, [t["a"][0]])
                if any(o[0] == "call" and (cfg.callee_name(o[1]) or "").endswith("::pop") for o in org):
                    c = cfg.const_int(t["a"][1])
                    found.append((fid, nice, "next_free.pop().unwrap_or(%s)" % c, c))
        for i in sorted(B.reach):
            b = m["blocks"][i]
            if b["c"]:
                continue
            for s in b["s"]:
                rv = s.get("rv") or {}
                if rv.get("k") == "bin" and rv.get("o") in ("Eq", "Ne", "Lt", "Le", "Gt", "Ge"):
                    for x, y in (("a", "b"), ("b", "a")):
                        c = cfg.const_int(rv.get(y))
                        if c is None:
                            continue
                        hit = "next_free" in str(rv.get(x))
                        for o in origins(B, m, [rv.get(x)]):
                            if o[0] == "call" and (cfg.callee_name(o[1]) or "").endswith("Cell::<T>::get") and cell_field(B, m, o[1]) == "next_free":
                                hit = True
                        if hit:
                            found.append((fid, nice, "head %s %d" % (rv["o"], c), c if rv["o"] in ("Eq", "Ne") else None))
    bad = [(nice, what, F.where(fid)) for fid, nice, what, c in found if c != 0]
    ctx.ob(rule, rule, not bad and len(found) >= 7,
           "%d constants meet a free-list head in the index manager, all 0" % len(found) if not bad and len(found) >= 7 else
           ("free-list head meets a constant other than the end-of-list marker 0: " +
            "; ".join("%s (%s): %s" % (n_, w_, x_) for n_, x_, w_ in bad[:3])) if bad else
           "only %d sentinel sites found (expected >= 7)" % len(found))
    return len(found)


def check_count_signs(ctx, F, rule="E-FREELIST.countsign"):
    """`SharedStoreState::node_count` (the approximate node count that arms the automatic garbage collection and picks the
    concurrent reordering path) only ever receives thread-local deltas by addition; the only subtractions are `-= 1`
    (a failed allocation, a single slot freed outside a session).  Inventory of all updates in the index manager."""
    ups = []
    for fid, m in sorted(F.mir.items()):
        if not fid.startswith("oxidd_manager_index::manager::"):
            continue
        B = cfg.Body(m)
        for i in sorted(B.reach):
            b = m["blocks"][i]
            if b["c"]:
                continue
            for s in b["s"]:
                if _is_nc_update(s, "Add") or _is_nc_update(s, "Sub"):
                    rv = s["rv"]
                    ups.append((fid, str(rv.get("o"))[:3], cfg.const_int(rv.get("b"))))
    bad = [(F.nice(fid), op, c) for fid, op, c in ups if op == "Sub" and c != 1]
    nsub = sum(1 for _, op, c in ups if op == "Sub")
    ok = not bad and nsub <= 3 and len(ups) >= 6
    ctx.ob(rule, rule, ok,
           "%d updates of the shared node count: deltas are added, subtractions are `-= 1` only (failed allocation / a single freed slot)" % len(ups) if ok else
           "the shared node count is decreased by a delta (%s): the count drifts away from the number of nodes, the automatic "
           "garbage collection is armed at the wrong time" % "; ".join("%s: %s %s" % b for b in bad[:3]) if bad else
           "unexpected number of updates (%d, %d subtractions)" % (len(ups), nsub))
    return len(ups)


def check_store_binding(ctx, F, rule="E-FREELIST.binding"):
    """The thread-local slot state (`LOCAL_STORE_STATE`) belongs to one store at a time (`current_store`).  `add_node` and
    `free_slot` may touch its free list / chunk cursor / count delta only when it is bound to *this* store: in every
    function that compares `current_store.get()` with `addr(self)`, the reads and writes of the other thread-local
    cells are not confined to the `differs` edge (a flipped comparison would use another store's free slots)."""
    n = 0
    for fid, m in sorted(F.mir.items()):
        if not fid.startswith("oxidd_manager_index::manager::"):
            continue
        B = cfg.Body(m)
        blocks = m["blocks"]
        tests = []
        for i in sorted(B.reach):
            b = blocks[i]
            if b["c"]:
                continue
            for s in b["s"]:
                rv = s.get("rv") or {}
                if rv.get("k") == "bin" and rv.get("o") in ("Eq", "Ne") and isinstance(s.get("lhs"), int):
                    both = origins(B, m, [rv.get("a")]) + origins(B, m, [rv.get("b")])
                    cs = any(o[0] == "call" and (cfg.callee_name(o[1]) or "").endswith("Cell::<T>::get") and cell_field(B, m, o[1]) == "current_store"
                             for o in both)
                    ad = any(o[0] == "call" and (cfg.callee_name(o[1]) or "").endswith("::addr") for o in both)
                    t = b["t"]
                    if cs and ad and t["k"] == "switch" and cfg.op_place(t.get("d")) == s["lhs"]:
                        zero = [blk for v, blk in t["t"] if str(v) == "0"]
                        eq_e = [t.get("o")] if rv["o"] == "Eq" else zero
                        ne_e = zero if rv["o"] == "Eq" else [t.get("o")]
                        tests.append((i, eq_e, ne_e))
        if not tests:
            continue
        ops = [i for i, t in B.calls() if re.search(r"Cell::<T>::(get|set|replace)$", cfg.callee_name(t) or "")
               and cell_field(B, m, t) in ("next_free", "initialized", "node_count_delta") and not blocks[i]["c"]]
        for sw, eq_e, ne_e in tests:
            re_, rn = set(), set()
            for x in eq_e:
                if x is not None:
                    re_ |= B.reachable_from(x, avoid=(sw,))
            for x in ne_e:
                if x is not None:
                    rn |= B.reachable_from(x, avoid=(sw,))
            only_ne = [i for i in ops if i in rn and i not in re_]
            only_eq = [i for i in ops if i in re_ and i not in rn]
            n += 1
            ok = not only_ne and bool(only_eq)
            ctx.ob(rule, "%s:%s" % (rule, re.sub(r"\{closure#\d+\}", "{closure}", F.nice(fid))[-80:]), ok,
                   "%s (%s): %s" % (F.nice(fid), F.where(fid),
                                    "the thread-local free list / cursor / delta are used on the `bound to this store` edge" if ok else
                                    "thread-local slot state is read or written only when `current_store` is NOT this store (%d "
                                    "operation(s)): another store's free slots would be used" % len(only_ne) if only_ne else
                                    "no thread-local operation on the `bound to this store` edge"))
    return n


def check_terminal_links(ctx, F, rule="E-FREELIST.term.link"):
    """The free list of the dynamic terminal store, interpreted from HIR on a model store:
      sweep   the closure `gc` passes to `retain` for a dead terminal `id`, run with the local head at P: afterwards the
              slot `id` links to P, the head is `id` and one more terminal is counted (two dead terminals 2 and 4 with the
              head at 7 give the chain 4 -> 2 -> 7, never a slot that links to itself);
      keep    the `retain` predicate keeps a terminal exactly when its reference count is not 1;
      pop     `get_edge` for a new value with the head at 4 (slot 4 -> 2): the terminal goes to slot 4 with reference count
              2, the head becomes 2, id 4 enters the unique table and the edge carries id 4; with the head at the store's
              length it answers OutOfMemory and changes nothing."""
    import tables
    from lib import hirutil as H
    from lib.interp import ElemRef, Enum, Interp, Opaque, Return, StructVal, Unrecognised, Panic, enumerate_runs
    from tables import OK, ERR
    base = "oxidd_manager_index::terminal_manager::dynamic::"
    gc = next((f for f in F.hir if f.startswith(base) and f.endswith("::gc") and "{closure" not in f), None)
    ge = next((f for f in F.hir if f.startswith(base) and f.endswith("::get_edge") and "{closure" not in f), None)
    if not ctx.anchor(rule, "DynamicTerminalManager::gc / get_edge", gc is not None and ge is not None):
        return 0

    class Rec:
        def __init__(self, **kw):
            self.__dict__.update(kw)

    class D(tables.DDDomain):
        def __init__(self):
            super().__init__(F, tables.BDD)
            self.inserted = []
            self.dropped = 0

        def field(self, it, v, n):
            if isinstance(v, ElemRef):
                v = v.get()
            if isinstance(v, Rec) and hasattr(v, n):
                return getattr(v, n)
            return None

        def field_assign(self, it, b, n, v):
            if isinstance(b, ElemRef):
                b = b.get()
            if isinstance(b, Rec):
                setattr(b, n, v)
                return True
            return False

        def try_(self, it, v):
            if isinstance(v, Enum) and v.path == ERR:
                raise Return(v)
            return super().try_(it, v)

        def equal(self, it, a, b):
            if isinstance(a, Opaque) and isinstance(b, Opaque):
                return a.what == b.what
            return super().equal(it, a, b)

        def call(self, it, name, f, args_e, env, e):
            n = f.get("n", "")
            if n.endswith("ManuallyDrop::<T>::drop") or n.endswith("ManuallyDrop::drop"):
                [it.ev(a, env) for a in args_e]
                self.dropped += 1
                return ()
            if n.endswith("ManuallyDrop::<T>::new") or n.endswith("ManuallyDrop::new"):
                return [it.ev(a, env) for a in args_e][0]
            if n.endswith("AtomicU32::new") or n.endswith("::new") and "Atomic" in n:
                return [it.ev(a, env) for a in args_e][0]
            if n.endswith("::hash"):
                [it.ev(a, env) for a in args_e]
                return Opaque("hash")
            if n.endswith("from_terminal_id"):
                return ("edge", [it.ev(a, env) for a in args_e][0])
            return super().call(it, name, f, args_e, env, e)

        def method(self, it, m, e, env):
            name = m.rsplit("::", 1)[-1]
            recv = it.recv(e, env)
            if isinstance(recv, ElemRef):
                recv = recv.get()
            if isinstance(recv, list):
                if name == "get_unchecked":
                    (i,) = it.args(e, env)
                    if not (isinstance(i, int) and 0 <= i < len(recv)):
                        raise Panic("get_unchecked(%r) outside the store" % (i,))
                    return recv[i]
                if name == "get" and len(recv) == 1 and "UnsafeCell" in m:
                    return ElemRef(recv, 0)
                if name == "len":
                    return len(recv)
            if isinstance(recv, Rec) and name == "lock":
                return recv.inner
            if isinstance(recv, Rec) and name == "find_or_find_insert_slot":
                _, clo = it.args(e, env)
                for tid in getattr(recv, "entries", []):
                    cl_env = dict(clo[2])
                    for p_, a_ in zip(clo[1].get("params", []), [tid]):
                        it.match(p_, a_, cl_env)
                    if it.ev(clo[1]["body"], cl_env) is True:
                        return Enum(OK, [("tslot", tid)])
                return Enum(ERR, [Opaque("table slot")])
            if isinstance(recv, Rec) and name == "get_at_slot_unchecked":
                (sl,) = it.args(e, env)
                return sl[1]
            if isinstance(recv, Rec) and name == "retain" and hasattr(recv, "store"):
                self.retained = getattr(self, "retained", []) + it.args(e, env)
                return ()
            if isinstance(recv, Rec) and name == "insert_in_slot_unchecked":
                self.inserted.append(it.args(e, env)[-1])
                return ()
            if isinstance(recv, int) and name == "load":
                it.args(e, env)
                return recv
            return super().method(it, m, e, env)
    fails = []
    n = 0
    # ---- closures of gc ------------------------------------------------------------------------------------------------
    ret = [x for x in H.walk(F.hir[gc]["body"]) if x.get("k") == "mcall" and x.get("name") == "retain"]
    if not ctx.anchor(rule, "gc: one retain(keep, sweep) call with two closures",
                      len(ret) == 1 and len(ret[0]["a"]) == 2 and all(a.get("k") == "closure" for a in ret[0]["a"])):
        return 0
    keep, sweep = ret[0]["a"]

    def store(n_):
        return [[Rec(next_free=100 + i, node=Rec(rc=2, value=Opaque("v%d" % i)))] for i in range(n_)]

    def run_closure(clo, me, mut, arg):
        def go(it):
            env = {"$consts": {}, "$fn": gc, "$mut": mut, "self": me}
            for k in mut:
                env[k] = mut[k]
            if len(clo.get("params", [])) != 1 or not it.match(clo["params"][0], arg, env):
                raise Unrecognised("closure parameter")
            return it.ev(clo["body"], env)
        outs = list(enumerate_runs(lambda o: Interp(F, D(), o), go))
        if len(outs) != 1 or outs[0][1][0] != "ok":
            raise Unrecognised(repr(outs[0][1] if outs else None))
        return outs[0][1][1]
    try:
        st = store(6)
        me = Rec(store=st)
        mut = {"next_free": 7, "collected": 0}
        n += 2
        run_closure(sweep, me, mut, 2)
        run_closure(sweep, me, mut, 4)
        got = (st[2][0].next_free, st[4][0].next_free, mut.get("next_free"), mut.get("collected"))
        if got != (7, 2, 4, 2):
            fails.append("sweeping the dead terminals 2 and 4 with the head at 7 gives slot 2 -> %r, slot 4 -> %r, head %r, %r collected; expected "
                         "4 -> 2 -> 7 with head 4 and 2 collected" % got)
        for rc, want in ((1, False), (2, True), (3, True)):
            n += 1
            st = store(3)
            st[1][0].node.rc = rc
            r = run_closure(keep, Rec(store=st), {}, 1)
            if r is not want:
                fails.append("the retain predicate answers %r for a terminal with reference count %d" % (r, rc))
    except Unrecognised as u:
        fails.append("gc closures not interpretable: %s" % u)
    except Panic as p:
        fails.append("gc closures panic: %s" % p.msg)
    # ---- get_edge: pop ---------------------------------------------------------------------------------------------------
    try:
        for head in (4, 6):
            n += 1
            st = store(6)
            st[4][0].next_free = 2
            state = Rec(next_free=head, unique_table=Rec(entries=[1, 3]))
            me = Rec(store=st, state=Rec(inner=state))
            holder = {}

            def mk(o):
                holder["d"] = D()
                return Interp(F, holder["d"], o)
            outs = list(enumerate_runs(mk, lambda it: it.call_fn(ge, [me, Opaque("terminal")])))
            if len(outs) != 1 or outs[0][1][0] != "ok":
                raise Unrecognised(repr(outs[0][1] if outs else None))
            val = outs[0][1][1]
            if head == 6:
                if not (isinstance(val, Enum) and val.path == ERR) or state.next_free != 6 or holder["d"].inserted:
                    fails.append("get_edge with an exhausted store yields %r (head %r, table insertions %r), expected Err(OutOfMemory) and no change"
                                 % (val, state.next_free, holder["d"].inserted))
                continue
            node = st[4][0].node
            rc = node.fields.get("rc") if isinstance(node, StructVal) else getattr(node, "rc", None)
            ok = isinstance(val, Enum) and val.path == OK and val.args[0] == ("edge", 4) and state.next_free == 2 and holder["d"].inserted == [4] and rc == 2
            if not ok:
                fails.append("get_edge of a new value with the head at 4 (-> 2) yields %r, head %r, table insertions %r, reference count %r; expected "
                             "the edge of id 4, head 2, insertion of 4, count 2" % (val, state.next_free, holder["d"].inserted, rc))
        # a value that is already stored (in slot 3): its id, one more reference, nothing popped, nothing inserted
        n += 1
        st = store(6)
        state = Rec(next_free=4, unique_table=Rec(entries=[1, 3]))
        me = Rec(store=st, state=Rec(inner=state))
        holder = {}

        def mk2(o):
            holder["d"] = D()
            return Interp(F, holder["d"], o)
        outs = list(enumerate_runs(mk2, lambda it: it.call_fn(ge, [me, Opaque("v3")])))
        if len(outs) != 1 or outs[0][1][0] != "ok":
            raise Unrecognised(repr(outs[0][1] if outs else None))
        val = outs[0][1][1]
        ok = isinstance(val, Enum) and val.path == OK and val.args[0] == ("edge", 3) and state.next_free == 4 and not holder["d"].inserted \
            and getattr(holder["d"], "retained", []) == [3]
        if not ok:
            fails.append("get_edge of the value stored in slot 3 yields %r (head %r, insertions %r, retained %r); expected the edge of id 3 with one "
                         "more reference and no other change" % (val, state.next_free, holder["d"].inserted, getattr(holder["d"], "retained", [])))
    except Unrecognised as u:
        fails.append("get_edge not interpretable: %s" % u)
    except Panic as p:
        fails.append("get_edge panics: %s" % p.msg)
    ctx.ob(rule, rule, not fails, "free list of the dynamic terminal store (%s): %s" % (F.where(gc), " || ".join(fails[:3]) if fails else
           "sweep links dead slots in front of the head, get_edge pops the head, OutOfMemory exactly at the end of the store"))
    return n
