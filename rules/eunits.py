"""E-UNITS: variable numbers and level numbers are both `u32` (`VarNo`, `LevelNo`
are type aliases), so the compiler cannot tell them apart.  The declared
signatures (with the aliases unexpanded) of the repository itself say which
parameters and results are variable numbers and which are level numbers; this
rule propagates those units through every function body (HIR) and reports any
place where a variable number meets a level number: arithmetic or comparison of
mixed units, a level passed where the callee declares a variable (or vice
versa), a `let` whose declared alias disagrees with its initialiser.

After a reordering the var<->level permutation is not the identity, so such a
mix-up is wrong exactly for the histories the tests do not construct.
"""
import re

from lib import hirutil as H

V, L = "VarNo", "LevelNo"

KEEP = {  # std methods that keep the unit of their receiver
    "unwrap", "unwrap_or", "unwrap_or_default", "expect", "clone", "copied", "cloned", "into", "try_into",
    "checked_add", "checked_sub", "saturating_add", "saturating_sub", "wrapping_add", "wrapping_sub", "abs_diff",
    "min", "max", "rev", "iter", "into_iter", "copied", "borrow", "deref", "load", "get", "start", "end", "last",
    "first", "next", "peekable", "skip", "take", "step_by", "clamp", "pow", "rem_euclid", "to_owned", "as_ref",
    "unwrap_unchecked", "ok", "swap", "get_mut", "as_slice",
}
SAME = {"cmp", "partial_cmp", "min", "max", "eq", "ne", "lt", "le", "gt", "ge", "abs_diff", "checked_sub",
        "checked_add", "saturating_sub", "saturating_add", "wrapping_sub", "wrapping_add", "clamp", "store"}
KEYED = {"contains", "set", "insert", "put", "remove", "toggle", "contains_key"}   # key-addressed access methods
_SUMMARY = {}
_IN_PROGRESS = set()


def key_summary(F, did):
    """for a local function: parameter position -> unit of the keys it uses with that (collection) parameter"""
    if did in _SUMMARY:
        return _SUMMARY[did]
    if did in _IN_PROGRESS or did not in F.hir:
        return {}
    _IN_PROGRESS.add(did)
    try:
        u = Units(F, did, lambda *a, **k: None)
        try:
            u.run()
        except RecursionError:
            pass
        names = H.param_names(F.hir[did])
        out = {i: u.midx[n] for i, n in enumerate(names) if n and n in u.midx}
    finally:
        _IN_PROGRESS.discard(did)
    _SUMMARY[did] = out
    return out


CLOSURE_ELEM = {"map", "for_each", "filter", "all", "any", "find", "position", "filter_map", "flat_map",
                "take_while", "skip_while", "inspect", "is_sorted_by_key", "max_by_key", "min_by_key"}


def _split_top(s):
    out, depth, cur = [], 0, ""
    for ch in s:
        if ch in "(<[":
            depth += 1
        elif ch in ")>]":
            depth -= 1
        if ch == "," and depth == 0:
            out.append(cur.strip())
            cur = ""
        else:
            cur += ch
    if cur.strip():
        out.append(cur.strip())
    return out


def unit_of_hty(s):
    """unit of a declared type: 'VarNo' / 'LevelNo' for scalars and collections of them, ('tup', [...]) for
    tuples and for iterables of tuples (`impl Iterator<Item = (VarNo, T)>`)"""
    if not s:
        return None
    s = s.strip()
    while s.startswith("&"):
        s = s[1:].strip()
    if s.startswith("mut "):
        s = s[4:]
    i = s.find("Item = ")
    if i >= 0:
        rest = s[i + 7:]
        depth, j = 0, 0
        while j < len(rest):
            ch = rest[j]
            if ch in "(<[":
                depth += 1
            elif ch in ")>]":
                if depth == 0:
                    break
                depth -= 1
            elif ch == "," and depth == 0:
                break
            j += 1
        return unit_of_hty(rest[:j])
    if s.startswith("(") and s.endswith(")"):
        parts = _split_top(s[1:-1])
        us = [unit_of_hty(x) for x in parts]
        return ("tup", us) if any(us) else None
    v = "VarNo" in s
    l = "LevelNo" in s
    if v and not l:
        return V
    if l and not v:
        return L
    return None


class Units:
    def __init__(self, F, fid, report):
        self.F = F
        self.fid = fid
        self.report = report   # callback(kind, line, detail)
        self.nchecked = 0
        self.idx = {}     # collection local -> unit of its index domain
        self.clos = {}    # let-bound closure -> units of its parameters
        self.midx = {}    # keyed collection (bit set, map) local -> unit of the keys used with contains/set/insert/...
        self.fmt_events = []   # ("lit", line, text) / ("fmt", line, [(local, unit)]) of write!() calls, in visiting order
        self.sized = {}   # fixed-size collection local (vec![x; n], FixedBitSet::with_capacity(n)) -> (unit of n, node)
        self.sized_seen = set()

    # ---- backward inference for closure parameters ------------------------------
    def infer_closure_params(self, cl, env):
        """a closure parameter that is passed where the callee declares a unit, or that indexes a collection
        with a known index domain, has that unit"""
        names = [p.get("n") if p.get("k") == "bind" else None for p in cl["params"]]
        units = {n: None for n in names if n}

        def is_param(e):
            while isinstance(e, dict) and e.get("k") in ("ref", "use", "cast"):
                e = e["e"]
            if isinstance(e, dict) and e.get("k") == "path" and e.get("res") == "local" and e["n"] in units:
                return e["n"]
            return None
        for n in H.walk(cl["body"]):
            k = n.get("k")
            if k in ("call", "mcall"):
                sig = self.sig_of(n)
                if sig:
                    ptys = sig["ptys"][1:] if k == "mcall" else sig["ptys"]
                    for a, pt in zip(n["a"], ptys):
                        pn = is_param(a)
                        u = unit_of_hty(pt)
                        if pn and isinstance(u, str) and units[pn] is None:
                            units[pn] = u
            elif k == "index":
                pn = is_param(n["i"])
                c = H.root_local(n["e"])
                if pn and c in self.idx and units[pn] is None:
                    units[pn] = self.idx[c]
        return [units.get(n) if n else None for n in names]

    def index_domain(self, e, env):
        """`Vec::from_iter((0..count).map(|i| ...))` / `(0..count).map(|i| ...).collect()`: the index domain of
        the collection is the unit inferred for `i`"""
        while isinstance(e, dict) and e.get("k") in ("ref", "use"):
            e = e["e"]
        if not isinstance(e, dict):
            return None
        it = None
        if e.get("k") == "call" and e["f"].get("k") == "path" and e["f"].get("n", "").endswith("from_iter") and e["a"]:
            it = e["a"][0]
        elif e.get("k") == "mcall" and e["name"] == "collect":
            it = e["r"]
        if not (isinstance(it, dict) and it.get("k") == "mcall" and it["name"] == "map" and it["a"]
                and it["a"][0].get("k") == "closure"):
            return None
        r = it["r"]
        while isinstance(r, dict) and r.get("k") in ("ref", "use"):
            r = r["e"]
        if not (isinstance(r, dict) and r.get("k") == "struct" and "Range" in r["p"].get("n", "")):
            return None
        us = self.infer_closure_params(it["a"][0], env)
        return us[0] if us else None

    def size_expr(self, e):
        """the size argument of `vec![x; n]` / `FixedBitSet::with_capacity(n)` (collections whose valid indices are
        exactly 0..n), else None"""
        while isinstance(e, dict) and e.get("k") in ("use",):
            e = e["e"]
        if isinstance(e, dict) and e.get("k") == "call" and e["f"].get("k") == "path":
            n = e["f"].get("n", "")
            if n.endswith("vec::from_elem") and len(e["a"]) == 2:
                return e["a"][1]
            if n.endswith("FixedBitSet::with_capacity") and len(e["a"]) == 1:
                return e["a"][0]
        return None

    def check_sized(self, c, iu, node):
        """collection `c` (fixed size n) is addressed by a variable / level number: n must be the number of
        variables / levels"""
        if c not in self.sized or not isinstance(iu, str) or iu not in (V, L):
            return
        su, sz = self.sized[c]
        key = (c, iu)
        if key in self.sized_seen:
            return
        self.sized_seen.add(key)
        szr = sz
        while isinstance(szr, dict) and szr.get("k") in ("cast", "use"):
            szr = szr["e"]
        if not isinstance(su, str) and isinstance(szr, dict) and szr.get("k") == "path" and szr.get("res") == "local" \
                and szr["n"] in self.params:
            return      # the size is a parameter of this function: decided at the callers' level, not here
        self.report("sized", node.get("ln"), (c, iu, su if isinstance(su, str) else None))

    def sig_of(self, node):
        did = H.callee_did(node)
        if did and did in self.F.sigs:
            return self.F.sigs[did]
        return None

    def run(self):
        h = self.F.hir.get(self.fid)
        sig = self.F.sigs.get(self.fid)
        if not h:
            return
        env = {}
        self.params = {p["n"] for p in h["params"] if p.get("k") == "bind"}
        if sig:
            for p, t in zip(h["params"], sig["ptys"]):
                if p.get("k") == "bind":
                    u = unit_of_hty(t)
                    if u:
                        env[p["n"]] = u
        self.ret_unit = unit_of_hty(sig["rty"]) if sig and re.fullmatch(r"(oxidd_core::)?(VarNo|LevelNo)", sig["rty"] or "") else None
        self.ex(h["body"], env)

    # ---- patterns -------------------------------------------------------------
    def bind(self, p, u, env):
        if u is None or p is None:
            # clear shadowed names
            for n in H.walk(p or {}):
                if n.get("k") == "bind" and n["n"] in env:
                    del env[n["n"]]
            return
        k = p.get("k")
        if isinstance(u, tuple):
            if k == "tup" and p.get("dd") is None and len(p["a"]) == len(u[1]):
                for q, uu in zip(p["a"], u[1]):
                    self.bind(q, uu, env)
                return
            if k in ("ref",):
                self.bind(p["p"], u, env)
                return
            if k == "ts" and len(p.get("a", [])) == 1:
                self.bind(p["a"][0], u, env)
                return
            self.bind(p, None, env)
            return
        if k == "bind":
            env[p["n"]] = u
        elif k in ("ref",):
            self.bind(p["p"], u, env)
        elif k == "ts" and len(p.get("a", [])) == 1:
            self.bind(p["a"][0], u, env)   # Some(x) / Ok(x)
        else:
            self.bind(p, None, env)

    def mix(self, what, a, b, node, arith=False):
        """counts (`num_levels()`, `num_vars()`; unit suffix '#') are equal for variables and levels, so
        they may be compared with and passed as either; only arithmetic between a count of one kind and a
        plain number of the other kind is a mix-up"""
        self.nchecked += 1
        if not a or not b or isinstance(a, tuple) or isinstance(b, tuple):
            return False
        # derived units ("level~": computed from a level number by scaling; "@level": a packed word positioned by a
        # level-derived shift / index) are only comparable with units of their own class
        if (a.endswith("~") != b.endswith("~")) or (a.startswith("@") != b.startswith("@")):
            return False
        ca, cb = a.endswith("#"), b.endswith("#")
        if ca or cb:
            if arith and (ca != cb) and a.rstrip("#") != b.rstrip("#"):
                self.report(what, node.get("ln"), (a, b))
                return True
            return False
        if a != b:
            self.report(what, node.get("ln"), (a, b))
            return True
        return False

    def derived(self, o, a, b, node):
        """units of scaled / packed quantities: `level / K`, `level % K`, `2 * (level % K)` stay level-derived
        ("level~"); a value shifted by a derived amount, or an element selected by a derived index, is a packed word
        positioned by that unit ("@level").  Index and shift of one packed word must derive from the same kind of
        number: `choices[level / K] >> 2 * (var % K)` reads another variable's slot under a non-identity order."""
        def plain(u):
            return isinstance(u, str) and not u.endswith("#") and not u.startswith("@")
        sa, sb = isinstance(a, str), isinstance(b, str)
        if o in ("/", "%", "*"):
            if sa and sb and a.endswith("~") and b.endswith("~"):
                self.mix("operator `%s`" % o, a, b, node)
                return a
            for x, y in ((a, b), (b, a)):
                if plain(x) and y is None:
                    return x if x.endswith("~") else x + "~"
            return None
        if o == "<<":
            if sb and b.endswith("~"):
                if sa and a.startswith("@"):
                    self.mix("shift of a packed word", a, "@" + b[:-1], node)
                return "@" + b[:-1]
            return a if sa and a.startswith("@") else None
        if o == ">>":
            if sa and a.startswith("@") and sb and b.endswith("~"):
                self.mix("shift of a packed word (selected by index vs shifted by amount)", a, "@" + b[:-1], node)
                return None
            return None
        if o in ("&", "|", "^"):
            pa, pb = sa and a.startswith("@"), sb and b.startswith("@")
            if pa and pb:
                self.mix("combination of packed words", a, b, node)
            return a if pa else b if pb else None
        return None

    # ---- expressions ----------------------------------------------------------
    def ex(self, e, env):
        """returns the unit of expression e (and checks inside)"""
        if not isinstance(e, dict):
            return None
        k = e.get("k")
        if k == "path":
            if e.get("res") == "local":
                return env.get(e["n"])
            return None
        if k == "lit":
            return None
        if k in ("cast", "ref", "use", "un"):
            return self.ex(e["e"], env)
        if k == "bin":
            a = self.ex(e["l"], env)
            b = self.ex(e["r"], env)
            o = e["o"]
            if o in ("+", "-", "==", "!=", "<", "<=", ">", ">="):
                self.mix("operator `%s`" % o, a, b, e, arith=o in ("+", "-"))
                if o in ("+", "-"):
                    r = a or b
                    if isinstance(a, tuple) or isinstance(b, tuple):
                        return None
                    if a and b and a.endswith("#") != b.endswith("#"):
                        r = (a if not a.endswith("#") else b)
                    return r
                return None
            if o in ("/", "%", "*", "<<", ">>", "&", "|", "^"):
                return self.derived(o, a, b, e)
            return None
        if k == "assignop":
            a = self.ex(e["l"], env)
            b = self.ex(e["r"], env)
            if e["o"] in ("+", "-"):
                self.mix("operator `%s=`" % e["o"], a, b, e, arith=True)
            elif e["o"] in ("|", "&", "^") and isinstance(a, str) and isinstance(b, str):
                self.mix("operator `%s=` on a packed word" % e["o"], a, b, e)
            return None
        if k == "assign":
            a = self.ex(e["l"], env)
            b = self.ex(e["r"], env)
            self.mix("assignment", a, b, e)
            return None
        if k == "block":
            env2 = dict(env)
            for s in e["s"]:
                if s["k"] == "slet":
                    if "e" in s and s["p"].get("k") == "bind":
                        init = s["e"]
                        if init.get("k") == "closure":
                            self.clos[s["p"]["n"]] = self.infer_closure_params(init, env2)
                        else:
                            d = self.index_domain(init, env2)
                            if d:
                                self.idx[s["p"]["n"]] = d
                            sz = self.size_expr(init)
                            if sz is not None:
                                self.sized[s["p"]["n"]] = (self.ex(sz, env2), sz)
                    u = self.ex(s["e"], env2) if "e" in s else None
                    du = unit_of_hty(s.get("hty"))
                    if du and u:
                        self.mix("`let` with declared type", du, u, s.get("e", e))
                    if "else" in s:
                        self.ex(s["else"], env2)
                    self.bind(s["p"], du or u, env2)
                else:
                    self.ex(s["e"], env2)
            return self.ex(e["e"], env2) if "e" in e else None
        if k == "if":
            env2 = dict(env)
            self.cond(e["c"], env2)
            a = self.ex(e["t"], env2)
            b = self.ex(e["e"], env) if "e" in e else None
            return a if a == b else (a or b)
        if k == "let":
            self.cond(e, env)
            return None
        if k == "match":
            src = e.get("src", "")
            if src.startswith("ForLoopDesugar"):
                return self.forloop(e, env)
            u = self.ex(e["e"], env)
            if src.startswith("TryDesugar"):
                inner = e["e"]
                if inner.get("k") == "call" and inner.get("a"):
                    return self.ex(inner["a"][0], env)
                return None
            out = []
            for arm in e["arms"]:
                env2 = dict(env)
                self.bind(arm["p"], u, env2)
                if "g" in arm:
                    self.cond(arm["g"], env2)
                out.append(self.ex(arm["b"], env2))
            out = [x for x in out if x]
            return out[0] if out and all(x == out[0] for x in out) else None
        if k == "ret":
            u = self.ex(e["e"], env) if "e" in e else None
            if self.ret_unit and u:
                self.mix("returned value vs declared result", self.ret_unit, u, e)
            return None
        if k in ("tup", "array"):
            for x in e["a"]:
                self.ex(x, env)
            return None
        if k == "struct":
            us = [self.ex(x, env) for _, x in e["f"]]
            if "base" in e:
                self.ex(e["base"], env)
            pth = e["p"].get("n", "")
            if "Range" in pth and len(us) == 2:
                self.mix("range bounds", us[0], us[1], e)
                if any(isinstance(u, str) and u.endswith("#") for u in us):
                    return None   # 0..count enumerates all variables / all levels
                return us[0] or us[1]
            return None
        if k == "field":
            self.ex(e["e"], env)
            return None
        if k == "index":
            self.ex(e["e"], env)
            iu = self.ex(e["i"], env)
            c = H.root_local(e["e"])
            if c in self.idx and iu:
                self.mix("index into `%s` (filled per %s)" % (c, self.idx[c]), self.idx[c], iu, e)
            if c:
                self.check_sized(c, iu, e)
            if isinstance(iu, str) and iu.endswith("~"):
                return "@" + iu[:-1]
            return None
        if k == "closure":
            env2 = dict(env)
            us = self.infer_closure_params(e, env)
            for p, u in zip(e["params"], us):
                self.bind(p, u, env2)
            self.ex(e["body"], env2)
            return None
        if k == "loop":
            self.ex(e["b"], env)
            return None
        if k == "break":
            if "e" in e:
                self.ex(e["e"], env)
            return None
        if k == "repeat":
            return self.ex(e["e"], env)
        if k == "call":
            return self.call(e, env)
        if k == "mcall":
            return self.mcall(e, env)
        return None

    def cond(self, c, env):
        if c.get("k") == "let":
            u = self.ex(c["e"], env)
            self.bind(c["p"], u, env)
            return
        if c.get("k") == "bin" and c["o"] == "&&":
            self.cond(c["l"], env)
            self.cond(c["r"], env)
            return
        self.ex(c, env)

    def forloop(self, e, env):
        it = e["e"]
        u = None
        if it.get("k") == "call" and it.get("a"):
            u = self.ex(it["a"][0], env)
        for arm in e["arms"]:
            # mut iter => loop { match next(&mut iter) { None => break, Some(pat) => body } }
            for n in H.walk(arm["b"]):
                if n.get("k") == "match" and n.get("src", "").startswith("ForLoopDesugar"):
                    for a2 in n["arms"]:
                        env2 = dict(env)
                        pat = None
                        if a2["p"].get("k") == "ts" and a2["p"].get("a"):
                            pat = a2["p"]["a"][0]
                        elif a2["p"].get("k") == "struct" and a2["p"].get("f"):
                            pat = a2["p"]["f"][0][1]
                        uu = u
                        if uu is None and pat is not None and pat.get("k") == "bind":
                            # a plain counter (`for v in 0..count`): it is whatever the body uses it as
                            uu = self.infer_from_uses(pat["n"], a2["b"])
                        if pat is not None:
                            self.bind(pat, uu, env2)
                        self.ex(a2["b"], env2)
                    break
        return None

    def record_fmt(self, e, env):
        """`write!(w, "..{x}..")`: remember string pieces and the units of the interpolated locals (in source order)"""
        a = e["a"][0]
        if a.get("k") == "call" and (a["f"].get("n") or "").endswith("from_str") and a.get("a") and a["a"][0].get("k") == "lit":
            self.fmt_events.append(("lit", e.get("ln"), a["a"][0].get("v")))
            return
        if a.get("k") == "block":
            tmpl = "".join(str(x.get("v") or "") for x in H.walk(a) if x.get("k") == "lit" and x.get("t") in ("str", "bstr"))
            mk = re.search(r"(\.[a-z]+)", tmpl)
            if mk:
                self.fmt_events.append(("lit", e.get("ln"), mk.group(1)))
            for st in a.get("s", []):
                if st.get("k") == "slet" and (st.get("e") or {}).get("k") == "tup":
                    items = []
                    for x in st["e"]["a"]:
                        y = x
                        while isinstance(y, dict) and y.get("k") in ("ref", "use", "cast"):
                            y = y["e"]
                        nm = y.get("n") if isinstance(y, dict) and y.get("k") == "path" and y.get("res") == "local" else None
                        items.append((nm, self.ex(x, env)))
                    self.fmt_events.append(("fmt", e.get("ln"), items))
                    return

    def infer_from_uses(self, name, body):
        """unit of an otherwise unit-less local: the declared unit of the parameters it is passed for (directly or
        through a cast), if all such uses agree"""
        found = set()
        for n in H.walk(body):
            k = n.get("k")
            if k not in ("call", "mcall"):
                continue
            if any(x.get("k") == "bind" and x.get("n") == name for x in H.walk(n)):
                continue
            if k == "mcall" and n.get("name") in KEYED and n.get("a"):
                # key of a collection whose key unit is already established
                c = H.root_local(n["r"])
                ku = self.midx.get(c) or self.idx.get(c)
                x = n["a"][0]
                while isinstance(x, dict) and x.get("k") in ("cast", "ref", "use"):
                    x = x["e"]
                if isinstance(ku, str) and ku in (V, L) and isinstance(x, dict) and x.get("k") == "path" \
                        and x.get("res") == "local" and x.get("n") == name:
                    found.add(ku)
            sig = self.sig_of(n)
            if not sig:
                continue
            off = 1 if k == "mcall" else 0
            for i, a in enumerate(n.get("a", [])):
                x = a
                while isinstance(x, dict) and x.get("k") in ("cast", "ref", "use"):
                    x = x["e"]
                if isinstance(x, dict) and x.get("k") == "path" and x.get("res") == "local" and x.get("n") == name \
                        and i + off < len(sig["ptys"]):
                    pu = unit_of_hty(sig["ptys"][i + off])
                    if isinstance(pu, str) and pu in (V, L):
                        found.add(pu)
        return found.pop() if len(found) == 1 else None

    def args_vs_sig(self, node, sig, arg_units, offset):
        if not sig:
            return
        ptys = sig["ptys"][offset:]
        for i, (au, pt) in enumerate(zip(arg_units, ptys)):
            pu = unit_of_hty(pt)
            if pu and au:
                self.mix("argument %d of %s (declared %s)" % (i + 1, sig["name"], pt), pu, au, node)

    def call(self, e, env):
        f = e["f"]
        units = [self.ex(a, env) for a in e["a"]]
        if f.get("k") != "path":
            self.ex(f, env)
            return None
        if f.get("res") == "local" and f["n"] in self.clos:
            for i, (au, pu) in enumerate(zip(units, self.clos[f["n"]])):
                if au and pu:
                    self.mix("argument %d of closure `%s`" % (i + 1, f["n"]), pu, au, e)
            return None
        sig = self.sig_of(e)
        self.args_vs_sig(e, sig, units, 0)
        did = f.get("did")
        if did and did != self.fid and did in self.F.hir and did.split("::")[0] == self.fid.split("::")[0]:
            summ = key_summary(self.F, did)
            for i, a in enumerate(e["a"]):
                c = H.root_local(a)
                if c and i in summ:
                    mine = self.midx.get(c) or self.idx.get(c)
                    if mine and isinstance(mine, str):
                        self.mix("keys of `%s` (filled per %s here, read per %s in %s)" % (c, mine, summ[i], did.rsplit("::", 2)[-1]),
                                 mine, summ[i], e)
        if sig:
            return unit_of_hty(sig["rty"])
        n = f.get("n", "")
        if f.get("res") == "ctor" and len(units) == 1:
            return units[0]   # Some(x), Ok(x)
        if n.endswith("::from") or n.endswith("::new") or n.endswith("::try_from") or n.endswith("::from_iter"):
            return units[0] if units else None
        if n.endswith("into_iter") and units:
            return units[0]
        return None

    def mcall(self, e, env):
        if e.get("name") == "write_fmt" and e.get("a"):
            self.record_fmt(e, env)
        ru = self.ex(e["r"], env)
        units = []
        name = e["name"]
        for a in e["a"]:
            if a.get("k") == "closure" and name in CLOSURE_ELEM and ru:
                env2 = dict(env)
                ps = a["params"]
                if ps:
                    self.bind(ps[0], ru, env2)
                    for p in ps[1:]:
                        self.bind(p, None, env2)
                cu = self.ex(a["body"], env2)
                units.append(("closure", cu))
            else:
                units.append(self.ex(a, env))
        sig = self.sig_of(e)
        plain = [u if not isinstance(u, tuple) else None for u in units]
        if name in KEYED and plain and isinstance(plain[0], str) and plain[0][-1] not in "#~" and plain[0][0] != "@":
            c = H.root_local(e["r"])
            if c:
                prev = self.midx.get(c) or self.idx.get(c)
                if prev and isinstance(prev, str):
                    self.mix("key of `%s` (elsewhere addressed by %s)" % (c, prev), prev, plain[0], e)
                self.midx.setdefault(c, plain[0])
                self.check_sized(c, plain[0], e)
        if sig:
            self.args_vs_sig(e, sig, plain, 1)
            u = unit_of_hty(sig["rty"])
            if isinstance(u, str) and name in ("num_levels", "num_vars", "num_named_vars"):
                u += "#"
            return u
        if name in SAME:
            for u in plain:
                self.mix("method `%s`" % name, ru, u, e)
        if name in KEEP:
            return ru
        if name == "map" and units and isinstance(units[0], tuple):
            return units[0][1]
        if name in ("filter", "take_while", "skip_while", "inspect", "rev"):
            return ru
        if name == "enumerate":
            return ("tup", [None, ru]) if isinstance(ru, str) else None
        if name == "len" or name == "count":
            return None
        return None


def run(ctx, F, rule="E-UNITS", crates=("oxidd_core", "oxidd_rules_bdd", "oxidd_rules_zbdd", "oxidd_rules_mtbdd",
                                          "oxidd_rules_tdd", "oxidd_manager_index", "oxidd_manager_pointer",
                                          "oxidd_reorder", "oxidd_dump", "oxidd", "oxidd_ffi_c", "oxidd_cache"),
        allow=None):
    allow = allow or {}
    nfn = 0
    nsites = 0
    for fid in sorted(F.hir):
        if not any(fid.startswith(c + "::") for c in crates):
            continue
        r = F.fns.get(fid)
        if r and r.get("exp"):
            continue
        hits = []

        def report(what, ln, units, hits=hits):
            if (what, ln, units) not in hits:
                hits.append((what, ln, units))
        u = Units(F, fid, report)
        try:
            u.run()
        except RecursionError:
            continue
        nfn += 1
        nsites += u.nchecked
        nice = F.nice(fid)
        seen = {}
        for what, ln, us in hits:
            if what == "sized":
                c, iu, su = us
                ok = isinstance(su, str) and su.endswith("#")     # num_vars() == num_levels() at all times
                ctx.ob(rule + ".sized", "%s.sized:%s:%s" % (rule, nice, c), ok,
                       "%s (%s, line %s): `%s` is addressed by a %s and %s" %
                       (nice, F.where(fid), ln, c, iu,
                        "sized by the manager's number of variables / levels" if ok else
                        "its size is %s: a valid %s of the manager can lie outside it" %
                        ("a %s count" % su.rstrip("#") if su else "not the manager's number of %s" %
                         ("levels" if iu == L else "variables"), iu)))
                continue
            a, b = us
            base = "%s:%s:%s" % (rule, nice, re.sub(r" \(declared.*\)", "", what))
            seen[base] = seen.get(base, 0) + 1
            key = base if seen[base] == 1 else "%s#%d" % (base, seen[base])
            if key in allow:
                ctx.ob(rule, key, True, "allow-listed: %s (line %s)" % (allow[key], ln))
                continue
            ctx.ob(rule, key, False,
                   "%s (%s, line %s): %s mixes a %s with a %s; variable numbers and level numbers only coincide "
                   "under the identity order" % (nice, F.where(fid), ln, what, a, b))
        ctx.ob(rule + ".fn", nice, True, nontrivial=u.nchecked > 0,
               sample="%d unit-carrying sites checked" % u.nchecked)
    return nfn, nsites


# ---- level_swap: positions vs. stale ("_pre") level numbers ---------------------------------------
def check_level_swap(ctx, F, rule="E-UNITS.pre"):
    """`oxidd_reorder::level_swap(manager, pos_u, pos_l, pre_u, pre_l)`: during a lazy reordering the level
    number stored in a node (`_pre`) differs from the position of its level.  Stored numbers may only be
    compared with / written from the `_pre` parameters, positions only be used to address level views."""
    fid = "oxidd_reorder::level_swap"
    h = F.hir.get(fid)
    if not ctx.anchor(rule, fid, h is not None):
        return 0
    pn = H.param_names(h)
    if not ctx.anchor(rule, "level_swap has 5 parameters", len(pn) == 5 and all(pn)):
        return 0
    pos, pre = set(pn[1:3]), set(pn[3:5])
    pre_u, pre_l = pn[3], pn[4]
    n = 0
    where = F.where(fid)

    def is_level_call(e):
        return isinstance(e, dict) and e.get("k") == "mcall" and e.get("m") in (
            "oxidd_core::HasLevel::level", "oxidd_core::Node::<'a, M>::level")
    cmp_i = 0
    for node in H.walk(h["body"]):
        if node.get("exp"):
            continue
        k = node.get("k")
        if k == "mcall" and node.get("m") in ("oxidd_core::Manager::level_unchecked", "oxidd_core::Manager::level"):
            n += 1
            r = H.root_local(node["a"][0]) if node["a"] else None
            ctx.ob(rule, "%s:level_view(%s)" % (rule, r), r in pos,
                   "level_swap (%s, line %s) addresses a level view with `%s`; only the position parameters %s may "
                   "be used for that" % (where, node.get("ln"), r, sorted(pos)))
        if k == "bin" and node["o"] in ("==", "!=", "<", ">", "<=", ">="):
            l, r = node["l"], node["r"]
            other = None
            if is_level_call(l):
                other = r
            elif is_level_call(r):
                other = l
            if other is not None:
                n += 1
                cmp_i += 1
                root = H.root_local(other)
                ok = root in pre or is_level_call(other)
                ctx.ob(rule, "%s:stored-level-compare#%d" % (rule, cmp_i), ok,
                       "level_swap (%s, line %s) compares a level number stored in a node with `%s`; stored numbers "
                       "are stale during a reordering and must be compared with the `_pre` parameters %s"
                       % (where, node.get("ln"), root, sorted(pre)))
        if k == "call" and node["f"].get("k") == "path" and node["f"].get("item") == "reduce" \
                and node["f"].get("trait") == "oxidd_core::DiagramRules":
            n += 1
            r = H.root_local(node["a"][1]) if len(node["a"]) > 1 else None
            ctx.ob(rule, "%s:reduce-level" % rule, r == pre_u,
                   "level_swap (%s, line %s) creates the nodes of the new lower level with level `%s`; all nodes of "
                   "that level carry `%s` until the caller renumbers them" % (where, node.get("ln"), r, pre_u))
        if k == "mcall" and node.get("m") == "oxidd_core::HasLevel::set_level":
            n += 1
            r = H.root_local(node["a"][0]) if node["a"] else None
            ctx.ob(rule, "%s:set_level" % rule, r == pre_l,
                   "level_swap (%s, line %s) labels a node kept at the new upper level with `%s`; the nodes of that "
                   "level carry `%s`" % (where, node.get("ln"), r, pre_l))
    ctx.floor(rule, "stored-level comparisons / level-view uses / reduce / set_level in level_swap", n, 7)
    # callers: the swap closure in set_var_order_common updates to_pre crosswise
    return n
