"""E-TABLE.pick: one step of the cube-picking recursions, interpreted from HIR over structured abstract nodes.

For pick_cube_dd_edge::inner and pick_cube_dd_set_edge::inner (BDD) the function is interpreted on a node
N(level 3; then, else) with children in {false, other} and, for the `_set` variant, for literal sets with a
positive / negative / no literal at N's level and with positive / negative literals on levels above (which the
function skips).  The recursive call is a builtin returning a symbolic edge.  Checked per situation:
  forced     if a child is the false terminal the other branch is taken and the caller's choice is not consulted;
  choice     otherwise the choice function is consulted exactly once (dd) / the literal's polarity decides (set);
  cursor     the literal set handed to the recursion is the remainder of the set (the non-false child of the
             literal node), never the false child, and literals below skipped negative literals are not lost;
  shape      the result is the node (level; sub, false) or (level; false, sub) for the branch taken.
"""
import itertools

import ereduce
import tables
from lib.interp import Edge, Enum, Interp, Opaque, Panic, Return, Unrecognised, enumerate_runs
from tables import OK, SOME, NONE, NODE_INNER, NODE_TERMINAL

T = "oxidd_rules_bdd::simple::BDDTerminal::"


class SNode:
    def __init__(self, name, level, children):
        self.name = name
        self.level = level
        self.children = tuple(children)

    def __repr__(self):
        return "%s@%d" % (self.name, self.level)


def term(v):
    return Edge(("T", Enum(T + v)))


def inner(name, level, children):
    return Edge(("S", SNode(name, level, children)))


class PickDomain(ereduce.ReduceDomain):
    def __init__(self, F, fid):
        super().__init__(F, tables.BDD)
        self.fid = fid
        self.choice_calls = 0
        self.rec = []
        self.writes = []

    def node_of(self, edge):
        if isinstance(edge, Edge) and edge.node[0] == "S":
            return Enum(NODE_INNER, [edge.node[1]])
        if isinstance(edge, Edge) and edge.node[0] == "REC":
            return Enum(NODE_INNER, [Opaque("result of the recursion")])
        return super().node_of(edge)

    def call(self, it, name, f, args_e, env, e):
        did = f.get("did", "")
        if did == "oxidd_rules_bdd::complement_edge::collect_cofactors":
            # specified builtin: the cofactors of a node reached through an edge with tag `tag` are its
            # children with the tag applied
            tag, node = [it.ev(a, env) for a in args_e]
            flip = isinstance(tag, Enum) and tag.short == "Complemented"
            return tuple(ctag(c, flip) for c in node.children)
        if did == "oxidd_rules_bdd::complement_edge::add_literal_to_cube":
            args = [it.ev(a, env) for a in args_e]
            _, sub, level, positive = args
            return Enum(OK, [Edge(("CUBE", level, positive, sub.node[0] if isinstance(sub, Edge) else "?"))])
        if did.endswith("From::from") or did == "core::convert::From::from":
            (a,) = [it.ev(x, env) for x in args_e]
            if isinstance(a, bool):
                return ("optbool", a)
        if did == self.fid and it.depth >= 1 and env.get("$fn") == self.fid:
            args = [it.ev(a, env) for a in args_e]
            edges = [a for a in args if isinstance(a, Edge)]
            self.rec.append(edges)
            return Enum(OK, [Edge(("REC",) + tuple(repr(x) for x in edges))])
        if did in self.F.hir and (did.startswith("oxidd_rules_bdd::") or did.startswith("oxidd_rules_zbdd::")) and did != self.fid:
            args = [it.ev(a, env) for a in args_e]
            return it.call_fn(did, args)
        return super().call(it, name, f, args_e, env, e)

    def index_assign(self, it, c, i, v):
        if isinstance(c, Opaque) and c.what == "cube":
            self.writes.append((i, v))
            return True
        return None

    def call_value(self, it, fv, args):
        # the caller-supplied choice function
        self.choice_calls += 1
        return it.fork(("choice", self.choice_calls), 2, "choice") == 1

    def method(self, it, m, e, env):
        name = m.rsplit("::", 1)[-1]
        recv = it.recv(e, env)
        if isinstance(recv, SNode):
            if name == "level":
                return recv.level
            if name == "children":
                return ereduce.IterObj(recv.children)
            if name == "child":
                (i,) = it.args(e, env)
                if not isinstance(i, int) or not 0 <= i < len(recv.children):
                    raise Panic("child index %r out of range" % (i,))
                return recv.children[i]
        if name == "level" and isinstance(recv, Enum) and recv.path in (NODE_INNER, NODE_TERMINAL):
            return recv.args[0].level if recv.path == NODE_INNER and isinstance(recv.args[0], SNode) else (2 ** 32 - 1)
        if name == "level_to_var" and isinstance(recv, Opaque):
            (lvl,) = it.args(e, env)
            return ("varof", lvl)
        if name == "var_to_level" and isinstance(recv, Opaque):
            (v,) = it.args(e, env)
            return ("levelof", v)
        if name == "is_terminal" and isinstance(recv, Enum):
            (tv,) = it.args(e, env)
            return recv.path == NODE_TERMINAL and recv.args[0] == tv
        if name == "is_any_terminal" and isinstance(recv, Enum):
            return recv.path == NODE_TERMINAL
        # method() of the base class evaluates the receiver again: re-dispatch with the value at hand
        return self._method_with_recv(it, m, e, env, recv)

    def _method_with_recv(self, it, m, e, env, recv):
        class Once:
            pass
        orig = it.recv
        it.recv = lambda e_, env_: recv if e_ is e else orig(e_, env_)
        try:
            return super().method(it, m, e, env)
        finally:
            it.recv = orig


def is_false(e):
    if e.node[0] == "T" and e.node[1].short == "BCDDTerminal":
        return isinstance(e.tag, Enum) and e.tag.short == "Complemented"
    return e.node[0] == "T" and e.node[1].short == "False"


ETAG = "oxidd_rules_bdd::complement_edge::EdgeTag::"


def ctag(e, flip):
    """edge `e` seen through a (non-)complemented parent edge"""
    t = e.tag if isinstance(e.tag, Enum) else Enum(ETAG + "None")
    if flip:
        t = Enum(ETAG + ("None" if t.short == "Complemented" else "Complemented"))
    return Edge(e.node, t)


def run(ctx, F, rule="E-TABLE.pick"):
    n = run_kind(ctx, F, rule, "bdd", "oxidd_rules_bdd::simple::apply_rec::", term("False"), term("True"), None)
    bt = Enum("oxidd_rules_bdd::complement_edge::BCDDTerminal")
    n += run_kind(ctx, F, rule, "bcdd", "oxidd_rules_bdd::complement_edge::apply_rec::",
                  Edge(("T", bt), Enum(ETAG + "Complemented")), Edge(("T", bt), Enum(ETAG + "None")), Enum(ETAG + "None"))
    return n


def run_kind(ctx, F, rule, kind, base, FALSE, TRUE, tag0):
    fids = {}
    for fid in F.hir:
        if fid.startswith(base) and fid.endswith("::pick_cube_dd_edge::inner"):
            fids["dd"] = fid
        if fid.startswith(base) and fid.endswith("::pick_cube_dd_set_edge::inner"):
            fids["set"] = fid
    n = 0

    def inner(name, level, children):
        return Edge(("S", SNode(name, level, children)), tag0)
    A = inner("a", 6, (TRUE, FALSE))
    Bn = inner("b", 7, (FALSE, TRUE))
    # ---- pick_cube_dd_edge ------------------------------------------------------------------------------------
    if ctx.anchor(rule, kind + " pick_cube_dd_edge::inner", "dd" in fids):
        fid = fids["dd"]
        fails = []
        for t, e in ((FALSE, A), (A, FALSE), (A, Bn), (TRUE, Bn)):
            N = inner("n", 3, (t, e))
            holder = {}

            def mk(oracle):
                d = PickDomain(F, fid)
                holder["d"] = d
                return Interp(F, d, oracle)
            for trace, (status, val) in enumerate_runs(mk, lambda it: it.call_fn(fid, [Opaque("manager"), N, ("closure-param",)])):
                n += 1
                d = holder["d"]
                sit = "node(then=%r, else=%r)%s" % (t, e, " " + str(trace) if trace else "")
                if status != "ok":
                    fails.append("%s: %s %s" % (sit, status, val))
                    continue
                forced = is_false(t) or is_false(e)
                if forced and d.choice_calls:
                    fails.append("%s: the choice function is consulted although the branch is forced" % sit)
                if not forced and d.choice_calls != 1:
                    fails.append("%s: the choice function is consulted %d times (expected once)" % (sit, d.choice_calls))
                took = d.rec[0][0] if d.rec and d.rec[0] else None
                c = dict(trace).get("choice")
                want = e if is_false(t) else t if is_false(e) else (t if c == 1 else e)
                if took != want:
                    fails.append("%s: descends into %r, expected %r" % (sit, took, want))
                fails += shape_errors(val, sit, want is t)
        ctx.ob(rule, rule + ":" + kind + ":pick_cube_dd_edge", not fails,
               "pick_cube_dd_edge::inner (%s): %s" % (F.where(fid), " || ".join(fails[:3])) if fails else "ok")
    # ---- pick_cube_edge ------------------------------------------------------------------------------------------
    pc = [fid for fid in F.hir if fid.startswith(base) and fid.endswith("::pick_cube_edge::inner")]
    if ctx.anchor(rule, kind + " pick_cube_edge::inner", len(pc) == 1):
        fid = pc[0]
        fails = []
        for t, e in ((FALSE, A), (A, FALSE), (A, Bn), (TRUE, Bn)):
            N = inner("n", 3, (t, e))
            holder = {}

            def mk(oracle):
                d = PickDomain(F, fid)
                holder["d"] = d
                return Interp(F, d, oracle)
            for trace, (status, val) in enumerate_runs(
                    mk, lambda it: it.call_fn(fid, [Opaque("manager"), N, Opaque("cube"), ("closure-param",)])):
                n += 1
                d = holder["d"]
                sit = "pick_cube node(then=%r, else=%r)%s" % (t, e, " " + str(trace) if trace else "")
                if status != "ok":
                    fails.append("%s: %s %s" % (sit, status, val))
                    continue
                forced = is_false(t) or is_false(e)
                if forced and d.choice_calls:
                    fails.append("%s: the choice function is consulted although the branch is forced" % sit)
                if not forced and d.choice_calls != 1:
                    fails.append("%s: the choice function is consulted %d times (expected once)" % (sit, d.choice_calls))
                took = d.rec[0][0] if d.rec and d.rec[0] else None
                c = dict(trace).get("choice")
                want = e if is_false(t) else t if is_false(e) else (t if c == 1 else e)
                if took != want:
                    fails.append("%s: descends into %r, expected %r" % (sit, took, want))
                if len(d.writes) != 1:
                    fails.append("%s: %d entries of the cube are written (expected one)" % (sit, len(d.writes)))
                else:
                    idx, valw = d.writes[0]
                    if idx != ("varof", 3):
                        fails.append("%s: the cube entry written is %r, expected the variable of the node's level "
                                     "(level_to_var(level))" % (sit, idx))
                    if valw != ("optbool", want is t or want == t):
                        fails.append("%s: the cube records %r although the %s branch is taken" %
                                     (sit, valw, "then" if (want is t or want == t) else "else"))
        ctx.ob(rule, rule + ":" + kind + ":pick_cube_edge", not fails,
               "pick_cube_edge::inner (%s): %s" % (F.where(fid), " || ".join(fails[:3])) if fails else "ok")
    # ---- pick_cube_dd_set_edge -----------------------------------------------------------------------------------
    if ctx.anchor(rule, kind + " pick_cube_dd_set_edge::inner", "set" in fids):
        fid = fids["set"]
        fails = []
        rest = inner("rest", 5, (TRUE, FALSE))            # literal on a level below
        lit = {
            "no literal": (TRUE, None, TRUE),
            "literal below only": (rest, None, rest),
            "positive literal here": (inner("p3", 3, (rest, FALSE)), True, rest),
            "negative literal here": (inner("n3", 3, (FALSE, rest)), False, rest),
        }
        # literals on a level above the node (skipped), positive and negative
        for nm, (ls, pol, cont) in list(lit.items()):
            lit["positive literal above, then " + nm] = (inner("pa", 1, (ls, FALSE)), pol, cont)
            lit["negative literal above, then " + nm] = (inner("na", 1, (FALSE, ls)), pol, cont)
        for (t, e), (lname, (ls, pol, cont)) in itertools.product(((FALSE, A), (A, FALSE), (A, Bn)), sorted(lit.items())):
            N = inner("n", 3, (t, e))
            holder = {}

            def mk(oracle):
                d = PickDomain(F, fid)
                holder["d"] = d
                return Interp(F, d, oracle)
            for trace, (status, val) in enumerate_runs(mk, lambda it: it.call_fn(fid, [Opaque("manager"), N, ls])):
                n += 1
                d = holder["d"]
                sit = "node(then=%r, else=%r), %s" % (t, e, lname)
                if status != "ok":
                    fails.append("%s: %s %s" % (sit, status, val))
                    continue
                if not d.rec or len(d.rec[0]) != 2:
                    fails.append("%s: no recursive call with (edge, literal set) found" % sit)
                    continue
                took, ls_next = d.rec[0]
                if is_false(t):
                    want = e
                elif is_false(e):
                    want = t
                elif pol is None:
                    want = None        # any branch is acceptable without a literal
                else:
                    want = t if pol else e
                if want is not None and took != want:
                    fails.append("%s: descends into %r, expected %r (%s)" % (sit, took, want,
                                 "forced" if is_false(t) or is_false(e) else "polarity of the literal"))
                if ls_next != cont:
                    fails.append("%s: continues with the literal set %r, expected the remainder %r (literals below are "
                                 "lost otherwise)" % (sit, ls_next, cont))
                fails += shape_errors(val, sit, took is t or took == t)
        ctx.ob(rule, rule + ":" + kind + ":pick_cube_dd_set_edge", not fails,
               "pick_cube_dd_set_edge::inner (%s): %d situation(s) wrong; first: %s" % (F.where(fid), len(fails), " || ".join(fails[:3]))
               if fails else "ok")
    return n


def shape_errors(val, sit, took_then):
    if isinstance(val, Enum) and val.path == OK:
        val = val.args[0]
    if isinstance(val, Edge) and val.node[0] == "CUBE":
        _, level, positive, sub = val.node
        errs = []
        if level != 3:
            errs.append("%s: literal added at level %r, expected 3" % (sit, level))
        if positive != took_then:
            errs.append("%s: the literal added to the cube is %s although the %s branch was taken"
                        % (sit, "positive" if positive else "negative", "then" if took_then else "else"))
        if sub != "REC":
            errs.append("%s: the cube is not built from the recursion's result" % sit)
        return errs
    if not (isinstance(val, Edge) and val.node[0] == "NEW"):
        return ["%s: result %r is not a new node" % (sit, val)]
    ch = val.node[3]
    if val.node[1] != 3 or val.node[2] != 3:
        return ["%s: result node has level %r / is inserted at level %r, expected 3" % (sit, val.node[2], val.node[1])]
    sub, other = (ch[0], ch[1]) if took_then else (ch[1], ch[0])
    if not (sub.node[0] == "REC" and is_false(other)):
        return ["%s: result children %r do not put the sub-cube on the %s branch and false on the other"
                % (sit, ch, "then" if took_then else "else")]
    return []


# ---- ZBDD -----------------------------------------------------------------------------------------------------------
ZT = "oxidd_rules_zbdd::ZBDDTerminal::"


class ZPickDomain(PickDomain):
    def __init__(self, F, fid):
        super().__init__(F, fid)
        self.kind = tables.ZBDD

    def const(self, it, e):
        c = self.F.consts.get(e.get("did") or "")
        if c and "body" in c:
            return it.ev(c["body"], {"$consts": {}, "$fn": e.get("did")})
        return super().const(it, e)

    def method(self, it, m, e, env):
        if m in ("std::cmp::Ord::cmp", "core::cmp::Ord::cmp"):
            a = it.recv(e, env)
            (b,) = it.args(e, env)
            if isinstance(a, int) and isinstance(b, int):
                return Enum("core::cmp::Ordering::" + ("Less" if a < b else "Greater" if a > b else "Equal"))
        return super().method(it, m, e, env)


def run_zbdd(ctx, F, rule="E-TABLE.pick"):
    """ZBDD pick_cube_edge::inner / pick_cube_dd_edge::inner, one step on node(level 3; hi, lo):
    hi == lo (don't care): no choice, entry None / node (sub, sub); lo == Empty (forced): no choice, true;
    otherwise the choice decides once; the cube entry written is level_to_var(level); the dd variant returns the
    sub-cube itself on the lo branch (zero-suppressed) and node(level; sub, Empty) on the hi branch."""
    base = "oxidd_rules_zbdd::apply_rec::"
    EMPTY, BASE = Edge(("T", Enum(ZT + "Empty"))), Edge(("T", Enum(ZT + "Base")))

    def inner(name, level, children):
        return Edge(("S", SNode(name, level, children)))
    A = inner("a", 6, (BASE, EMPTY))
    Bn = inner("b", 7, (BASE, BASE))
    sits = [(A, EMPTY), (A, A), (A, Bn), (BASE, Bn), (A, BASE), (BASE, EMPTY), (BASE, BASE)]
    n = 0
    for which, suffix in (("cube", "::pick_cube_edge::inner"), ("dd", "::pick_cube_dd_edge::inner")):
        fids = [f for f in F.hir if f.startswith(base) and f.endswith(suffix)]
        if not ctx.anchor(rule, "zbdd " + suffix[2:], len(fids) == 1):
            continue
        fid = fids[0]
        fails = []
        for hi, lo in sits:
            N = inner("n", 3, (hi, lo))
            holder = {}

            def mk(oracle):
                holder["d"] = ZPickDomain(F, fid)
                return Interp(F, holder["d"], oracle)
            args = [Opaque("manager"), N] + ([Opaque("cube")] if which == "cube" else []) + [("closure-param",)]
            for trace, (status, val) in enumerate_runs(mk, lambda it: it.call_fn(fid, list(args))):
                n += 1
                d = holder["d"]
                sit = "zbdd node(hi=%r, lo=%r)%s" % (hi, lo, " " + str(trace) if trace else "")
                if status != "ok":
                    fails.append("%s: %s %s" % (sit, status, val))
                    continue
                dontcare = hi == lo
                forced = lo == EMPTY
                if (dontcare or forced) and d.choice_calls:
                    fails.append("%s: the choice function is consulted although the branch is %s" %
                                 (sit, "irrelevant (don't care)" if dontcare else "forced"))
                if not (dontcare or forced) and d.choice_calls != 1:
                    fails.append("%s: the choice function is consulted %d times (expected once)" % (sit, d.choice_calls))
                c = dict(trace).get("choice")
                took_hi = True if (dontcare or forced) else (c == 1)
                want = hi if took_hi else lo
                took = d.rec[0][0] if d.rec and d.rec[0] else None
                if took != want:
                    fails.append("%s: descends into %r, expected %r" % (sit, took, want))
                if which == "cube":
                    if len(d.writes) != 1:
                        fails.append("%s: %d entries of the cube are written (expected one)" % (sit, len(d.writes)))
                        continue
                    idx, valw = d.writes[0]
                    if idx != ("varof", 3):
                        fails.append("%s: the cube entry written is %r, expected the variable of the node's level" % (sit, idx))
                    wantv = Enum("oxidd_core::util::OptBool::None") if dontcare else ("optbool", took_hi)
                    if valw != wantv and not (dontcare and isinstance(valw, Enum) and valw.short == "None"):
                        fails.append("%s: the cube records %r, expected %r" % (sit, valw, wantv))
                else:
                    v = val.args[0] if isinstance(val, Enum) and val.path == OK else val
                    if not took_hi:
                        if not (isinstance(v, Edge) and v.node[0] == "REC"):
                            fails.append("%s: on the lo branch the result is %r, expected the sub-cube itself (the variable "
                                         "is zero-suppressed)" % (sit, v))
                    else:
                        okn = isinstance(v, Edge) and v.node[0] == "NEW" and v.node[1] == 3 and v.node[2] == 3 \
                            and v.node[3][0].node[0] == "REC" and \
                            (v.node[3][1].node[0] == "REC" if dontcare else v.node[3][1] == EMPTY)
                        if not okn:
                            fails.append("%s: result %r, expected node(level 3; sub, %s)" % (sit, v, "sub" if dontcare else "Empty"))
        ctx.ob(rule, "%s:zbdd:%s" % (rule, suffix[2:].replace("::inner", "")), not fails,
               "zbdd %s (%s): %s" % (suffix[2:], F.where(fid), "%d situation(s) wrong; first: %s" % (len(fails), " || ".join(fails[:3]))
                                     if fails else "ok"))
    return n


def check_add_literal(ctx, F, rule="E-TABLE.pick.literal"):
    """BCDD `add_literal_to_cube(manager, sub, level, positive)` (a builtin of the pick rules above): interpreted for
    sub in {x, !x, true} and both polarities; the result must denote (v if positive else !v) & sub for all values of
    x and v, be created at `level`, and be in complement-edge normal form (then-edge untagged)."""
    fid = "oxidd_rules_bdd::complement_edge::add_literal_to_cube"
    if not ctx.anchor(rule, fid, fid in F.hir):
        return 0
    bt = Enum("oxidd_rules_bdd::complement_edge::BCDDTerminal")
    none, comp = Enum(ETAG + "None"), Enum(ETAG + "Complemented")
    subs = [Edge(("N", "x"), none), Edge(("N", "x"), comp), Edge(("T", bt), none)]
    fails = []
    n = 0
    for sub in subs:
        for positive in (True, False):
            def mk(oracle):
                return Interp(F, PickDomain(F, fid), oracle)
            for trace, (status, val) in enumerate_runs(mk, lambda it: it.call_fn(fid, [Opaque("manager"), sub, 4, positive])):
                n += 1
                sit = "add_literal_to_cube(%r, level 4, %s)" % (sub, "positive" if positive else "negative")
                v = val.args[0] if status == "ok" and isinstance(val, Enum) and val.path == OK else None
                if not (isinstance(v, Edge) and v.node[0] == "NEW"):
                    fails.append("%s: %s %r, expected a new node" % (sit, status, val))
                    continue
                if v.node[1] != 4 or v.node[2] != 4:
                    fails.append("%s: node created at level %r / inserted at %r, expected 4" % (sit, v.node[2], v.node[1]))
                t = v.node[3][0]
                if isinstance(t.tag, Enum) and t.tag.short == "Complemented":
                    fails.append("%s: the then-edge of the new node is complemented (not in normal form: an equal function gets a "
                                 "second representation)" % sit)
                for x in (0, 1):
                    for dv in (0, 1):
                        valn = {"x": x, "v": dv}
                        got = ereduce.den(ereduce.BCDD_KIND, v, valn)
                        want = (dv if positive else 1 - dv) & ereduce.den(ereduce.BCDD_KIND, sub, valn)
                        if got != want:
                            fails.append("%s: with x=%d, v=%d the result evaluates to %d, expected %d" % (sit, x, dv, got, want))
                            break
                    else:
                        continue
                    break
    ctx.ob(rule, rule, not fails, "%s (%s): %s" % (fid, F.where(fid), "%d situation(s) wrong; first: %s" % (len(fails), " || ".join(fails[:3]))
                                                   if fails else "the literal is conjoined with the sub-cube, normal form kept"))
    return n


class Sym:
    """symbolic number term"""
    __slots__ = ("t",)

    def __init__(self, t):
        self.t = t

    def __eq__(self, o):
        return isinstance(o, Sym) and o.t == self.t

    def __hash__(self):
        return hash(self.t)

    def __repr__(self):
        return repr(self.t)


class UniformDomain(PickDomain):
    def __init__(self, F, fid):
        super().__init__(F, fid)
        self.compared = []
        self.closure = None

    def call(self, it, name, f, args_e, env, e):
        n = f.get("n", "")
        if n.endswith("::pick_cube_edge"):
            args = [it.ev(a, env) for a in args_e]
            self.closure = args[2]
            self.pick_args = args[:2]
            return Opaque("picked cube")
        if n.endswith("::cofactors_node"):
            tag, node = [it.ev(a, env) for a in args_e]
            return (Edge(("COF", 0, repr(tag), repr(node))), Edge(("COF", 1, repr(tag), repr(node))))
        if n.endswith("::sat_count_edge"):
            args = [it.ev(a, env) for a in args_e]
            return (Sym(("count", args[1], args[2])),)
        return super().call(it, name, f, args_e, env, e)

    def method(self, it, m, e, env):
        name = m.rsplit("::", 1)[-1]
        if name == "num_levels":
            it.recv(e, env)
            return Sym(("num_levels",))
        if name == "generate":
            it.recv(e, env)
            return Sym(("rng",))
        if name == "unwrap_inner":
            r = it.recv(e, env)
            return ("node-of", repr(r))
        if m == "oxidd_core::Manager::get_node":
            it.recv(e, env)
            (edge,) = it.args(e, env)
            return ("node", edge)
        if m == "oxidd_core::Edge::tag":
            r = it.recv(e, env)
            return ("tag-of", repr(r))
        return super().method(it, m, e, env)

    def call_value(self, it, fv, args):
        if isinstance(fv, tuple) and fv and fv[0] == "closure":
            _, ce, cenv = fv
            env = dict(cenv)
            for p, a in zip(ce.get("params", []), args):
                it.match(p, a, env)
            return it.ev(ce["body"], env)
        raise Unrecognised("call of %r" % (fv,))

    def binop(self, it, o, l, r):
        if isinstance(l, Sym) or isinstance(r, Sym):
            return Sym((o, l, r))
        return super().binop(it, o, l, r)

    def compare(self, it, a, b):
        if isinstance(a, Sym) or isinstance(b, Sym):
            self.compared.append((a, b))
            return -1 if it.fork(("cmp", repr(a), repr(b)), 2, "rng<p") == 0 else 1
        return super().compare(it, a, b)


def check_uniform(ctx, F, rule="E-TABLE.pick.uniform"):
    """`BooleanFunction::pick_cube_uniform_edge` (trait default): the choice closure handed to `pick_cube_edge` takes the
    then-branch iff  rng < count(then) / (count(then) + count(else)),  where (then, else) = cofactors_node(tag of the
    edge, node of the edge) and both counts are sat_count_edge over the same variable count (num_levels) and cache."""
    fid = "oxidd_core::function::BooleanFunction::pick_cube_uniform_edge"
    if not ctx.anchor(rule, fid, fid in F.hir):
        return 0
    holder = {}
    fails = []
    n = 0
    E0 = Edge(("N", "root"))

    def mk(oracle):
        holder["d"] = UniformDomain(F, fid)
        return Interp(F, holder["d"], oracle)

    def go(it):
        it.call_fn(fid, [Opaque("manager"), E0, Opaque("cache"), Opaque("rng")])
        d = holder["d"]
        if d.closure is None:
            raise Unrecognised("pick_cube_edge is not called with a choice closure")
        cur = Edge(("N", "cur"))
        return d.call_value(it, d.closure, [Opaque("manager"), cur, 3])
    for trace, (status, val) in enumerate_runs(mk, go):
        n += 1
        d = holder["d"]
        if status != "ok":
            fails.append("%s %s" % (status, val))
            continue
        if d.pick_args[1] != E0:
            fails.append("pick_cube_edge is started on %r, not on the given edge" % (d.pick_args[1],))
        if len(d.compared) != 1:
            fails.append("%d comparisons in the choice (expected one: rng < probability)" % len(d.compared))
            continue
        a, b = d.compared[0]
        took_then = (dict(trace).get("rng<p") == 0)
        if val is not took_then:
            fails.append("the closure answers %r when rng < p is %r" % (val, took_then))
        cur = Edge(("N", "cur"))
        tag, node = ("tag-of", repr(cur)), ("node-of", repr(("node", cur)))
        cof = [Edge(("COF", i, repr(tag), repr(node))) for i in (0, 1)]
        vars_ = Sym(("num_levels",))
        ct, ce = Sym(("count", cof[0], vars_)), Sym(("count", cof[1], vars_))
        want = [Sym(("/", ct, Sym(("+", ct, ce)))), Sym(("/", ct, Sym(("+", ce, ct))))]
        if a != Sym(("rng",)) or b not in want:
            fails.append("the then-branch is taken iff %r < %r, expected rng < count(then) / (count(then) + count(else)) with the "
                         "cofactors of the current node and the manager's number of levels" % (a, b))
    ctx.ob(rule, rule, not fails and n >= 2, "%s (%s): %s" % (fid, F.where(fid), " || ".join(fails[:2]) if fails else
                                                             "branch probability = count(then) / (count(then) + count(else))"))
    return n


def run_zbdd_set(ctx, F, rule="E-TABLE.pick"):
    """ZBDD `pick_cube_dd_set_edge::inner`, one step on node(level 3; hi, lo) with a literal set given as a ZBDD cube of the
    Boolean view (positive literal: node(l; rest, Empty); don't care: node(l; rest, rest); negative: level absent):
    lo == Empty forces hi; otherwise a positive / don't-care literal at the level selects hi, its absence selects lo;
    literals on levels above are skipped along their HI edges; the result is the sub-cube itself on the lo branch and
    node(3; sub, Empty) on the hi branch -- node(3; sub, sub) only when both the literal and the function's node are
    don't care; the literal set handed down is the one reached by the skipping."""
    base = "oxidd_rules_zbdd::apply_rec::"
    fids = [f for f in F.hir if f.startswith(base) and f.endswith("::pick_cube_dd_set_edge::inner")]
    if not ctx.anchor(rule, "zbdd pick_cube_dd_set_edge::inner", len(fids) == 1):
        return 0
    fid = fids[0]
    EMPTY, BASE = Edge(("T", Enum(ZT + "Empty"))), Edge(("T", Enum(ZT + "Base")))

    def inner(name, level, children):
        return Edge(("S", SNode(name, level, children)))
    A = inner("a", 6, (BASE, EMPTY))
    Bn = inner("b", 7, (BASE, BASE))
    rest = inner("rest", 5, (BASE, EMPTY))
    lits = {
        "no literal (Base)": (BASE, "neg", BASE),
        "literals below only": (rest, "neg", rest),
        "positive literal here": (inner("p3", 3, (rest, EMPTY)), "pos", None),
        "don't-care literal here": (inner("d3", 3, (rest, rest)), "dc", None),
    }
    for nm, (ls, pol, cont) in list(lits.items()):
        lits["positive literal above, then " + nm] = (inner("pa", 1, (ls, EMPTY)), pol, cont)
        lits["don't-care literal above, then " + nm] = (inner("da", 1, (ls, ls)), pol, cont)
    fails = []
    n = 0
    for (hi, lo), (lname, (ls, pol, cont)) in itertools.product(((A, EMPTY), (A, A), (A, Bn), (BASE, Bn)), sorted(lits.items())):
        N = inner("n", 3, (hi, lo))
        holder = {}

        def mk(oracle):
            holder["d"] = ZPickDomain(F, fid)
            return Interp(F, holder["d"], oracle)
        for trace, (status, val) in enumerate_runs(mk, lambda it: it.call_fn(fid, [Opaque("manager"), N, ls])):
            n += 1
            d = holder["d"]
            sit = "zbdd node(hi=%r, lo=%r), %s" % (hi, lo, lname)
            if status != "ok":
                fails.append("%s: %s %s" % (sit, status, val))
                continue
            if not d.rec or len(d.rec[0]) != 2:
                fails.append("%s: no recursive call with (edge, literal set) found" % sit)
                continue
            took, ls_next = d.rec[0]
            forced = lo == EMPTY
            take_hi = forced or pol in ("pos", "dc")
            want = hi if take_hi else lo
            if took != want:
                fails.append("%s: descends into %r, expected %r" % (sit, took, want))
                continue
            v = val.args[0] if isinstance(val, Enum) and val.path == OK else val
            if not take_hi:
                if not (isinstance(v, Edge) and v.node[0] == "REC"):
                    fails.append("%s: on the lo branch the result is %r, expected the sub-cube itself" % (sit, v))
            else:
                dc = (not forced) and pol == "dc" and hi == lo
                okn = isinstance(v, Edge) and v.node[0] == "NEW" and v.node[1] == 3 and v.node[2] == 3 and v.node[3][0].node[0] == "REC" \
                    and (v.node[3][1].node[0] == "REC" if dc else v.node[3][1] == EMPTY)
                if not okn:
                    fails.append("%s: result %r, expected node(3; sub, %s)" % (sit, v, "sub" if dc else "Empty"))
    ctx.ob(rule, "%s:zbdd:pick_cube_dd_set_edge" % rule, not fails,
           "zbdd pick_cube_dd_set_edge::inner (%s): %s" % (F.where(fid), "%d situation(s) wrong; first: %s" % (len(fails), " || ".join(fails[:3]))
                                                           if fails else "ok"))
    return n
