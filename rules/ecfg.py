"""E-CFG: build-configuration matrix and sibling agreement (DESIGN 3.9)"""
import re
import ecache
import ecanon
import eevent
import elin
import kinds
from lib import facts as factsmod
from lib import hirutil as H

IDX = "oxidd_manager_index::node::fixed_arity::"
PTR = "oxidd_manager_pointer::node::fixed_arity::"


def node_methods(F, prefix):
    out = {}
    for fid, r in F.fns.items():
        imp = r.get("impl") or {}
        if fid.startswith(prefix) and "NodeWithLevel<" in imp.get("self", "") and fid in F.hir:
            out[fid.rsplit("::", 1)[1]] = (ecache.sym(F.hir[fid]["body"], {}), fid)
    return out


def check_siblings(ctx, F, rule="E-CFG.siblings"):
    """index- and pointer-based node types: associated constants and method bodies agree"""
    for pfx, label in ((IDX, "index"), (PTR, "pointer")):
        cs = [c for i, c in F.consts.items() if i.startswith(pfx) and i.split("::")[-1].startswith("ARITY")
              and c.get("impl_trait") == "oxidd_core::InnerNode"]
        if ctx.anchor(rule, "%s NodeWithLevel InnerNode::ARITY" % label, len(cs) == 1):
            b = cs[0]["body"]
            ok = b.get("k") == "path" and b.get("dk") == "ConstParam"
            ctx.ob(rule, "%s:ARITY:%s" % (rule, label), ok,
                   "%s-based NodeWithLevel: `const ARITY` of the InnerNode impl is `%s`, not the type's ARITY parameter; "
                   "with 3-ary (TDD) nodes the algorithms and level_swap see the wrong number of children"
                   % (label, ecache.sym(b, {})))
    a, b = node_methods(F, IDX), node_methods(F, PTR)
    common = sorted(set(a) & set(b))
    ctx.floor(rule, "methods shared by the two node types", len(common), 14)
    for m in common:
        ctx.ob(rule, "%s:method:%s" % (rule, m), a[m][0] == b[m][0],
               "NodeWithLevel::%s differs between the index-based (%s) and the pointer-based (%s) backend:\n    index:   %s\n"
               "    pointer: %s" % (m, F.where(a[m][1]), F.where(b[m][1]), a[m][0][:200], b[m][0][:200]))
    # `current` belongs to arcslab's AtomicRefCounted, which only the pointer backend implements
    only = sorted((set(a) ^ set(b)) - {"current"})
    ctx.ob(rule, rule + ":method-sets", not only,
           "the two node types implement different method sets: %s" % only)


def check_noapplycache(ctx, F, rule="E-CFG.nocache"):
    for name, want in (("get_extended", "None"),):
        fids = [fid for fid, r in F.fns.items() if fid.startswith("oxidd::util::apply_cache::") and fid.endswith("::" + name)
                and "NoApplyCache" in (r.get("impl") or {}).get("self", "")]
        if ctx.anchor(rule, "NoApplyCache::" + name, len(fids) == 1):
            s = ecache.sym(F.hir[fids[0]]["body"], {})
            ctx.ob(rule, "%s:%s" % (rule, name), s.strip() == want,
                   "NoApplyCache::%s (%s) must be the constant miss, found `%s`" % (name, F.where(fids[0]), s[:80]))
    fids = [fid for fid, r in F.fns.items() if fid.startswith("oxidd::util::apply_cache::") and fid.endswith("::add_extended")
            and "NoApplyCache" in (r.get("impl") or {}).get("self", "")]
    if ctx.anchor(rule, "NoApplyCache::add_extended", len(fids) == 1):
        ncalls = len(list(H.calls(F.hir[fids[0]]["body"])))
        ctx.ob(rule, rule + ":add_extended", ncalls == 0, "NoApplyCache::add_extended must not do anything")


def run_config(ctx, config, deep=True):
    """build one corner of the matrix (type-check = both backends implement the interfaces the algorithms need)
    and re-run the backend-independent rules on it"""
    try:
        F = ctx.facts(config)
    except factsmod.FactsError as e:
        ctx.ob("E-CFG.build", "E-CFG.build:" + config, False,
               "configuration %s (%s) does not type-check:\n%s" % (config, " ".join(factsmod.CONFIGS[config]), str(e)[-800:]))
        return None
    ctx.ob("E-CFG.build", "E-CFG.build:" + config, True,
           "configuration %s type-checks (%d bodies)" % (config, len(F.mir)))
    tag = "[%s]" % config
    st = elin.run(ctx, F, rule="E-LIN" + tag, skip_guard_table=not deep)
    for k, tr in (("bdd", [kinds.BF, kinds.BFQ]), ("bcdd", [kinds.BF, kinds.BFQ]), ("zbdd", [kinds.BF, kinds.BVS]),
                  ("tdd", [kinds.TVL]), ("mtbdd", [kinds.PBF])):
        kinds.wrappers(ctx, F, k, tr, 5, mt="-mt" in config or config in ("ws", "ptr"), rule_suffix=tag)
    if deep:
        ecache.run(ctx, F, rule="E-CACHE" + tag)
        ecache.check_hit_equals_miss(ctx, F, rule="E-CACHE.hit" + tag)
        crate = "oxidd_manager_pointer" if "ptr" in config else "oxidd_manager_index"
        eevent.check_manager(ctx, F, crate, rule="E-EVENT" + tag)
        eevent.check_manager_data_forwarding(ctx, F, rule="E-EVENT.forward" + tag)
    return F


def check_slab_data_type(ctx, F, rule="E-CFG.slabtype"):
    """arcslab handles (`IntHandle`, `ExtHandle`, `ArcSlabRef`) carry the slab's *data type* as a type parameter and use
    it to locate the slab header (item counter, free list) from a slot address.  Every handle type that occurs in the
    pointer manager must name the same data type as the `ArcSlab` itself (`StoreInner`); a handle rebuilt with another
    type (e.g. `Manager`) computes header offsets that only coincide for some sizes of the manager data."""
    import collections
    kinds = collections.defaultdict(collections.Counter)

    def top_args(t):
        i = t.index("<")
        depth, args, cur = 0, [], ""
        for ch in t[i + 1:]:
            if ch == "<":
                depth += 1
            if ch == ">":
                if depth == 0:
                    args.append(cur.strip())
                    break
                depth -= 1
            if ch == "," and depth == 0:
                args.append(cur.strip())
                cur = ""
                continue
            cur += ch
        return args
    n = 0
    for fid, m in F.mir.items():
        if not fid.startswith("oxidd_manager_pointer::"):
            continue
        for l in m["locals"]:
            ty = l.get("ty") or ""
            for mm in re.finditer(r"arcslab::(IntHandle|ExtHandle|ArcSlab|ArcSlabRef)<", ty):
                a = [x for x in top_args(ty[mm.start():]) if not x.startswith("'")]
                if len(a) > 1:
                    head = a[1].split("<", 1)[0]
                    kinds[mm.group(1)][head] += 1
                    n += 1
    slab = set(kinds.get("ArcSlab", {}))
    if not ctx.anchor(rule, "ArcSlab data type of the pointer manager", len(slab) == 1):
        return n
    want = next(iter(slab))
    for k in ("IntHandle", "ExtHandle", "ArcSlabRef"):
        others = {h: c for h, c in kinds.get(k, {}).items() if h != want}
        ctx.ob(rule, "%s:%s" % (rule, k), not others and bool(kinds.get(k)),
               "arcslab::%s occurs with data type %s in the pointer manager, the slab is an ArcSlab<_, %s, _>: %s"
               % (k, sorted(kinds.get(k, {})), want,
                  "agree" if not others else "a handle of another data type locates the slab header at the wrong offset when it "
                  "frees a slot (memory corruption / leaked slots for some manager-data sizes)"))
    return n
