"""E-TABLE.swap: one node of `oxidd_reorder::level_swap`, interpreted.

`level_swap` exchanges the variables of two adjacent levels.  For every node N of the old upper level (variable a) its
loop body either moves N down unchanged (no child on the old lower level, variable b) or keeps N's identity, turns it
into a b-node and rebuilds its children from the grand-cofactors through the diagram's own rules.  That loop body is
interpreted from HIR on a small model store (mutable nodes, the three level views, recorded drops), once per
situation: each child of N is a node of the old lower level (with opaque grandchildren) or lies below (opaque), for
BCDDs with every admissible complement-tag combination, with and without an equal node already present in the old
upper level, with dead and with still-referenced old children.  Checked:

  function   N denotes the same function of (a, b, opaque sub-functions) before -- order a above b -- and after --
             order b above a --, under the kind's semantics of skipped levels (don't care; zero-suppressed for ZBDDs);
  placement  a node without a child on the lower level is inserted into the new lower level unchanged; otherwise N is
             relabelled with the lower level's (stale) number and inserted into the new upper level, its new children
             are below or carry the upper level's stale number and were obtained from the new lower level's table or
             found in the old upper level (no duplicate of an existing node);
  cleanup    an old child on the lower level whose reference count dropped to zero is removed from the new upper
             level's table exactly once, a still-referenced one is kept.

`DiagramRules::reduce` is the kind's real implementation (interpreted); `cofactors` / `skipped_cofactor` are the
builtins decided by E-TABLE.cof / E-TABLE.skip.
"""
import itertools

import epick
import ereduce
import tables
from lib.interp import Continue, Edge, Enum, Interp, Opaque, Panic, StructVal, Unrecognised, enumerate_runs
from tables import NODE_INNER, NODE_TERMINAL, OK, SOME, NONE

RULE = "E-TABLE.swap"
ETAG = "oxidd_rules_bdd::complement_edge::EdgeTag::"
UP, LO = 3, 4            # stale ("pre") numbers of the upper / lower level: 3 <-> variable a, 4 <-> variable b
BELOW = 9


class MNode:
    def __init__(self, name, level, children, rc=1):
        self.name, self.level, self.children, self.rc = name, level, list(children), rc

    def __repr__(self):
        return "%s@%d" % (self.name, self.level)


class Below:
    level = BELOW

    def __init__(self, name):
        self.name = name

    def __repr__(self):
        return self.name


class View:
    def __init__(self, name):
        self.name = name
        self.inserted, self.removed, self.created = [], [], []

    def __repr__(self):
        return "<%s>" % self.name


class Taken:
    def __init__(self, nodes):
        self.nodes = list(nodes)      # edges


class SwapDomain(ereduce.ReduceDomain):
    finite_loops = True

    def __init__(self, F, kind, reduce_fid, tagged, zero_suppressed, arity):
        super().__init__(F, kind)
        self.reduce_fid = reduce_fid
        self.tagged, self.zs, self.arity = tagged, zero_suppressed, arity
        self.dropped_edges, self.dropped_nodes = [], []
        self.below = {}
        self.counter = 0

    def default_tag(self):
        return Enum(ETAG + "None") if self.tagged else None

    # -- model --------------------------------------------------------------------------------------------------
    def node_of(self, edge):
        if isinstance(edge, Edge):
            if edge.node[0] == "M":
                return Enum(NODE_INNER, [edge.node[1]])
            if edge.node[0] == "N":
                return Enum(NODE_INNER, [self.below.setdefault(edge.node[1], Below(edge.node[1]))])
            if edge.node[0] == "T":
                return Enum(NODE_TERMINAL, [edge.node[1]])
        raise Unrecognised("get_node of %r" % (edge,))

    def iterate(self, it, v):
        if isinstance(v, ereduce.IterObj):
            return v.items[v.pos:]
        if isinstance(v, (list, tuple)):
            return list(v)
        if isinstance(v, StructVal) and v.path.endswith("Range"):
            return list(range(v.fields["start"], v.fields["end"]))
        return None

    def const(self, it, e):
        if (e.get("n") or "").endswith("::ARITY"):
            return self.arity
        return super().const(it, e)

    def call_value(self, it, fv, args):
        if isinstance(fv, tuple) and fv and fv[0] == "closure":
            _, ce, cenv = fv
            env = dict(cenv)
            for p, a in zip(ce.get("params", []), args):
                if not it.match(p, a, env):
                    raise Unrecognised("closure parameter pattern")
            return it.ev(ce["body"], env)
        raise Unrecognised("call of %r" % (fv,))

    def equal(self, it, a, b):
        if isinstance(a, (MNode, Below)) or isinstance(b, (MNode, Below)):
            return a is b
        return super().equal(it, a, b)

    # -- calls --------------------------------------------------------------------------------------------------
    def call(self, it, name, f, args_e, env, e):
        n = f.get("n", "")
        did = f.get("did", "")
        if n.endswith("DiagramRules::cofactors"):
            tag, node = [it.ev(a, env) for a in args_e]
            flip = self.tagged and isinstance(tag, Enum) and tag.short == "Complemented"
            return ereduce.IterObj([epick.ctag(c, flip) if self.tagged else c for c in node.children])
        if n.endswith("DiagramRules::skipped_cofactor"):
            _, c, i = [it.ev(a, env) for a in args_e]
            if self.zs and i == 0:
                return Edge(("T", Enum("oxidd_rules_zbdd::ZBDDTerminal::Empty")), None)
            return c
        if n.endswith("DiagramRules::reduce"):
            m, level, ch = [it.ev(a, env) for a in args_e]
            items = self.iterate(it, ch)
            return it.call_fn(self.reduce_fid, [m, level, tuple(items)])
        if n.endswith("LevelView::take"):
            (v,) = [it.ev(a, env) for a in args_e]
            raise Unrecognised("LevelView::take inside the loop body")
        if n.endswith("ptr::eq"):
            a, b = [it.ev(x, env) for x in args_e]
            return a is b
        if n.endswith("SmallVec::<A>::new") or n.endswith("SmallVec::new") or n.endswith("Vec::<T>::new"):
            return []
        if "unreachable_unchecked" in n:
            raise Panic("unreachable_unchecked reached")
        return super().call(it, name, f, args_e, env, e)

    def method(self, it, m, e, env):
        name = m.rsplit("::", 1)[-1]
        recv = it.recv(e, env)
        if isinstance(recv, (MNode, Below)):
            if name == "level":
                return recv.level
            if isinstance(recv, Below):
                raise Unrecognised("%s on a node below the two levels (must not be accessed)" % name)
            if name == "children":
                return ereduce.IterObj(recv.children)
            if name == "child":
                (i,) = it.args(e, env)
                return recv.children[i]
            if name == "set_child":
                i, c = it.args(e, env)
                old = recv.children[i]
                recv.children[i] = c
                return old
            if name == "set_level":
                (l,) = it.args(e, env)
                recv.level = l
                return ()
            if name == "ref_count":
                return recv.rc
        if isinstance(recv, Enum) and recv.path in (NODE_INNER, NODE_TERMINAL) and name == "level":
            return recv.args[0].level if recv.path == NODE_INNER else 2 ** 32 - 1
        if isinstance(recv, tuple) and recv and recv[0] == "node" and name == "drop_with_manager":
            it.args(e, env)
            self.dropped_nodes.append(recv)
            return ()
        if isinstance(recv, Taken) and name == "get":
            (node,) = it.args(e, env)
            for ed in recv.nodes:
                if ed.node[1].children == list(node[2]):
                    return Enum(SOME, [ed])
            return Enum(NONE)
        if isinstance(recv, Taken) and name in ("iter", "len"):
            return ereduce.IterObj(recv.nodes) if name == "iter" else len(recv.nodes)
        if isinstance(recv, View):
            args = it.args(e, env)
            if name == "insert_unchecked" or name == "insert":
                recv.inserted.append(args[0])
                return True
            if name == "get_or_insert_unchecked" or name == "get_or_insert":
                node = args[0]
                for ed in recv.created:
                    if ed.node[1].children == list(node[2]) and ed.node[1].level == node[1]:
                        return Enum(OK, [ed])
                self.counter += 1
                ed = Edge(("M", MNode("new%d" % self.counter, node[1], node[2], rc=1)), self.default_tag())
                recv.created.append(ed)
                return Enum(OK, [ed])
            if name == "remove":
                recv.removed.append(args[0])
                return True
            if name == "reserve":
                return ()
        if m == "oxidd_core::Manager::drop_edge":
            (x,) = it.args(e, env)
            self.dropped_edges.append(x)
            return ()
        # iterator plumbing on small lists
        if isinstance(recv, (list, ereduce.IterObj)):
            items = recv if isinstance(recv, list) else recv.items[recv.pos:]
            if name in ("iter", "into_iter", "iter_mut"):
                return ereduce.IterObj(items)
            if name in ("all", "any", "map"):
                (clo,) = it.args(e, env)
                res = [self.call_value(it, clo, [x]) for x in items]
                if name == "map":
                    return ereduce.IterObj(res)
                return all(res) if name == "all" else any(res)
            if name == "collect":
                return list(items)
            if name == "flatten":
                out = []
                for x in items:
                    out.extend(self.iterate(it, x))
                return ereduce.IterObj(out)
            if name == "enumerate":
                return ereduce.IterObj(list(enumerate(items)))
            if name == "len":
                return len(items)
            if name == "push" and isinstance(recv, list):
                (x,) = it.args(e, env)
                recv.append(x)
                return ()
        if isinstance(recv, StructVal) and recv.path.endswith("Range") and name == "map":
            (clo,) = it.args(e, env)
            return ereduce.IterObj([self.call_value(it, clo, [i]) for i in range(recv.fields["start"], recv.fields["end"])])
        return self._dispatch(it, m, e, env, recv)

    def _dispatch(self, it, m, e, env, recv):
        orig = it.recv
        it.recv = lambda e_, env_: recv if e_ is e else orig(e_, env_)
        try:
            return super().method(it, m, e, env)
        finally:
            it.recv = orig


# ---- semantics -----------------------------------------------------------------------------------------------------------
def compl(e):
    return isinstance(e.tag, Enum) and e.tag.short == "Complemented"


def den(e, order, val, zs, term):
    """value of edge e seen from above the levels `order` (stale numbers, top to bottom)"""
    if e.node[0] == "M":
        node = e.node[1]
        if node.level not in order:
            raise Unrecognised("node %r labelled %r in a context %r" % (node, node.level, order))
        k = order.index(node.level)
        if zs and any(val[x] for x in order[:k]):
            return 0
        ch = node.children[0] if val[node.level] else node.children[-1]
        v = den(ch, order[k + 1:], val, zs, term)
    else:
        if zs and any(val[x] for x in order):
            return 0
        v = val[e.node[1]] if e.node[0] == "N" else term(e.node[1])
    return 1 - v if compl(e) else v


def kinds(F):
    out = []
    for kname, crate, tagged, zs, term in (
            ("bdd", "oxidd_rules_bdd::simple", False, False, lambda t: 1 if t.short == "True" else 0),
            ("bcdd", "oxidd_rules_bdd::complement_edge", True, False, lambda t: 1),
            ("zbdd", "oxidd_rules_zbdd", False, True, lambda t: 1 if t.short == "Base" else 0)):
        fid = None
        for f, r in F.fns.items():
            imp = r.get("impl") or {}
            if f.startswith(crate + "::") and imp.get("trait") == "oxidd_core::DiagramRules" and f.endswith("::reduce"):
                fid = f
        if fid:
            out.append((kname, fid, tagged, zs, term))
    return out


def find_loop(F):
    fid = "oxidd_reorder::level_swap"
    h = F.hir.get(fid)
    if not h:
        return None
    from lib import hirutil as H
    for n in H.walk(h["body"]):
        if n.get("k") == "match" and n.get("src", "").startswith("ForLoopDesugar") and \
                ((n.get("e") or {}).get("f") or {}).get("n", "").endswith("into_iter"):
            it = n["e"]["a"][0]
            if it.get("k") == "mcall" and it.get("name") == "iter" and H.root_local(it["r"]) == "old_upper":
                import eprep
                _, pat, arm = eprep.loop_parts(n)
                return fid, pat, arm, [p.get("n") for p in h["params"]]
    return None


def run(ctx, F, rule=RULE, only=None):
    loop = find_loop(F)
    if not ctx.anchor(rule, "oxidd_reorder::level_swap: loop over the old upper level", loop is not None):
        return 0
    fid, pat, arm, params = loop
    if not ctx.anchor(rule, "level_swap(manager, upper_no, lower_no, upper_no_pre, lower_no_pre)", len(params) == 5):
        return 0
    n = 0
    for kname, reduce_fid, tagged, zs, term in kinds(F):
        if only and kname not in only:
            continue
        fails = []
        tags = [Enum(ETAG + "None"), Enum(ETAG + "Complemented")] if tagged else [None]
        T0 = tags[0]

        def atom(nm, t=None):
            return Edge(("N", nm), t if t is not None or not tagged else T0)
        shapes = []       # (description, builder) ; builder() -> (N edge, old_upper extra nodes)
        # children: "L" = node on the lower level, "B" = below
        for c0k, c1k in (("L", "L"), ("L", "B"), ("B", "L"), ("B", "B"), ("S", "S")):
            for elt in (tags if tagged else [None]):            # tag of N's else edge
                for gt in (tags if tagged else [None]):         # tag of the lower nodes' else edges
                    for rc in (0, 1):
                        for dedup in (False, True):
                            if (c0k, c1k) == ("B", "B") and (rc or dedup):
                                continue
                            shapes.append((c0k, c1k, elt, gt, rc, dedup))
        for c0k, c1k, elt, gt, rc, dedup in shapes:
            def build():
                def lower_node(nm):
                    return MNode(nm, LO, [atom(nm + "0"), atom(nm + "1", gt)], rc=rc)
                if c0k == "S":
                    shared = lower_node("c")
                    c0 = Edge(("M", shared), T0)
                    c1 = Edge(("M", shared), elt if tagged else None)
                    if not tagged:
                        return None        # equal children: the node would not exist (BDD) -- skip; ZBDD handled below
                else:
                    c0 = Edge(("M", lower_node("c0")), T0) if c0k == "L" else atom("x0")
                    c1 = Edge(("M", lower_node("c1")), elt) if c1k == "L" else atom("x1", elt)
                N = MNode("N", UP, [c0, c1], rc=1)
                return Edge(("M", N), T0)
            probe = build()
            if probe is None:
                continue
            if c0k == "S" and tagged and not compl(probe.node[1].children[1]):
                continue          # N(c, c) with equal tags is not a reduced node
            holder = {}

            def mk(oracle):
                d = SwapDomain(F, tables.BDD if not zs else tables.ZBDD, reduce_fid, tagged, zs, 2)
                if tagged:
                    d.kind = ereduce.BCDD_KIND
                holder["d"] = d
                return Interp(F, d, oracle)

            def go(it):
                d = holder["d"]
                Ne = build()
                N = Ne.node[1]
                before_children = list(N.children)
                others = []
                if dedup:
                    # a node of the old upper level that equals the first rebuilt child, if that child is a real node
                    g = []
                    for c in before_children:
                        if c.node[0] == "M":
                            cc = [epick.ctag(x, compl(c)) if tagged else x for x in c.node[1].children]
                            g.append(cc)
                        else:
                            g.append([Edge(("T", Enum("oxidd_rules_zbdd::ZBDDTerminal::Empty")), None), c] if zs else [c, c])
                    want0 = [g[0][0], g[1][0]]
                    X = MNode("X", UP, want0, rc=1)
                    others.append(Edge(("M", X), T0))
                    holder["X"] = X
                old_upper = Taken([Ne] + others)
                lower, upper = View("lower"), View("upper")
                holder.update(N=N, Ne=Ne, lower=lower, upper=upper, before=before_children)
                env = {"$consts": {}, "$fn": fid, "$mut": {}, "manager": Opaque("manager"), "old_upper": old_upper,
                       "lower": lower, "upper": upper, params[1]: 0, params[2]: 1, params[3]: UP, params[4]: LO}
                if not it.match(pat, Ne, env):
                    raise Unrecognised("loop pattern")
                try:
                    it.ev(arm, env)
                except Continue:
                    pass
            sit = "%s N(%s, %s)%s%s%s" % (kname, c0k, c1k, (" else-tags %s/%s" % (elt.short, gt.short)) if tagged else "",
                                          ", old children dead" if rc == 0 else "", ", equal node present" if dedup else "")
            for trace, (status, val) in enumerate_runs(mk, go):
                n += 1
                if status != "ok":
                    fails.append("%s: %s %s" % (sit, status, val))
                    continue
                d, N, Ne = holder["d"], holder["N"], holder["Ne"]
                lower, upper, before = holder["lower"], holder["upper"], holder["before"]
                dependent = any(c.node[0] == "M" and c.node[1].level == LO for c in before) if c0k != "S" else True
                # note: `before` children are lower-level nodes created with label LO
                dependent = any(c.node[0] == "M" for c in before)
                if not dependent:
                    if lower.inserted != [Ne] or upper.inserted or N.level != UP or N.children != before:
                        fails.append("%s: a node without a child on the lower level must be moved to the new lower level "
                                     "unchanged (lower inserts %r, upper inserts %r, level %r)" % (sit, lower.inserted, upper.inserted, N.level))
                    continue
                if N.level != LO or upper.inserted != [Ne] or lower.inserted:
                    fails.append("%s: the rebuilt node must be relabelled with the lower level's number and inserted into the new "
                                 "upper level (level %r, upper inserts %r, lower inserts %r)" % (sit, N.level, upper.inserted, lower.inserted))
                    continue
                # function preserved
                atoms = sorted({x.node[1] for c in before for x in ([c] if c.node[0] == "N" else c.node[1].children) if x.node[0] == "N"})
                Nb = MNode("N", UP, before, 1)
                bad = None
                for bits in itertools.product((0, 1), repeat=len(atoms) + 2):
                    valn = dict(zip(atoms, bits[2:]))
                    valn[UP], valn[LO] = bits[0], bits[1]
                    try:
                        b4 = den(Edge(("M", Nb), T0), [UP, LO], valn, zs, term)
                        af = den(Ne, [LO, UP], valn, zs, term)
                    except Unrecognised as u:
                        bad = str(u)
                        break
                    if b4 != af:
                        bad = "a=%d b=%d %r: %d before, %d after" % (bits[0], bits[1], {k: valn[k] for k in atoms}, b4, af)
                        break
                if bad:
                    fails.append("%s: the node denotes a different function after the swap (%s); new children %r"
                                 % (sit, bad, N.children))
                    continue
                # new children: below, created in `lower`, or the existing equal node
                for c in N.children:
                    if c.node[0] == "M":
                        nd = c.node[1]
                        ok_src = any(ed.node[1] is nd for ed in lower.created) or (dedup and nd is holder.get("X"))
                        if nd.level != UP or not ok_src:
                            fails.append("%s: new child %r (label %r) was not obtained from the new lower level's table / the old "
                                         "upper level" % (sit, nd, nd.level))
                if dedup and any(ed.node[1].children == holder["X"].children for ed in lower.created):
                    fails.append("%s: a second node equal to one of the old upper level is created (the lookup in the old upper "
                                 "level is skipped or its result ignored)" % sit)
                if tagged and any(compl(c.node[1].children[0]) for c in N.children if c.node[0] == "M") or (tagged and compl(N.children[0])):
                    fails.append("%s: a then-edge is complemented after the swap (normal form lost)" % sit)
                # cleanup of old children on the lower level
                olds = []
                for c in before:
                    if c.node[0] == "M" and not any(c.node[1] is o for o in olds):
                        olds.append(c.node[1])
                want_removed = olds if rc == 0 else []
                if [x for x in upper.removed] != want_removed and sorted(map(id, upper.removed)) != sorted(map(id, want_removed)):
                    fails.append("%s: old children removed from the new upper level: %r, expected %r (dead ones exactly once)"
                                 % (sit, upper.removed, want_removed))
        ctx.ob(rule, "%s:%s" % (rule, kname), not fails,
               "level_swap, %s (%s): %s" % (kname, F.where(fid), "%d situation(s) wrong; first: %s" % (len(fails), " || ".join(fails[:2]))
                                           if fails else "moves independent nodes down, rebuilds dependent ones preserving the function"))
    return n
