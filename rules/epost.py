"""E-POST: small must-analyses over all MIR paths of one function (postconditions)."""
import re

from lib import cfg


def paths(B, limit=2000):
    """all acyclic non-cleanup paths from entry to a `return`"""
    out = []
    stack = [(0, [0])]
    while stack:
        b, p = stack.pop()
        t = B.blocks[b]["t"]
        if t["k"] == "return":
            out.append(p)
            if len(out) > limit:
                raise RuntimeError("too many paths")
            continue
        for s in B.succ[b]:
            if s in p or B.blocks[s]["c"]:
                continue
            stack.append((s, p + [s]))
    return out


def check_clear_if_invalid(ctx, F, rule="E-POST.satcache"):
    """SatCountCache::clear_if_invalid: on every path to the return, for each of {epoch, vars} the stored field
    was either compared equal with the current value or overwritten with it, and the map is cleared whenever a
    field is overwritten"""
    fids = [f for f in F.mir if f.startswith("oxidd_core::util::") and f.endswith("::clear_if_invalid")]
    if not ctx.anchor(rule, "SatCountCache::clear_if_invalid", len(fids) == 1):
        return
    fid = fids[0]
    m = F.mir[fid]
    B = cfg.Body(m)
    where = F.where(fid)
    ADT = "oxidd_core::util::SatCountCache"
    fields = ("epoch", "vars")

    def field_of(p):
        if isinstance(p, dict):
            for e in p["p"]:
                if e.endswith("@" + ADT):
                    return e[1:].split("@")[0]
        return None
    # locals holding the *current* values: epoch <- gc_count(), vars <- parameter 2 (local _3)
    cur = {}
    for i, t in B.calls():
        if (cfg.callee_decl(t) or "").endswith("Manager::gc_count") and isinstance(t["d"], int):
            cur[t["d"]] = "epoch"
    cur[m["argc"]] = "vars"   # last parameter
    ctx.ob(rule, rule + ":reads-gc_count", "epoch" in cur.values(),
           "clear_if_invalid (%s) must take the current epoch from Manager::gc_count()" % where)

    def origin(block_stmts, local, depth=0):
        """follow copies inside the path's statements"""
        seen = set()
        while isinstance(local, int) and local not in cur and local not in seen:
            seen.add(local)
            nxt = None
            for s in block_stmts:
                if "lhs" in s and s["lhs"] == local and s["rv"]["k"] == "use":
                    nxt = cfg.op_place(s["rv"]["op"])
            if nxt is None:
                return local
            local = nxt
        return local
    ps = paths(B)
    bad = []
    for p in ps:
        stmts = [s for b in p for s in B.blocks[b]["s"]]
        assigned, tested = set(), set()
        cleared = False
        for idx, b in enumerate(p):
            blk = B.blocks[b]
            for s in blk["s"]:
                if "lhs" in s and field_of(s["lhs"]) in fields and s["rv"]["k"] == "use":
                    f = field_of(s["lhs"])
                    src = origin(stmts, cfg.op_place(s["rv"]["op"]))
                    if cur.get(src) == f:
                        assigned.add(f)
                    else:
                        assigned.add(f + "!wrong-source")
            t = blk["t"]
            if t["k"] == "call" and re.search(r"HashMap::<.*>::clear$|::clear$", cfg.callee_name(t) or ""):
                cleared = True
            if t["k"] == "switch" and idx + 1 < len(p):
                d = cfg.op_place(t["d"])
                # d = Ne(a, b) / Eq(a, b) defined in this block
                for s in blk["s"]:
                    if "lhs" in s and s["lhs"] == d and s["rv"]["k"] == "bin" and s["rv"]["o"] in ("Ne", "Eq"):
                        a = origin(stmts, cfg.op_place(s["rv"]["a"]))
                        bb = origin(stmts, cfg.op_place(s["rv"]["b"]))
                        fa = field_of(a) if isinstance(a, dict) else None
                        fb = field_of(bb) if isinstance(bb, dict) else None
                        f, other = (fa, bb) if fa else (fb, a)
                        if f in fields and cur.get(other) == f:
                            nxt = p[idx + 1]
                            val0 = [tb for v, tb in t["t"] if int(v) == 0]
                            took_zero = val0 and nxt == val0[0]
                            equal = took_zero if s["rv"]["o"] == "Ne" else not took_zero
                            if equal:
                                tested.add(f)
        missing = [f for f in fields if f not in assigned and f not in tested]
        wrong = [a for a in assigned if "!" in a]
        if missing or wrong or (assigned and not cleared) or (len(tested) < 2 and not cleared):
            bad.append((p, missing, wrong, cleared))
    ctx.ob(rule, rule + ":postcondition", not bad and bool(ps),
           ("clear_if_invalid (%s): on path %s the cache label is not brought up to date: field(s) %s neither "
            "compared equal nor overwritten with the current value%s%s; a stale label lets a later call reuse counts "
            "computed for another variable count or epoch"
            % (where, "->".join("bb%d" % b for b in bad[0][0]), bad[0][1], ", wrong source %s" % bad[0][2] if bad[0][2] else "",
               "" if bad[0][3] else ", map not cleared")) if bad else
           "all %d paths leave epoch and vars equal to the current values and clear the map on any mismatch" % len(ps))


def check_sat_count_uses(ctx, F, rule="E-POST.satcount"):
    """in every sat_count_edge, clear_if_invalid dominates every use of the cache map"""
    n = 0
    for fid, r in sorted(F.fns.items()):
        if not fid.endswith("::sat_count_edge") or not fid.startswith("oxidd_rules_"):
            continue
        m = F.mir.get(fid)
        if m is None:
            continue
        B = cfg.Body(m)
        names = [(i, cfg.callee_name(t) or "") for i, t in B.calls()]
        civ = [i for i, nm in names if nm.endswith("::clear_if_invalid")]
        deleg = [i for i, nm in names if nm.endswith("::sat_count_edge")]
        inner = [i for i, nm in names if re.search(r"sat_count_edge::inner$|::inner$", nm)]
        if deleg and not civ and not inner:
            ctx.ob(rule, "%s:%s" % (rule, F.nice(fid)), True, "delegates to the sequential implementation", nontrivial=False)
            continue
        n += 1
        ok = bool(civ) and bool(inner) and all(any(B.dominates(c, i) for c in civ) for i in inner)
        ctx.ob(rule, "%s:%s" % (rule, F.nice(fid)), ok,
               "%s (%s): cache.clear_if_invalid(manager, vars) must dominate the counting recursion; a stale count "
               "cache (after gc/reordering or for another `vars`) is consulted otherwise" % (F.nice(fid), F.where(fid)))
    ctx.floor(rule, "sat_count_edge implementations with a cache-validity check", n, 3)


def check_count_cache_users(ctx, F, rule="E-POST.mapusers"):
    """The keys of `SatCountCache::map` are private to the diagram kind that filled it (BCDDs fold the complement tag
    into the key: `node_id | tag << 31`).  Only `SatCountCache`'s own methods and the kinds' `sat_count_edge::inner`
    may touch the map; generic code that looks counts up by plain `node_id` (e.g. to avoid a call) reads the count of
    the complemented function for a plain edge."""
    import edm
    ADT = "oxidd_core::util::SatCountCache"
    users = []
    for fid, m in sorted(F.mir.items()):
        if fid.startswith(("oxidd_test_utils", "oxidd_cli")):
            continue
        if "map" in edm.fields_of(m, ADT):
            users.append(fid)
    ok_pat = re.compile(r"^oxidd_core::util::.*SatCountCache|::sat_count_edge::inner$|::sat_count_edge$")
    extra = [F.nice(f) for f in users if not ok_pat.search(F.nice(f)) and not ok_pat.search(f)]
    ctx.ob(rule, rule + ":SatCountCache.map", not extra and len(users) >= 4,
           ("SatCountCache::map is accessed by %s: its keys are specific to the diagram kind's sat_count_edge (complement "
            "tags are folded into them), so generic code reads the wrong entry" % extra) if extra else
           "%d functions touch SatCountCache::map, all of them SatCountCache methods or sat_count_edge::inner" % len(users))
    return len(users)
