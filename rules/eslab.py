"""E-SLAB.page: a fresh page of the pointer-based manager's slab allocator is one well-formed free list inside the page.

`Page::new` carves `PAGE_SIZE` bytes into a header and as many slots as fit and threads the slots into a free list;
`Page::page_ptr` recovers the page from any address inside it by masking.  (The default test suite does not build the
pointer-based manager, so nothing exercises this.)  Both are interpreted from HIR with addresses as integers
(PAGE_SIZE = 256, a 40 byte header, 16 byte slots, page at 0x10000):

  slots    the `next_free` writes of `Page::new` go to exactly the slots first + i * 16 for i < count = (256 - 40) / 16, all
           inside the page; slot i links to slot i + 1 and the last one to null;
  mask     `page_ptr(p)` is the page's base address for the first, an inner and the last byte of the page.
"""
import tables
from lib.interp import Enum, Interp, Opaque, Panic, StructVal, Unrecognised, enumerate_runs
from tables import SOME, NONE

RULE = "E-SLAB.page"
PAGE, HDR, SLOT, BASE_ADDR = 256, 40, 16, 0x10000


class Ptr:
    def __init__(self, addr, size):
        self.addr, self.size = addr, size

    def __eq__(self, o):
        return isinstance(o, Ptr) and o.addr == self.addr

    def __hash__(self):
        return hash(self.addr)

    def __repr__(self):
        return "ptr(%#x)" % self.addr


class SlabDomain(tables.DDDomain):
    finite_loops = True
    loop_limit = 64

    def __init__(self, F):
        super().__init__(F, tables.BDD)
        self.writes = []

    def _size(self, ty):
        ty = str(ty)
        if "Slot<" in ty:
            return SLOT
        if "Page<" in ty:
            return PAGE
        if ty.endswith("u8"):
            return 1
        return 8

    def cast(self, it, v, ty):
        if isinstance(v, Ptr):
            if str(ty).startswith("*"):
                return Ptr(v.addr, self._size(ty))
            return v.addr
        return None

    def equal(self, it, a, b):
        if isinstance(a, Ptr) and isinstance(b, Ptr):
            return a.addr == b.addr
        return super().equal(it, a, b)

    def field(self, it, v, n):
        if isinstance(v, Ptr):                      # place projection through a raw pointer: the field's address
            if n == "items" and v.size == PAGE:
                return Ptr(v.addr + HDR, SLOT)
            if n == "next_free" and v.size == SLOT:
                return Ptr(v.addr, 8)
        return None

    def call_value(self, it, fv, args):
        if isinstance(fv, tuple) and fv and fv[0] == "closure":
            _, ce, cenv = fv
            env = dict(cenv)
            for p, a in zip(ce.get("params", []), args):
                it.match(p, a, env)
            return it.ev(ce["body"], env)
        raise Unrecognised("call of %r" % (fv,))

    def unop(self, it, o, v):
        if o == "!" and isinstance(v, int) and not isinstance(v, bool):
            return ~v
        return super().unop(it, o, v)

    def call(self, it, name, f, args_e, env, e):
        n = f.get("did") or f.get("n", "")
        nn = f.get("n", "")
        if n.endswith("alloc::alloc"):
            [it.ev(a, env) for a in args_e]
            return Ptr(BASE_ADDR, 1)
        if nn.endswith("::layout") and "Page" in nn:
            return Opaque("layout")
        if n.endswith("non_null::{impl#3}::new") or nn.endswith("NonNull::<T>::new"):
            (p,) = [it.ev(a, env) for a in args_e]
            return Enum(SOME, [p]) if p.addr else Enum(NONE)
        if nn.endswith("NonNull::<T>::new_unchecked"):
            return [it.ev(a, env) for a in args_e][0]
        if n.endswith("ptr::write"):
            dst, v = [it.ev(a, env) for a in args_e]
            if not isinstance(dst, Ptr):
                raise Unrecognised("ptr::write to %r" % (dst,))
            self.writes.append((dst.addr, dst.size, v))
            return ()
        if n.endswith("ptr::null_mut") or n.endswith("ptr::null"):
            return Ptr(0, SLOT)
        if n.endswith("ptr::eq"):
            a, b = [it.ev(x, env) for x in args_e]
            return a.addr == b.addr
        if nn.endswith("size_of"):
            ga = f.get("ga") or [""]
            return self._size(ga[0])
        if nn.endswith("madvise"):
            [it.ev(a, env) for a in args_e]
            return 0
        if nn.endswith("map_addr"):
            p, clo = [it.ev(a, env) for a in args_e]
            return Ptr(self.call_value(it, clo, [p.addr]), p.size)
        return super().call(it, name, f, args_e, env, e)

    def method(self, it, m, e, env):
        name = m.rsplit("::", 1)[-1]
        recv = it.recv(e, env)
        if isinstance(recv, Ptr):
            if name in ("add", "offset"):
                (k,) = it.args(e, env)
                return Ptr(recv.addr + k * recv.size, recv.size)
            if name == "sub":
                (k,) = it.args(e, env)
                return Ptr(recv.addr - k * recv.size, recv.size)
            if name == "offset_from":
                (o,) = it.args(e, env)
                return (recv.addr - o.addr) // recv.size
            if name in ("as_ptr", "cast"):
                return recv
            if name == "map_addr":
                (clo,) = it.args(e, env)
                return Ptr(self.call_value(it, clo, [recv.addr]), recv.size)
        return super().method(it, m, e, env)


def run(ctx, F, rule=RULE):
    n = 0
    new = next((f for f in F.hir if f.startswith("arcslab::") and f.endswith("::new") and "arcslab::Page<" in F.nice(f)), None)
    pp = next((f for f in F.hir if f.startswith("arcslab::") and f.endswith("::page_ptr")), None)
    if not ctx.anchor(rule, "arcslab Page::new / Page::page_ptr", new is not None and pp is not None):
        return 0
    fails = []
    holder = {}

    def mk(o):
        holder["d"] = SlabDomain(F)
        return Interp(F, holder["d"], o)
    outs = list(enumerate_runs(mk, lambda it: it.call_fn(new, [Ptr(0x500, 8), Ptr(0, PAGE)], {"PAGE_SIZE": PAGE})))
    n += 1
    if len(outs) != 1 or outs[0][1][0] != "ok":
        fails.append("Page::new is not interpretable: %r" % (outs[0][1] if outs else None,))
    else:
        val = outs[0][1][1]
        if not (isinstance(val, Ptr) and val.addr == BASE_ADDR):
            fails.append("Page::new returns %r, expected the page's base address" % (val,))
        count = (PAGE - HDR) // SLOT
        first = BASE_ADDR + HDR
        links = {}
        for addr, size, v in holder["d"].writes:
            if addr == BASE_ADDR and size == PAGE:
                continue        # the header
            links[addr] = v
        want = {first + i * SLOT: (Ptr(first + (i + 1) * SLOT, SLOT) if i < count - 1 else Ptr(0, SLOT)) for i in range(count)}
        outside = sorted(a for a in links if not (first <= a and a + SLOT <= BASE_ADDR + PAGE))
        if outside:
            fails.append("Page::new writes a free-list link at offset %d of a %d byte page (slot does not fit): memory past the page is overwritten"
                         % (outside[0] - BASE_ADDR, PAGE))
        elif links != want:
            miss = sorted(a - BASE_ADDR for a in want if a not in links)
            wrong = sorted((a - BASE_ADDR, links[a]) for a in want if a in links and links[a] != want[a])
            fails.append("Page::new threads %d of %d slots; unlinked slot offsets %r, wrong links %r" % (len(links), count, miss[:4], wrong[:3]))
    for off in (0, 77, PAGE - 1):
        n += 1
        outs = list(enumerate_runs(mk, lambda it: it.call_fn(pp, [Ptr(BASE_ADDR + off, 1)], {"PAGE_SIZE": PAGE})))
        if len(outs) != 1 or outs[0][1][0] != "ok":
            fails.append("page_ptr is not interpretable: %r" % (outs[0][1] if outs else None,))
            break
        v = outs[0][1][1]
        got = v.addr if isinstance(v, Ptr) else v
        if got != BASE_ADDR:
            fails.append("page_ptr(base + %d) = %s, expected the base address" % (off, hex(got) if isinstance(got, int) else got))
    ctx.ob(rule, rule, not fails, "slab pages (%s): %s" % (F.where(new), " || ".join(fails[:3]) if fails else
           "%d slots threaded inside the page, last link null; page_ptr masks to the page base" % ((PAGE - HDR) // SLOT)))
    return n
